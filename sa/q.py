#!/usr/bin/env python3
"""q.py [-c config] dump <pat> | fns <pat> | callers <pat> | reach <fn> <pat> | adt <pat>"""
import sys, os
sys.path.insert(0, os.path.dirname(os.path.dirname(os.path.abspath(__file__))))
from sa import facts, prog, dump
def main(a):
    cfg = "default"
    if a and a[0] == "-c":
        cfg = a[1]; a = a[2:]
    d, _ = facts.build(cfg)
    P = prog.Program(facts.load_raw(d))
    cmd, pat = a[0], a[1]
    if cmd == "dump":
        for p, f in P.fns.items():
            if pat in p: dump.show(f.d); print()
    elif cmd == "fns":
        for p, f in sorted(P.fns.items()):
            if pat in p: print(p, f.kind, "%s:%s" % (f.file, f.line), f.vis, f.impl_trait or "")
    elif cmd == "callers":
        for q, lst in sorted(P.callers().items()):
            if pat in q:
                for (p, b, k) in lst: print(q, "<-", p, "bb%d" % b, k)
    elif cmd == "reach":
        f = [p for p in P.fns if a[1] in p]
        for p in f:
            for r in sorted(P.reach(p)):
                if a[2] in r: print(p, "->", r)
    elif cmd == "adt":
        import json
        for p, ad in P.adts.items():
            if pat in p: print(json.dumps(ad, indent=1))
main(sys.argv[1:])
