"""Build (through the slfacts rustc driver) and load the fact base of /repo's current working tree.

The facts are a pure function of (files under /repo, driver binary, configuration); they are
memoised under /verif/.cache/facts/<sha256> so that the 23 per-property commands do not each
pay for a cargo run.  Any edit under /repo changes the key and forces a rebuild."""
import fcntl
import glob
import hashlib
import json
import os
import pickle
import shutil
import subprocess
import sys
import time

VERIF = os.path.dirname(os.path.dirname(os.path.abspath(__file__)))
REPO = os.environ.get("SL_REPO", "/repo")
CACHE = os.environ.get("SL_CACHE", os.path.join(VERIF, ".cache"))
DRIVER_DIR = os.path.join(VERIF, "driver")
DRIVER = os.path.join(DRIVER_DIR, "target", "release", "slfacts")

# configuration name -> (cargo args, extra RUSTFLAGS)
CONFIGS = {
    "default": ([], ""),
    "features": (["--features", "searchlite-cli/vectors,searchlite-cli/zstd,searchlite-ffi/vectors,searchlite-ffi/zstd,"
                               "searchlite-http/vectors,searchlite-http/zstd,searchlite-wasm/vectors"], ""),
    "release": ([], "-C debug-assertions=off -C overflow-checks=off"),
}
EXPECTED_CRATES = {"searchlite_core", "searchlite_cli", "searchlite_ffi", "searchlite_http", "searchlite_wasm"}

# The `wasmhost` configuration: searchlite-wasm/src/wasm.rs is `cfg(target_arch = "wasm32")` and no wasm32 target is installed, but
# wasm-bindgen / js-sys / web-sys / wasm-bindgen-futures type-check on the host.  A generated harness crate includes the repository's
# wasm.rs by `#[path]` (the file itself, not a copy) with the dependency list of searchlite-wasm's wasm32 section, so the module is
# type-checked and its MIR extracted like any other crate.  Nothing in it is ever executed.
WASMHOST = "wasmhost"
WASMHOST_CRATE = "searchlite_wasm_host"


def _wasm_harness(repo):
    """(Re)generate the harness crate for `repo` under CACHE; returns its directory."""
    d = os.path.join(CACHE, "wasmhost-src-" + hashlib.sha256(os.path.abspath(repo).encode()).hexdigest()[:12])
    os.makedirs(os.path.join(d, "src"), exist_ok=True)
    wasm_toml = open(os.path.join(repo, "searchlite-wasm", "Cargo.toml")).read()
    # dependency section of the wasm32 target, taken from the repository's manifest (so that a changed dependency list is followed)
    deps = []
    sect = None
    for line in wasm_toml.splitlines():
        st = line.strip()
        if st.startswith("["):
            sect = st
            continue
        if sect == "[target.'cfg(target_arch = \"wasm32\")'.dependencies]":
            deps.append(line)
    deps_txt = "\n".join(deps)
    # wasm-bindgen-rayon (feature `threads`) needs wasm32 atomics: not part of the harness
    import re as _re
    deps_txt = _re.sub(r"(?m)^wasm-bindgen-rayon.*$", "", deps_txt)
    cargo = """[package]
name = "searchlite-wasm-host"
version = "0.0.0"
edition = "2021"

[lib]
path = "src/lib.rs"

[features]
default = []
vectors = ["searchlite-core/vectors"]

[dependencies]
anyhow = "1"
parking_lot = "0.12"
serde = { version = "1", features = ["derive"] }
serde_json = "1"
searchlite-core = { path = "%s", features = ["browser"] }
%s

[workspace]
""" % (os.path.join(os.path.abspath(repo), "searchlite-core"), deps_txt)
    lib = '#[path = "%s"]\nmod wasm;\npub use wasm::*;\n' % os.path.join(os.path.abspath(repo), "searchlite-wasm", "src", "wasm.rs")
    for name, txt in (("Cargo.toml", cargo), (os.path.join("src", "lib.rs"), lib)):
        pth = os.path.join(d, name)
        if not os.path.exists(pth) or open(pth).read() != txt:
            with open(pth, "w") as fh:
                fh.write(txt)
    shutil.copyfile(os.path.join(repo, "Cargo.lock"), os.path.join(d, "Cargo.lock"))
    return d

SKIP_DIRS = {".git", "target", "node_modules"}


def _env():
    env = dict(os.environ)
    env["CARGO_NET_OFFLINE"] = "true"
    return env


def nightly_sysroot():
    return subprocess.check_output(["rustc", "+nightly", "--print", "sysroot"], text=True, cwd=DRIVER_DIR).strip()


def ensure_driver(log=sys.stderr):
    srcs = glob.glob(os.path.join(DRIVER_DIR, "src", "*.rs")) + [os.path.join(DRIVER_DIR, "Cargo.toml")]
    if os.path.exists(DRIVER) and all(os.path.getmtime(DRIVER) >= os.path.getmtime(s) for s in srcs):
        return
    print("[facts] building slfacts driver", file=log)
    r = subprocess.run(["cargo", "+nightly", "build", "--release", "--offline"], cwd=DRIVER_DIR, env=_env(),
                       stdout=subprocess.PIPE, stderr=subprocess.STDOUT, text=True)
    if r.returncode != 0 or not os.path.exists(DRIVER):
        print(r.stdout, file=log)
        raise RuntimeError("slfacts driver failed to build")


def tree_hash(repo=None):
    repo = repo or REPO
    h = hashlib.sha256()
    files = []
    for root, dirs, fs in os.walk(repo):
        dirs[:] = sorted(d for d in dirs if d not in SKIP_DIRS)
        for f in sorted(fs):
            p = os.path.join(root, f)
            if f.endswith((".rs", ".toml", ".lock")) or f == "build.rs" or "/.cargo/" in p:
                files.append(p)
    for p in files:
        h.update(os.path.relpath(p, repo).encode())
        h.update(b"\0")
        try:
            with open(p, "rb") as fh:
                h.update(fh.read())
        except OSError:
            h.update(b"<unreadable>")
        h.update(b"\0")
    with open(DRIVER, "rb") as fh:
        h.update(hashlib.sha256(fh.read()).digest())
    return h.hexdigest(), len(files)


def _prune(facts_root, keep=8):
    try:
        ents = [os.path.join(facts_root, d) for d in os.listdir(facts_root)]
        ents = [e for e in ents if os.path.isdir(e)]
        ents.sort(key=os.path.getmtime, reverse=True)
        for e in ents[keep:]:
            shutil.rmtree(e, ignore_errors=True)
    except OSError:
        pass


def build(config="default", log=sys.stderr, repo=None):
    """Return the directory holding fresh fact files for /repo's working tree in `config`."""
    repo = repo or REPO
    ensure_driver(log)
    os.makedirs(CACHE, exist_ok=True)
    key, nfiles = tree_hash(repo)
    key = hashlib.sha256((key + "|" + config).encode()).hexdigest()[:32]
    facts_root = os.path.join(CACHE, "facts")
    out = os.path.join(facts_root, key)
    lock = open(os.path.join(CACHE, "lock-" + config), "w")
    fcntl.flock(lock, fcntl.LOCK_EX)
    try:
        if os.path.exists(os.path.join(out, "OK")):
            os.utime(out)
            return out, {"cached": True, "key": key, "hashed_files": nfiles}
        shutil.rmtree(out, ignore_errors=True)
        os.makedirs(out)
        target = os.path.join(CACHE, "target-" + config)
        # cargo's freshness cache would skip the wrapper for unchanged members: drop their fingerprints
        for fp in glob.glob(os.path.join(target, "debug", ".fingerprint", "searchlite*")):
            shutil.rmtree(fp, ignore_errors=True)
        if config == WASMHOST:
            args, rustflags = [], ""
        else:
            args, rustflags = CONFIGS[config]
        env = _env()
        env["LD_LIBRARY_PATH"] = os.path.join(nightly_sysroot(), "lib") + ":" + env.get("LD_LIBRARY_PATH", "")
        env["RUSTFLAGS"] = ("-Awarnings " + rustflags).strip()
        env["RUSTC_WORKSPACE_WRAPPER"] = DRIVER
        env["SLFACTS_OUT"] = out
        env["CARGO_TARGET_DIR"] = target
        env.pop("RUSTC_WRAPPER", None)
        t0 = time.time()
        cmd = ["cargo", "+nightly", "check", "--offline", "--workspace"] + args
        cwd = repo
        expected = EXPECTED_CRATES
        if config == WASMHOST:
            cwd = _wasm_harness(repo)
            cmd = ["cargo", "+nightly", "check", "--offline"]
            expected = {WASMHOST_CRATE}
        r = subprocess.run(cmd, cwd=cwd, env=env, stdout=subprocess.PIPE, stderr=subprocess.STDOUT, text=True)
        if r.returncode != 0:
            print(r.stdout[-6000:], file=log)
            shutil.rmtree(out, ignore_errors=True)
            raise RuntimeError("cargo check under the slfacts wrapper failed (config %s)" % config)
        crates = set()
        for f in glob.glob(os.path.join(out, "*.json")):
            crates.add(os.path.basename(f).split("-")[0])
        missing = expected - crates
        if missing:
            shutil.rmtree(out, ignore_errors=True)
            raise RuntimeError("no fresh fact file for crates: %s" % sorted(missing))
        with open(os.path.join(out, "OK"), "w") as fh:
            json.dump({"config": config, "wall_s": round(time.time() - t0, 1), "cmd": " ".join(cmd)}, fh)
        _prune(facts_root)
        return out, {"cached": False, "key": key, "hashed_files": nfiles, "cargo_s": round(time.time() - t0, 1)}
    finally:
        fcntl.flock(lock, fcntl.LOCK_UN)
        lock.close()


def load_raw(facts_dir):
    """Load and merge the per-process fact files of one configuration."""
    pk = os.path.join(facts_dir, "merged.pickle")
    if os.path.exists(pk):
        try:
            with open(pk, "rb") as fh:
                return pickle.load(fh)
        except Exception:
            pass
    docs = []
    for f in sorted(glob.glob(os.path.join(facts_dir, "*.json"))):
        with open(f) as fh:
            d = json.load(fh)
        d["_file"] = os.path.basename(f)
        docs.append(d)
    tmp = pk + ".%d" % os.getpid()
    with open(tmp, "wb") as fh:
        pickle.dump(docs, fh, protocol=pickle.HIGHEST_PROTOCOL)
    os.replace(tmp, pk)
    return docs


if __name__ == "__main__":
    cfg = sys.argv[1] if len(sys.argv) > 1 else "default"
    d, info = build(cfg)
    print(d, info)
