"""Build (through the slfacts rustc driver) and load the fact base of /repo's current working tree.

The facts are a pure function of (files under /repo, driver binary, configuration); they are
memoised under /verif/.cache/facts/<sha256> so that the 23 per-property commands do not each
pay for a cargo run.  Any edit under /repo changes the key and forces a rebuild."""
import fcntl
import glob
import hashlib
import json
import os
import pickle
import shutil
import subprocess
import sys
import time

VERIF = os.path.dirname(os.path.dirname(os.path.abspath(__file__)))
REPO = os.environ.get("SL_REPO", "/repo")
CACHE = os.environ.get("SL_CACHE", os.path.join(VERIF, ".cache"))
DRIVER_DIR = os.path.join(VERIF, "driver")
DRIVER = os.path.join(DRIVER_DIR, "target", "release", "slfacts")

# configuration name -> (cargo args, extra RUSTFLAGS)
CONFIGS = {
    "default": ([], ""),
    "features": (["--features", "searchlite-cli/vectors,searchlite-cli/zstd,searchlite-ffi/vectors,searchlite-ffi/zstd,"
                               "searchlite-http/vectors,searchlite-http/zstd,searchlite-wasm/vectors"], ""),
    "release": ([], "-C debug-assertions=off -C overflow-checks=off"),
}
EXPECTED_CRATES = {"searchlite_core", "searchlite_cli", "searchlite_ffi", "searchlite_http", "searchlite_wasm"}

SKIP_DIRS = {".git", "target", "node_modules"}


def _env():
    env = dict(os.environ)
    env["CARGO_NET_OFFLINE"] = "true"
    return env


def nightly_sysroot():
    return subprocess.check_output(["rustc", "+nightly", "--print", "sysroot"], text=True, cwd=DRIVER_DIR).strip()


def ensure_driver(log=sys.stderr):
    srcs = glob.glob(os.path.join(DRIVER_DIR, "src", "*.rs")) + [os.path.join(DRIVER_DIR, "Cargo.toml")]
    if os.path.exists(DRIVER) and all(os.path.getmtime(DRIVER) >= os.path.getmtime(s) for s in srcs):
        return
    print("[facts] building slfacts driver", file=log)
    r = subprocess.run(["cargo", "+nightly", "build", "--release", "--offline"], cwd=DRIVER_DIR, env=_env(),
                       stdout=subprocess.PIPE, stderr=subprocess.STDOUT, text=True)
    if r.returncode != 0 or not os.path.exists(DRIVER):
        print(r.stdout, file=log)
        raise RuntimeError("slfacts driver failed to build")


def tree_hash(repo=None):
    repo = repo or REPO
    h = hashlib.sha256()
    files = []
    for root, dirs, fs in os.walk(repo):
        dirs[:] = sorted(d for d in dirs if d not in SKIP_DIRS)
        for f in sorted(fs):
            p = os.path.join(root, f)
            if f.endswith((".rs", ".toml", ".lock")) or f == "build.rs" or "/.cargo/" in p:
                files.append(p)
    for p in files:
        h.update(os.path.relpath(p, repo).encode())
        h.update(b"\0")
        try:
            with open(p, "rb") as fh:
                h.update(fh.read())
        except OSError:
            h.update(b"<unreadable>")
        h.update(b"\0")
    with open(DRIVER, "rb") as fh:
        h.update(hashlib.sha256(fh.read()).digest())
    return h.hexdigest(), len(files)


def _prune(facts_root, keep=8):
    try:
        ents = [os.path.join(facts_root, d) for d in os.listdir(facts_root)]
        ents = [e for e in ents if os.path.isdir(e)]
        ents.sort(key=os.path.getmtime, reverse=True)
        for e in ents[keep:]:
            shutil.rmtree(e, ignore_errors=True)
    except OSError:
        pass


def build(config="default", log=sys.stderr, repo=None):
    """Return the directory holding fresh fact files for /repo's working tree in `config`."""
    repo = repo or REPO
    ensure_driver(log)
    os.makedirs(CACHE, exist_ok=True)
    key, nfiles = tree_hash(repo)
    key = hashlib.sha256((key + "|" + config).encode()).hexdigest()[:32]
    facts_root = os.path.join(CACHE, "facts")
    out = os.path.join(facts_root, key)
    lock = open(os.path.join(CACHE, "lock-" + config), "w")
    fcntl.flock(lock, fcntl.LOCK_EX)
    try:
        if os.path.exists(os.path.join(out, "OK")):
            os.utime(out)
            return out, {"cached": True, "key": key, "hashed_files": nfiles}
        shutil.rmtree(out, ignore_errors=True)
        os.makedirs(out)
        target = os.path.join(CACHE, "target-" + config)
        # cargo's freshness cache would skip the wrapper for unchanged members: drop their fingerprints
        for fp in glob.glob(os.path.join(target, "debug", ".fingerprint", "searchlite*")):
            shutil.rmtree(fp, ignore_errors=True)
        args, rustflags = CONFIGS[config]
        env = _env()
        env["LD_LIBRARY_PATH"] = os.path.join(nightly_sysroot(), "lib") + ":" + env.get("LD_LIBRARY_PATH", "")
        env["RUSTFLAGS"] = ("-Awarnings " + rustflags).strip()
        env["RUSTC_WORKSPACE_WRAPPER"] = DRIVER
        env["SLFACTS_OUT"] = out
        env["CARGO_TARGET_DIR"] = target
        env.pop("RUSTC_WRAPPER", None)
        t0 = time.time()
        cmd = ["cargo", "+nightly", "check", "--offline", "--workspace"] + args
        r = subprocess.run(cmd, cwd=repo, env=env, stdout=subprocess.PIPE, stderr=subprocess.STDOUT, text=True)
        if r.returncode != 0:
            print(r.stdout[-6000:], file=log)
            shutil.rmtree(out, ignore_errors=True)
            raise RuntimeError("cargo check under the slfacts wrapper failed (config %s)" % config)
        crates = set()
        for f in glob.glob(os.path.join(out, "*.json")):
            crates.add(os.path.basename(f).split("-")[0])
        missing = EXPECTED_CRATES - crates
        if missing:
            shutil.rmtree(out, ignore_errors=True)
            raise RuntimeError("no fresh fact file for crates: %s" % sorted(missing))
        with open(os.path.join(out, "OK"), "w") as fh:
            json.dump({"config": config, "wall_s": round(time.time() - t0, 1), "cmd": " ".join(cmd)}, fh)
        _prune(facts_root)
        return out, {"cached": False, "key": key, "hashed_files": nfiles, "cargo_s": round(time.time() - t0, 1)}
    finally:
        fcntl.flock(lock, fcntl.LOCK_UN)
        lock.close()


def load_raw(facts_dir):
    """Load and merge the per-process fact files of one configuration."""
    pk = os.path.join(facts_dir, "merged.pickle")
    if os.path.exists(pk):
        try:
            with open(pk, "rb") as fh:
                return pickle.load(fh)
        except Exception:
            pass
    docs = []
    for f in sorted(glob.glob(os.path.join(facts_dir, "*.json"))):
        with open(f) as fh:
            d = json.load(fh)
        d["_file"] = os.path.basename(f)
        docs.append(d)
    tmp = pk + ".%d" % os.getpid()
    with open(tmp, "wb") as fh:
        pickle.dump(docs, fh, protocol=pickle.HIGHEST_PROTOCOL)
    os.replace(tmp, pk)
    return docs


if __name__ == "__main__":
    cfg = sys.argv[1] if len(sys.argv) > 1 else "default"
    d, info = build(cfg)
    print(d, info)
