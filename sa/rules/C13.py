"""C13 — aggregations and suggestions do not depend on paging (partial)."""
import re
from sa import names as N
from sa.prog import Site, Slice, TERM, callee_of, op_local, op_place, op_const
from sa.rules.common import is_test_or_bench
from sa.rules import C09

EXPLANATION = ("Decides, for all requests: (a) no call that streams a document to an aggregation collector is control-dependent on a "
               "comparison of the candidate's sort key with the cursor key — directly, or through an accept callback whose boolean "
               "gates collection inside a top-k executor that was handed the real collector; (b) the executors never prune and never "
               "gate collection on the heap while a collector is attached (shared with C09); (c) suggestions are computed from "
               "req.suggest and the reader only. Independence from sort order through the score passed to collectors, from explain "
               "and from rescoring is not decided.")

COLLECT = "searchlite_core::query::collector::DocCollector::collect"


def cursor_switches(f):
    """Switch blocks whose operand derives from SortKey::cmp/partial_cmp against a value originating in the cursor key
    (an upvar / parameter / local named *cursor* or typed Option<SortKey>)."""
    out = []
    sl = Slice(f, through_all_calls=True)
    for b in f.reachable():
        t = f.blocks[b]["term"]
        if t["k"] != "switch":
            continue
        srcs = sl.sources(t["on"])
        for x in srcs:
            if x[0] == "call" and re.search(r"SortKey as core::cmp::(Ord|PartialOrd)>::(cmp|partial_cmp)$", callee_of(x[2])):
                args_src = []
                for a in x[2]["args"]:
                    args_src += sl.sources(a)
                from_cursor = any((y[0] == "field" and any("cursor" in fn for fn in y[2])) for y in args_src) or \
                    any((f.locals[l].get("name") or "").find("cursor") >= 0 or "Option<searchlite_core::query::sort::SortKey>" in f.locals[l]["ty"]
                        for l in _locals_of(args_src))
                if from_cursor:
                    out.append(b)
    return sorted(set(out))


def _locals_of(srcs):
    out = set()
    for y in srcs:
        if y[0] == "arg":
            out.add(y[1])
        elif y[0] == "field":
            out.add(y[1])
    return out


def r13a(ctx, P):
    rid = "R13.a"
    ctx.rule(rid, "GUARD: (1) every DocCollector::collect call site outside the executors is not control-dependent on a cursor-key "
                  "comparison; (2) when a top-k executor is handed a collector that derives from the aggregation collector, the "
                  "accept closure passed with it must not return false on a branch controlled by a cursor-key comparison (its "
                  "boolean gates collection inside the executor)")
    n = 0
    # (1) direct collect sites in the reader
    for p, f in sorted(P.fns.items()):
        if f.crate != "searchlite_core" or is_test_or_bench(f) or p.startswith(C09.WAND):
            continue
        cols = [b for b, t in f.calls() if t["callee"] == COLLECT or (callee_of(t).endswith("::collect") and "DocCollector" in callee_of(t))]
        if not cols or not p.startswith("searchlite_core::api::reader::"):
            continue
        ctx.saw(f)
        cs = cursor_switches(f)
        for cb in cols:
            n += 1
            deps = {a for (a, s) in f.control_deps_transitive(cb)}
            bad = [a for a in cs if a in deps]
            key = re.sub(r"\{closure#\d+\}", "{closure}", f.short)
            ctx.ob(rid, "%s:%s:collect-not-gated-by-cursor" % (rid, key), not bad,
                   "collect at %s does not depend on the cursor comparison" % Site(f, cb).loc() if not bad else
                   "collect at %s is control-dependent on the cursor-key comparison at %s: documents before the cursor are not "
                   "aggregated, so page 2 reports different aggregations than page 1" % (Site(f, cb).loc(), Site(f, bad[0]).loc()),
                   Site(f, cb).loc())
    ctx.floor(rid, n, 2, "aggregation collect sites in the reader (accept closure, scan_segment)")
    # (2) executor call sites
    m = 0
    for p, f in sorted(P.fns.items()):
        if f.crate != "searchlite_core" or is_test_or_bench(f) or not p.startswith("searchlite_core::api::reader::"):
            continue
        for b, t in f.calls():
            cal = callee_of(t)
            g = P.fn(cal)
            if g is None or not cal.startswith(C09.WAND + "execute_top_k"):
                continue
            coll, _adj = C09.hook_params(g)
            accept_idx = [i for i in range(1, g.arg_count + 1) if g.arg_ty(i) == "&mut F"]
            if not coll or not accept_idx:
                continue
            m += 1
            sl = Slice(f, through_all_calls=True)
            carg = t["args"][coll[0] - 1]
            srcs = sl.sources(carg)
            real = any(y[0] == "field" and "agg_collector" in y[2] for y in srcs) or \
                any(y[0] == "arg" and "DocCollector" in f.arg_ty(y[1]) for y in srcs) or \
                any((f.locals[l].get("name") or "") == "agg_collector" for l in _locals_of(srcs))
            marker = any(y[0] == "agg" and y[3].get("adt", "").endswith("StreamingMarker") for y in srcs) or \
                any("StreamingMarker" in f.locals[l]["ty"] for l in _all_locals(f, carg))
            closures = [y[3]["closure"] for y in sl.sources(t["args"][accept_idx[0] - 1]) if y[0] == "agg" and y[3].get("ak") == "closure"]
            site = Site(f, b)
            if not real:
                ctx.ob(rid, "%s:%s:executor-collector" % (rid, f.short), marker or not srcs or _is_none(srcs),
                       "executor at %s gets %s, not the aggregation collector: accept's result gates nothing that is aggregated"
                       % (site.loc(), "the no-op streaming marker" if marker else "no collector"), site.loc())
                continue
            for c in closures:
                cf = P.fn(c)
                if cf is None:
                    continue
                ctx.saw(cf)
                cs = cursor_switches(cf)
                bad = None
                for bb, i, s in cf.stmts():
                    if s["k"] == "assign" and s["dst"]["l"] == 0 and not s["dst"]["p"] and s["rv"]["k"] == "use":
                        cst = op_const(s["rv"]["a"])
                        if cst is not None and cst.get("int") == 0:
                            deps = {a for (a, sx) in cf.control_deps_transitive(bb)}
                            if any(a in deps for a in cs):
                                bad = Site(cf, bb, i)
                key = re.sub(r"\{closure#\d+\}", "{closure}", cf.short)
                ctx.ob(rid, "%s:%s:accept-false-on-cursor" % (rid, key), bad is None,
                       "accept closure never rejects on the cursor comparison while its result gates aggregation" if bad is None else
                       "the accept closure returns false at %s on the cursor-key comparison and the executor called at %s collects "
                       "only accepted documents into the aggregation collector" % (bad.loc(), site.loc()), site.loc())
    ctx.floor(rid + ".executors", m, 1, "top-k executor call sites in the reader")


def _is_none(srcs):
    return any(y[0] == "agg" and y[3].get("adt") == "core::option::Option" and y[3].get("variant") == "None" for y in srcs)


def _all_locals(f, operand):
    out = set()
    work = [op_local(operand)]
    while work:
        l = work.pop()
        if l is None or l in out:
            continue
        out.add(l)
        for d in f.defs().get(l, []):
            if d["k"] == "assign":
                rv = d["rv"]
                if rv["k"] in ("use", "cast"):
                    work.append(op_local(rv["a"]))
                elif rv["k"] == "ref":
                    work.append(rv["place"]["l"])
                elif rv["k"] == "agg":
                    for o in rv["ops"]:
                        work.append(op_local(o))
    return out


def _is_error_exit_test(f, b, not_defining=()):
    """`?` tests and early-return tests: one successor runs straight (drops/gotos/error construction only) to the return.
    not_defining: locals of interest — a path that assigns one of them is the computation itself, not an early exit."""
    t = f.blocks[b]["term"]
    if any("QuestionMark" in m for m in t.get("macros", [])):
        return True
    for s in f.succ(b):
        seen = set()
        x = s
        straight = True
        steps = 0
        while x is not None and x not in seen and steps < 400:
            seen.add(x)
            steps += 1
            if not_defining and any(st_["k"] == "assign" and st_["dst"]["l"] in not_defining for st_ in f.blocks[x]["stmts"]):
                straight = False
                break
            tx = f.blocks[x]["term"]
            if tx["k"] == "return":
                break
            if tx["k"] == "switch":
                straight = False
                break
            if tx["k"] == "call":
                cal = callee_of(tx)
                if not (cal.startswith(("anyhow::", "core::fmt::", "alloc::fmt::", "core::hint::")) or "from_residual" in cal
                        or any(m.endswith(("bail", "anyhow", "format_args", "format")) for m in tx.get("macros", []))):
                    straight = False
                    break
            nx = f.succ(x)
            x = nx[0] if nx else None
        if straight and x is not None and f.blocks[x]["term"]["k"] == "return":
            return True
    return False


def r13c(ctx, P):
    rid = "R13.c"
    ctx.rule(rid, "FLOW: every argument of execute_suggest derives only from `req.suggest` and the reader itself (nothing derived "
                  "from limit / cursor / sort / execution / explain / profile reaches it)")
    n = 0
    for name in ("search", "search_vector_only"):
        f = P.fn(N.READER + "::" + name)
        if f is None:
            continue
        sl = Slice(f, through_all_calls=True)
        for b, t in f.calls():
            if callee_of(t) != N.READER + "::execute_suggest":
                continue
            n += 1
            bad = set()
            for a in t["args"][1:]:
                for y in sl.sources(a):
                    if y[0] == "field":
                        req_fields = [x for x in y[2] if x in ("limit", "cursor", "sort", "execution", "explain", "profile", "rescore",
                                                                "return_hits", "candidate_size", "bmw_block_size", "collapse")]
                        bad |= set(req_fields)
            flds = set()
            for a in t["args"][1:]:
                flds |= sl.fields(a)
            # the call itself must not be gated by paging state either
            paging = ("limit", "cursor", "sort", "execution", "explain", "profile", "rescore", "return_hits", "candidate_size",
                      "bmw_block_size", "collapse")
            from sa.prog import ok_sites
            direct = f.control_deps().get(b, set())
            for (a_, succ) in direct:
                tt = f.blocks[a_]["term"]
                if tt["k"] == "switch":
                    for y in sl.sources(tt["on"]):
                        if y[0] == "field" and y[1] == 2:
                            bad |= {x for x in y[2] if x in paging}
                    # the decision whether to compute suggestions lies on every success path
                    if not all(f.dominates_block(a_, o.b) for o in ok_sites(f)):
                        bad.add("(suggest computation can be bypassed on a success path)")
            ok = not bad and "suggest" in flds
            ctx.ob(rid, "%s:%s:execute_suggest-args" % (rid, name), ok,
                   "execute_suggest at %s is called with req.suggest only" % Site(f, b).loc() if ok else
                   "execute_suggest at %s receives values derived from %s" % (Site(f, b).loc(), sorted(bad) or "something other than req.suggest"),
                   Site(f, b).loc())
    ctx.floor(rid, n, 1, "execute_suggest call sites")
    es = P.fn(N.READER + "::execute_suggest")
    if es is not None:
        # the suggester itself reads no paging state: its parameters are (&self, &BTreeMap<String, SuggestRequest>)
        tys = [es.arg_ty(i) for i in range(2, es.arg_count + 1)]
        ok = all("SearchRequest" not in ty for ty in tys)
        ctx.ob(rid, "%s:execute_suggest:signature" % rid, ok,
               "execute_suggest takes %s (no access to the search request)" % tys if ok else
               "execute_suggest receives the whole SearchRequest", "%s:%s" % (es.file, es.line))


def r13d(ctx, P):
    rid = "R13.d"
    ctx.rule(rid, "UNCONDITIONAL finish + merge: documents are fed to a segment's aggregation collector BEFORE the cursor test (R13.a), so "
                  "whether that segment produced hits for this page says nothing about what its collector holds. In IndexReader::search "
                  "(and search_vector_only) the call `collector.finish()` of each per-segment collector and the push of its result are "
                  "controlled by nothing but the segment loop, error exits and the presence of the collector itself — in particular "
                  "not by a match counter, the hit list or the cursor")
    n = 0
    for name in ("search", "search_vector_only"):
        f = P.fn(N.READER + "::" + name)
        if f is None:
            continue
        sl = Slice(f)
        for b, t in f.calls():
            if not callee_of(t).endswith("AggregationSegmentCollector>::finish") and not (callee_of(t).endswith("::finish") and "Aggregation" in callee_of(t)):
                continue
            n += 1
            ctx.saw(f)
            extra = []
            from sa.rules.C25 import natural_loops
            inner = [body for h, body in natural_loops(f) if b in body]
            loop_body = min(inner, key=len) if inner else set(f.reachable())
            for (a, succ) in f.control_deps_transitive(b):
                ta = f.blocks[a]["term"]
                if ta["k"] != "switch" or a not in loop_body:
                    continue          # tests before the segment loop are the same for every segment
                if any("ForLoop" in m or "WhileLoop" in m for m in (ta.get("macros") or [])) or _is_error_exit_test(f, a):
                    continue
                srcs = sl.sources(ta["on"])
                # presence of the collector: the test is directly the discriminant of an Option<..Collector..>
                opt_only, ty_ok = False, False
                dl = op_local(ta["on"])
                dfs = f.defs().get(dl, []) if dl is not None else []
                if len(dfs) == 1 and dfs[0]["k"] == "assign" and dfs[0]["rv"]["k"] == "discr":
                    opt_only = True
                    ty = f.local_ty(dfs[0]["rv"]["place"]["l"])
                    ty_ok = ty.startswith("core::option::Option<") and ("Aggregation" in ty or "Collector" in ty)
                # request-level switches that are the same for every segment and page-independent: aggs present at all
                req_level = bool(sl.fields(ta["on"]) & {"aggs"}) and not any(x[0] == "binop" for x in srcs)
                if (opt_only and ty_ok) or req_level:
                    continue
                extra.append(Site(f, a))
            ctx.ob(rid, "%s:%s:finish-unconditional" % (rid, name), not extra,
                   "every segment's collector is finished and merged whenever it exists" if not extra else
                   "the per-segment `finish()` at %s is skipped depending on the test at %s: documents are collected before the cursor "
                   "test, so a segment without hits on this page can still hold counts — dropping it makes aggregations differ between pages"
                   % (Site(f, b).loc(), extra[0].loc()), Site(f, b).loc())
    ctx.floor(rid, n, 1, "per-segment collector.finish() in search")


THOROUGH_FEATURES = ['r13d']


def r13e(ctx, P):
    rid = "R13.e"
    import re
    from sa.rules.common import chain_filters
    ctx.rule(rid, "EVERY SEGMENT IS VISITED (aggregations are computed over all matches, whatever the page): in IndexReader::search the "
                  "loop that runs the per-segment search iterates `self.segments` itself — no element-dropping adapter (skip, take, "
                  "filter, step_by, ...) in the iterator chain — and the per-segment search call is not controlled by a test on "
                  "anything derived from the cursor (other than error exits)")
    f = P.fn(SEARCH) if "SEARCH" in globals() else P.fn(N.READER + "::search")
    if not ctx.anchor(rid, f, "IndexReader::search"):
        return
    ctx.saw(f)
    sl = Slice(f, through_all_calls=True)
    sl0 = Slice(f)
    seg_calls = [(b, t) for b, t in f.calls() if callee_of(t) in (N.READER + "::search_segment", N.READER + "::scan_segment")]
    if not ctx.anchor(rid, seg_calls, "per-segment search call in IndexReader::search"):
        return
    loops = natural_loops_local(f)
    n = 0
    for b, t in seg_calls:
        mine = [(h, body) for h, body in loops if b in body]
        # the loop is driven by Iterator::next over something derived from self.segments
        drv = None
        for h, body in sorted(mine, key=lambda hb: len(hb[1])):
            for nb in body:
                nt = f.blocks[nb]["term"]
                if nt["k"] == "call" and callee_of(nt).endswith("Iterator>::next") and any("ForLoop" in m for m in (nt.get("macros") or [])):
                    if "segments" in sl.fields(nt["args"][0]):
                        drv = (nb, nt)
            if drv:
                break
        if not ctx.anchor(rid, drv, "for loop over self.segments around the per-segment search"):
            continue
        n += 1
        nb, nt = drv
        drops = chain_filters(P, f, nt["args"][0])
        ctx.ob(rid, "%s:search:iterates-all-segments" % rid, not drops,
               "the per-segment search runs for every element of self.segments" if not drops else
               "the loop over the segments drops elements (Iterator::%s at %s): segments that are not searched contribute nothing to "
               "aggregations, so their result depends on the page" % (drops[0][0], Site(f, drops[0][1]).loc()),
               Site(f, drops[0][1]).loc() if drops else Site(f, nb).loc())
        bad = []
        loop_body = next(body for h, body in sorted(mine, key=lambda hb: len(hb[1])) if nb in body)
        for (a, succ) in f.control_deps_transitive(b):
            ta = f.blocks[a]["term"]
            # only tests made per segment (inside the loop): what is decided before the loop holds for all segments alike
            if ta["k"] != "switch" or a == f.blocks[nb]["term"].get("target") or a not in loop_body:
                continue
            if any("ForLoop" in m or "QuestionMark" in m for m in (ta.get("macros") or [])) or _is_error_exit_test(f, a):
                continue
            flds = sl.fields(ta["on"])
            if flds & {"cursor"} or any((f.locals[l_].get("name") or "").startswith(("cursor", "saw_cursor")) for l_ in sl.locals(ta["on"])):
                bad.append(Site(f, a))
        ctx.ob(rid, "%s:search:segment-search-independent-of-cursor" % rid, not bad,
               "whether a segment is searched does not depend on the cursor" if not bad else
               "the per-segment search at %s is controlled by a cursor-derived test at %s" % (Site(f, b).loc(), bad[0].loc()),
               bad[0].loc() if bad else Site(f, b).loc())
    ctx.floor(rid, n, 1, "per-segment search calls inside the segment loop")


def natural_loops_local(f):
    from sa.rules.C25 import natural_loops
    return natural_loops(f)


def run(ctx, progs):
    P = progs.get("default")
    r13a(ctx, P)
    r13e(ctx, P)
    r13d(ctx, P)
    ctx.rule("R13.b", "GUARD: no pruning and no heap-gated collection while a collector is attached (= R09.b collector half and R09.c)")
    sub = type(ctx)(ctx.pid, ctx.tier)
    C09.r09b(sub, P)
    C09.r09c(sub, P)
    for o in sub.obs:
        ctx.ob("R13.b", o.key.replace("R09.b", "R13.b").replace("R09.c", "R13.b"), o.ok, o.what, o.where, o.detail)
    r13c(ctx, P)
    if ctx.tier == "thorough":
        ctx.config = "features"
        Pf = progs.get("features")
        r13a(ctx, Pf)
        r13c(ctx, Pf)
        ctx.config = "default"
    ctx.assumptions += ["the score handed to collectors is the same on every page (it does not depend on the cursor)"]
