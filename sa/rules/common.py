"""Helpers shared by several property rule sets."""
from sa import names as N
from sa.prog import (Site, Slice, TERM, callee_of, op_local, op_place, op_const, ok_sites, err_sites, return_sites,
                     lock_acquisitions, lock_states, outcome_arms, in_arm, must_order, Effect, place_fields)


def loc(fn, b, i=TERM):
    return Site(fn, b, i).loc()


def publish_sites(P, fn):
    """Stores through a `RwLockWriteGuard<Manifest>` (whole-value or field): the in-memory publish."""
    out = []
    guards = set()
    for b, t in fn.calls():
        cal = callee_of(t)
        if cal.endswith("core::ops::deref::DerefMut>::deref_mut") and "RwLockWriteGuard" in cal:
            recv_ty = fn.local_ty(op_local(t["args"][0])) if op_local(t["args"][0]) is not None else ""
            if "manifest::Manifest" in recv_ty or "manifest::Manifest" in t.get("dst_ty", ""):
                guards.add(t["dst"]["l"])
    for b, i, s in fn.stmts():
        if s["k"] == "assign" and s["dst"]["l"] in guards and s["dst"]["p"] and s["dst"]["p"][0] == "deref":
            out.append(Site(fn, b, i))
    return out


def writer_entry_points(P):
    """pub methods of IndexWriter (by impl self type), plus `new` (crate-visible constructor)."""
    out = {}
    for p, f in P.fns.items():
        if f.kind == "assoc_fn" and f.impl_self == N.W and not f.impl_trait:
            out[p.rsplit("::", 1)[1]] = f
    return out


def callers_of(P, target):
    """Direct callers (fn paths) of a def path, closures mapped to themselves."""
    return sorted({p for (p, b, k) in P.callers().get(target, ()) if k in ("call", "fnref")})


def root_fn(P, path):
    """Outermost non-closure function a closure belongs to."""
    f = P.fn(path)
    while f is not None and f.parent and P.fn(f.parent) is not None:
        f = P.fn(f.parent)
    return f.path if f else path


def is_test_or_bench(f):
    return "/tests/" in f.file or "/benches/" in f.file or "/examples/" in f.file


def entry_ancestors(P, target, stop=None, skip=None):
    """Walk the call graph upwards from `target` through private helpers and closures; stop at functions for
    which stop(fn_path) holds (default: `pub` functions) or that have no callers.  Returns the set of paths
    at which the walk stopped: every call chain reaching `target` passes through one of them."""
    def default_stop(p):
        f = P.fn(p)
        return f is not None and f.vis == "Public" and f.kind != "closure"
    stop = stop or default_stop
    out = set()
    seen = set()
    work = [c for c in callers_of(P, target)]
    cl = P.callers()
    while work:
        p = work.pop()
        if p in seen:
            continue
        seen.add(p)
        f = P.fn(p)
        if f is not None and skip and skip(f):
            continue
        if f is not None and f.kind == "closure" and f.parent:
            work.append(f.parent)
            continue
        if stop(p):
            out.add(p)
            continue
        ups = [q for (q, b, k) in cl.get(p, ()) if k in ("call", "fnref", "dyn")]
        if not ups:
            out.add(p)
        else:
            work.extend(ups)
    return out


def direct_callers(P, pred, skip=None):
    """Functions (paths) containing a direct call whose callee (resolved or declared) satisfies pred."""
    out = {}
    for p, f in P.fns.items():
        if skip and skip(f):
            continue
        for b, t in f.calls():
            if pred(callee_of(t)) or pred(t["callee"]):
                out.setdefault(p, Site(f, b))
    return out


def tops_of(P, start_paths, stop):
    """Walk callers upwards from each start path until stop(path) or a function without callers."""
    out = set()
    seen = set()
    work = list(start_paths)
    cl = P.callers()
    while work:
        p = work.pop()
        if p in seen:
            continue
        seen.add(p)
        f = P.fn(p)
        if f is not None and f.kind == "closure" and f.parent:
            work.append(f.parent)
            continue
        if stop(p):
            out.add(p)
            continue
        ups = [q for (q, b, k) in cl.get(p, ()) if k in ("call", "fnref", "dyn")]
        if not ups:
            out.add(p)
        else:
            work.extend(ups)
    return out


def is_queue_receiver(f, sl, operand):
    """The operand is (a borrow of) the writer's pending-operations queue: the field `pending_ops`, or any Vec<PendingOp>
    (a helper taking the queue by reference)."""
    from sa.prog import op_local
    if "pending_ops" in sl.fields(operand):
        return True
    l = op_local(operand)
    # a queue handed in by reference (parameter), not a local vector being built (WAL replay in IndexWriter::new)
    return l is not None and "Vec<searchlite_core::api::writer::PendingOp>" in f.local_ty(l).replace("alloc::vec::", "") and \
        bool(sl.args(operand)) and "&mut" in f.local_ty(l)
