"""Helpers shared by several property rule sets."""
from sa import names as N
from sa.prog import (Site, Slice, TERM, callee_of, op_local, op_place, op_const, ok_sites, err_sites, return_sites,
                     lock_acquisitions, lock_states, outcome_arms, in_arm, must_order, Effect, place_fields)


def loc(fn, b, i=TERM):
    return Site(fn, b, i).loc()


def publish_sites(P, fn):
    """Stores through a `RwLockWriteGuard<Manifest>` (whole-value or field): the in-memory publish."""
    out = []
    guards = set()
    for b, t in fn.calls():
        cal = callee_of(t)
        if cal.endswith("core::ops::deref::DerefMut>::deref_mut") and "RwLockWriteGuard" in cal:
            recv_ty = fn.local_ty(op_local(t["args"][0])) if op_local(t["args"][0]) is not None else ""
            if "manifest::Manifest" in recv_ty or "manifest::Manifest" in t.get("dst_ty", ""):
                guards.add(t["dst"]["l"])
    for b, i, s in fn.stmts():
        if s["k"] == "assign" and s["dst"]["l"] in guards and s["dst"]["p"] and s["dst"]["p"][0] == "deref":
            out.append(Site(fn, b, i))
    return out


def writer_entry_points(P):
    """pub methods of IndexWriter (by impl self type), plus `new` (crate-visible constructor)."""
    out = {}
    for p, f in P.fns.items():
        if f.kind == "assoc_fn" and f.impl_self == N.W and not f.impl_trait:
            out[p.rsplit("::", 1)[1]] = f
    return out


def callers_of(P, target):
    """Direct callers (fn paths) of a def path, closures mapped to themselves."""
    return sorted({p for (p, b, k) in P.callers().get(target, ()) if k in ("call", "fnref")})


def root_fn(P, path):
    """Outermost non-closure function a closure belongs to."""
    f = P.fn(path)
    while f is not None and f.parent and P.fn(f.parent) is not None:
        f = P.fn(f.parent)
    return f.path if f else path


def is_test_or_bench(f):
    return "/tests/" in f.file or "/benches/" in f.file or "/examples/" in f.file


def entry_ancestors(P, target, stop=None, skip=None):
    """Walk the call graph upwards from `target` through private helpers and closures; stop at functions for
    which stop(fn_path) holds (default: `pub` functions) or that have no callers.  Returns the set of paths
    at which the walk stopped: every call chain reaching `target` passes through one of them."""
    def default_stop(p):
        f = P.fn(p)
        return f is not None and f.vis == "Public" and f.kind != "closure"
    stop = stop or default_stop
    out = set()
    seen = set()
    work = [c for c in callers_of(P, target)]
    cl = P.callers()
    while work:
        p = work.pop()
        if p in seen:
            continue
        seen.add(p)
        f = P.fn(p)
        if f is not None and skip and skip(f):
            continue
        if f is not None and f.kind == "closure" and f.parent:
            work.append(f.parent)
            continue
        if stop(p):
            out.add(p)
            continue
        ups = [q for (q, b, k) in cl.get(p, ()) if k in ("call", "fnref", "dyn")]
        if not ups:
            out.add(p)
        else:
            work.extend(ups)
    return out


def direct_callers(P, pred, skip=None):
    """Functions (paths) containing a direct call whose callee (resolved or declared) satisfies pred."""
    out = {}
    for p, f in P.fns.items():
        if skip and skip(f):
            continue
        for b, t in f.calls():
            if pred(callee_of(t)) or pred(t["callee"]):
                out.setdefault(p, Site(f, b))
    return out


def tops_of(P, start_paths, stop):
    """Walk callers upwards from each start path until stop(path) or a function without callers."""
    out = set()
    seen = set()
    work = list(start_paths)
    cl = P.callers()
    while work:
        p = work.pop()
        if p in seen:
            continue
        seen.add(p)
        f = P.fn(p)
        if f is not None and f.kind == "closure" and f.parent:
            work.append(f.parent)
            continue
        if stop(p):
            out.add(p)
            continue
        ups = [q for (q, b, k) in cl.get(p, ()) if k in ("call", "fnref", "dyn")]
        if not ups:
            out.add(p)
        else:
            work.extend(ups)
    return out


def is_queue_receiver(f, sl, operand):
    """The operand is (a borrow of) the writer's pending-operations queue: the field `pending_ops`, or any Vec<PendingOp>
    (a helper taking the queue by reference)."""
    from sa.prog import op_local
    if "pending_ops" in sl.fields(operand):
        return True
    l = op_local(operand)
    # a queue handed in by reference (parameter), not a local vector being built (WAL replay in IndexWriter::new)
    return l is not None and "Vec<searchlite_core::api::writer::PendingOp>" in f.local_ty(l).replace("alloc::vec::", "") and \
        bool(sl.args(operand)) and "&mut" in f.local_ty(l)


def column_slots_rule(ctx, P, rid):
    """Shared by C08 / C12 / C10 (their per-document reads of fast-field columns are only right if slot i belongs to document i)."""
    import re
    from sa.prog import Site, callee_of, op_local
    ctx.rule(rid, "SLOT PRESERVATION (writer side of the fast-field columns): a column has one slot per document ordinal, and filters, "
                  "aggregations and sorts read slot i for document i. In the column-building code of index::fastfields (everything that "
                  "is not a FastFieldsReader method or a decode function) no iterator over per-document slots (items of type Option<T> "
                  "or Vec<T>) goes through an adapter that can drop or reorder items (filter, filter_map, flatten, flat_map, skip*, "
                  "take*, step_by, rev) and no slot vector is dedup'ed / retain'ed: converting a single-valued column to its list form "
                  "must map slot to slot")
    FORB = re.compile(r"Iterator::(filter|filter_map|flatten|flat_map|skip|skip_while|take|take_while|step_by|rev)$|::(dedup|dedup_by|dedup_by_key|retain|retain_mut|swap_remove)$")
    SLOT = re.compile(r"(IntoIter|Iter(Mut)?|Drain)<('[_a-z]+, )?(core::option::Option<|alloc::vec::Vec<)|Vec<(core::option::Option<|alloc::vec::Vec<)")
    n_fn, n_map = 0, 0
    for q, f in sorted(P.fns.items()):
        if f.crate != "searchlite_core" or "index::fastfields" not in q or is_test_or_bench(f):
            continue
        root = f
        while root.kind == "closure" and root.parent and P.fn(root.parent):
            root = P.fn(root.parent)
        rs = root.short
        if "FastFieldsReader" in rs or re.search(r"::(read_|decode|parse|doc_range|object_range|case_insensitive)", rs):
            continue
        n_fn += 1
        bad = []
        for b, t in f.calls():
            cal = callee_of(t)
            if not t["args"] or op_local(t["args"][0]) is None:
                continue
            ty = f.local_ty(op_local(t["args"][0]))
            if not SLOT.search(ty):
                continue
            if cal.endswith("Iterator::map"):
                n_map += 1
            if FORB.search(cal):
                bad.append((Site(f, b), cal.rsplit("::", 1)[1]))
        if bad:
            ctx.saw(f)
        ctx.ob(rid, "%s:%s" % (rid, re.sub(r"\{closure#\d+\}", "{closure}", f.short)), not bad,
               "per-document slots are only mapped one to one" if not bad else
               "%s applies `%s` to an iterator over per-document slots at %s: documents without a value lose their slot and every later "
               "document's value moves to an earlier document ordinal" % (f.short, bad[0][1], bad[0][0].loc()),
               bad[0][0].loc() if bad else "%s:%s" % (f.file, f.line)) if bad or f.kind != "closure" else None
    ctx.floor(rid, n_fn, 5, "column-building functions in index::fastfields")
    ctx.floor(rid + ".detector", n_map, 3, "slot-to-slot `map` conversions seen by the same detector (scalar -> list upgrades)")


IS_DELETED_FN = "searchlite_core::index::segment::SegmentReader::is_deleted"


def is_not_deleted_filter(P, h):
    """closure `|id| !seg.is_deleted(id)`: calls is_deleted, no other call of the workspace, and returns the negation of its result"""
    from sa.prog import callee_of, op_local
    calls = [callee_of(t) for b, t in h.calls()]
    if IS_DELETED_FN not in calls:
        return False
    if any(c in P.fns and c != IS_DELETED_FN for c in calls):
        return False
    res = [t["dst"]["l"] for b, t in h.calls() if callee_of(t) == IS_DELETED_FN]
    for d in h.defs().get(0, []):
        if d["k"] == "assign" and d["rv"]["k"] == "unop" and d["rv"].get("op") == "Not" and op_local(d["rv"]["a"]) in res:
            return True
    return False


def chain_filters(P, fn, operand):
    """Closures used by filter-like adapters in the iterator chain behind `operand` (in fn)."""
    from sa.prog import Slice, callee_of
    sl = Slice(fn, through_all_calls=True)
    out = []
    for x in sl.sources(operand):
        if x[0] == "call" and callee_of(x[2]).endswith(("Iterator::filter", "Iterator::filter_map", "Iterator::take_while", "Iterator::skip_while",
                                                          "Iterator::skip", "Iterator::take", "Iterator::step_by")):
            clos = []
            for a in x[2]["args"][1:]:
                for y in sl.sources(a):
                    if y[0] == "agg" and y[3].get("closure") and P.fn(y[3]["closure"]) is not None:
                        clos.append(P.fn(y[3]["closure"]))
            out.append((callee_of(x[2]).rsplit("::", 1)[1], x[1], clos))
    return out


def adapter_calls_with_closure(P, g):
    """[(parent fn, block, terminator)] where closure g is handed to an iterator adapter (map / for_each / ...)."""
    from sa.prog import Slice
    par = P.fn(g.parent) if g.parent else None
    out = []
    if par is None:
        return out
    sl = Slice(par, through_all_calls=True)
    for b, t in par.calls():
        for a in t["args"][1:]:
            if any(y[0] == "agg" and y[3].get("closure") == g.path for y in sl.sources(a)):
                out.append((par, b, t))
    return out


def filter_drops_deleted(P, h):
    """Weaker than is_not_deleted_filter: on every path of closure h on which is_deleted(..) returned true the closure returns
    false (it may drop more).  Decided by path enumeration over the closure (sa.boolpaths), nothing is executed."""
    from sa import boolpaths
    from sa.prog import callee_of
    if IS_DELETED_FN not in [callee_of(t) for b, t in h.calls()]:
        return False
    A = ("is_deleted",)

    def call_atom(t, val):
        return ("atom", A, False) if callee_of(t) == IS_DELETED_FN else None
    ps = boolpaths.paths(h, 0, lambda b: None, call_atom=call_atom, track_return=True)
    if not ps:
        return False
    for p_ in ps:
        if p_.end[0] != "return":
            continue
        r = p_.ret
        if p_.cons.get(A) is True:
            if r != ("const", 0):
                return False
        elif A not in p_.cons:
            if not (r == ("const", 0) or (r is not None and r[0] == "atom" and r[1] == A and r[2] is True)):
                return False
    return True


GET_DOC_FN = "searchlite_core::index::segment::SegmentReader::get_doc"


def compaction_chain(P, comp):
    """Bodies and call sites on the call paths from Index::compact down to SegmentReader::get_doc that stay inside private
    functions of compact's file (closures included): [(body, block, terminator, callee is get_doc itself)] and the helper fns."""
    helpers = []
    for q in sorted(P.reach(comp.path)):
        h = P.fns.get(q)
        if h is not None and h.kind != "closure" and h.file == comp.file and h.vis != "Public" and h.path != comp.path and \
                GET_DOC_FN in P.reach(h.path):
            helpers.append(h)
    hp = {h.path for h in helpers}
    sites = []
    for fn0 in [comp] + helpers:
        for g in [fn0] + P.closures_of(fn0):
            for b, t in g.calls():
                from sa.prog import callee_of
                cal = callee_of(t)
                if cal == GET_DOC_FN or cal in hp:
                    sites.append((g, b, t, cal == GET_DOC_FN))
    return sites, helpers
