"""C26 — the C search entry point stays within the caller's buffer (all clauses structural)."""
from sa import names as N
from sa.prog import Site, Slice, TERM, callee_of, op_local, op_place, op_const
from sa.rules.common import is_test_or_bench

EXPLANATION = ("Decides every clause of the statement from the MIR of the extern \"C\" functions: each use of a raw-pointer parameter "
               "(reborrow, CStr::from_ptr, slice::from_raw_parts, ptr::add / store, copy_nonoverlapping) is dominated by an is_null "
               "test on that parameter whose null arm cannot reach the use; every write through the output buffer is enumerated "
               "(stores through the pointer or its ptr::add results, copy/write_bytes counts, ptr::write, slices made by "
               "from_raw_parts_mut) and its extent is bounded against buf_cap by a three-point abstract interpretation "
               "(< cap, <= cap, unknown) over ALL definitions of the locals involved — min, saturating_sub, +1, -1 under a non-zero "
               "guard, copies; a local changed in a loop gets the join — under buf_cap >= 1, which the dominating buf_cap == 0 return "
               "establishes; any other hand-off of the output pointer is an unrecognised write; the NUL position, the copied count "
               "and the return value are the same value, not redefined after the first write; the copy's source is the encoded "
               "response without an offset; every early return yields a constant zero / negative status. "
               "Assumes the caller's pointers are valid for the lengths passed.")

FFI = "searchlite_ffi"
DEREF_CALLS = ("core::ffi::c_str::CStr::from_ptr", "core::slice::raw::from_raw_parts", "core::slice::raw::from_raw_parts_mut",
               "alloc::boxed::Box::<T>::from_raw", "core::ptr::copy_nonoverlapping", "core::ptr::copy", "core::ptr::write",
               "core::ptr::mut_ptr::<impl *mut T>::add", "core::ptr::const_ptr::<impl *const T>::add",
               "core::ptr::mut_ptr::<impl *mut T>::offset", "core::ptr::mut_ptr::<impl *mut T>::write")


def extern_fns(P):
    return [f for p, f in sorted(P.fns.items()) if f.crate == FFI and f.abi and '"C"' in f.abi.replace("C {", '"C" {') or
            (f.crate == FFI and f.abi and f.abi.startswith("C")) and f.kind == "fn" and not is_test_or_bench(f)]


def ptr_params(f):
    return [i for i in range(1, f.arg_count + 1) if f.arg_ty(i).startswith(("*const ", "*mut "))]


def param_of(f, operand, params, sl):
    """Which raw-pointer parameter does this operand derive from (by plain copies / casts / ptr::add)?"""
    srcs = sl.sources(operand)
    hit = {x[1] for x in srcs if x[0] == "arg" and x[1] in params}
    return hit


def null_guards(f, param):
    """[(switch block, non-null successor, null successor)] for is_null tests on the parameter."""
    out = []
    for b, t in f.calls():
        if not callee_of(t).endswith("::is_null"):
            continue
        a = t["args"][0]
        l = op_local(a)
        # the tested value is the parameter itself (possibly through a copy)
        seen = set()
        while l is not None and l not in seen and l != param:
            seen.add(l)
            dfs = f.defs().get(l, [])
            if len(dfs) == 1 and dfs[0]["k"] == "assign" and dfs[0]["rv"]["k"] in ("use", "cast"):
                l = op_local(dfs[0]["rv"]["a"])
            else:
                break
        if l != param:
            continue
        res = t["dst"]["l"]
        for b2 in f.reachable():
            t2 = f.blocks[b2]["term"]
            if t2["k"] == "switch" and op_local(t2["on"]) == res:
                vals = dict(zip(t2["values"], t2["targets"]))
                nonnull = vals.get(0)
                null = t2["otherwise"] if 0 in vals else vals.get(1)
                if nonnull is not None and null is not None:
                    out.append((b2, nonnull, null))
    return out


def uses_of_param(f, param, sl, params):
    """Sites that dereference the parameter: reborrows `&*p` / `&mut *p`, stores `*p = ..`, and the DEREF_CALLS."""
    out = []
    aliases = {param}
    changed = True
    while changed:
        changed = False
        for l, dfs in f.defs().items():
            if l in aliases:
                continue
            for d in dfs:
                if d["k"] == "assign" and not d["partial"] and d["rv"]["k"] in ("use", "cast") and op_local(d["rv"]["a"]) in aliases and \
                        f.local_ty(l).startswith(("*const ", "*mut ")):
                    aliases.add(l)
                    changed = True
                if d["k"] == "call" and callee_of(d["t"]).endswith(("::add", "::offset", "::cast")) and d["t"]["args"] and \
                        op_local(d["t"]["args"][0]) in aliases and f.local_ty(l).startswith(("*const ", "*mut ")):
                    aliases.add(l)
                    changed = True
    for b, i, s in f.stmts():
        if s["k"] != "assign":
            continue
        if any("debug_assert" in m or "ub_checks" in m for m in s.get("macros", [])):
            continue
        rv = s["rv"]
        pl = rv.get("place") if rv["k"] in ("ref", "rawptr") else None
        if pl and pl["l"] in aliases and pl["p"] and pl["p"][0] == "deref":
            out.append((Site(f, b, i), "reborrow"))
        if s["dst"]["l"] in aliases and s["dst"]["p"] and s["dst"]["p"][0] == "deref":
            out.append((Site(f, b, i), "store"))
    for b, t in f.calls():
        cal = callee_of(t)
        if cal in DEREF_CALLS or cal.startswith("alloc::boxed::Box::<T>::from_raw"):
            for a in t["args"]:
                if op_local(a) in aliases:
                    out.append((Site(f, b), cal.rsplit("::", 1)[1]))
    return out, aliases


def _null_checked_on_every_path(f, prm, site, sl):
    """The null test may be folded into a boolean (`let has = !p.is_null() && len > 0; if has { .. *p .. }`): enumerate the paths
    from the entry to the use with `p.is_null()` as an atom; on every one of them the atom must be false."""
    from sa import boolpaths
    A = ("call", "null")

    def call_atom(t, val):
        if callee_of(t).endswith("::is_null") and t["args"] and prm in (sl.args(t["args"][0]) | {op_local(t["args"][0])}):
            return ("atom", A, False)
        return None
    ps = boolpaths.paths(f, 0, lambda bb: "use" if bb == site.b else None, lambda pl: None, call_atom=call_atom, max_paths=20000)
    if len(ps) >= 20000:
        return False
    mine = [p_ for p_ in ps if p_.end == ("use", site.b)]
    return bool(mine) and all(p_.cons.get(A) is False for p_ in mine)


def r26a(ctx, P):
    rid = "R26.a"
    ctx.rule(rid, "GUARD: in every extern \"C\" function each dereferencing use of a raw-pointer parameter is dominated by the non-null "
                  "arm of an is_null test on that parameter, and the null arm cannot reach the use")
    fs = [f for p, f in sorted(P.fns.items()) if f.crate == FFI and f.kind == "fn" and f.abi and f.abi.startswith("C") and not is_test_or_bench(f)]
    ctx.floor(rid + ".fns", len(fs), 5, "extern \"C\" functions")
    n = 0
    for f in fs:
        ctx.saw(f)
        sl = Slice(f)
        params = ptr_params(f)
        for prm in params:
            n += 1
            uses, _al = uses_of_param(f, prm, sl, params)
            guards = null_guards(f, prm)
            bad = []
            for (site, how) in uses:
                ok = any(f.dominates_block(nn, site.b) and site.b not in f.reachable_from(nl, stop=[nn]) for (_b, nn, nl) in guards)
                if not ok:
                    ok = _null_checked_on_every_path(f, prm, site, sl)
                if not ok:
                    bad.append((site, how))
            name = f.locals[prm].get("name") or ("arg%d" % prm)
            ctx.ob(rid, "%s:%s:%s" % (rid, f.short, name), not bad,
                   "%d dereferencing use(s) of `%s` are all behind a null check" % (len(uses), name) if not bad else
                   "`%s` is dereferenced (%s) at %s without a dominating null check" % (name, bad[0][1], bad[0][0].loc()),
                   bad[0][0].loc() if bad else "%s:%s" % (f.file, f.line), {"uses": [(s.loc(), h) for s, h in uses]})
    ctx.floor(rid, n, 10, "raw-pointer parameters of the extern \"C\" functions")


LT, LE, TOP = 0, 1, 2      # value < buf_cap | value <= buf_cap | unknown   (all under buf_cap >= 1, which R26.c establishes)
CLS_NAME = {LT: "< buf_cap", LE: "<= buf_cap", TOP: "unbounded"}
WRITE_COUNT_CALLS = {"core::ptr::copy_nonoverlapping": (1, 2), "core::ptr::copy": (1, 2),
                     "core::ptr::mut_ptr::<impl *mut T>::write_bytes": (0, 2), "core::ptr::write_bytes": (0, 2),
                     "core::ptr::mut_ptr::<impl *mut T>::copy_from_nonoverlapping": (0, 2),
                     "core::ptr::mut_ptr::<impl *mut T>::copy_from": (0, 2)}
WRITE_ONE_CALLS = ("core::ptr::write", "core::ptr::mut_ptr::<impl *mut T>::write", "core::ptr::write_volatile",
                   "core::ptr::write_unaligned", "core::ptr::mut_ptr::<impl *mut T>::write_volatile",
                   "core::ptr::mut_ptr::<impl *mut T>::write_unaligned", "core::ptr::replace", "core::ptr::swap")
PTR_NEUTRAL = ("::is_null", "::cast", "::cast_mut", "::cast_const", "::addr")


class Bounds:
    """Tiny abstract interpretation of usize locals of one body against the capacity parameter: each local is classified
    `< cap`, `<= cap` or unknown from ALL of its definitions (fixpoint from the optimistic end), under the fact cap >= 1."""

    def __init__(self, f, cap):
        self.f, self.cap = f, cap
        self.cls = {}
        defs = f.defs()
        self.locals = [l for l in defs if "usize" in f.local_ty(l) or "(usize, bool)" in f.local_ty(l)]
        for l in self.locals:
            self.cls[l] = LT
        self.cls[cap] = LE
        for _ in range(4 * len(self.locals) + 8):
            changed = False
            for l in self.locals:
                if l == cap:
                    continue
                v = LT
                for d in defs.get(l, []):
                    v = max(v, self.of_def(d))
                if 1 <= l <= f.arg_count:
                    v = TOP
                if v != self.cls[l]:
                    self.cls[l] = v
                    changed = True
            if not changed:
                break

    def of_operand(self, o):
        c = op_const(o) if isinstance(o, dict) else None
        if c is not None:
            return LT if c.get("int") == 0 else TOP
        pl = op_place(o)
        if pl is None:
            return TOP
        if not pl["p"]:
            return self.cls.get(pl["l"], TOP)
        # `.0` of a checked-arithmetic pair
        if len(pl["p"]) == 1 and isinstance(pl["p"][0], dict) and pl["p"][0].get("i") == 0:
            return self.cls.get(pl["l"], TOP)
        return TOP

    def nonzero_guarded(self, operand, block):
        """`operand` (a local) is known to be >= 1 in `block`: a dominating test `x > 0`, `x != 0`, `0 < x`, or the false arm of `x == 0`."""
        f = self.f
        l = op_local(operand)
        if l is None:
            return False
        names = {l}
        for d in f.defs().get(l, []):
            if d["k"] == "assign" and d["rv"]["k"] == "use" and op_local(d["rv"]["a"]) is not None:
                names.add(op_local(d["rv"]["a"]))
        for b in f.reachable():
            t = f.blocks[b]["term"]
            if t["k"] != "switch":
                continue
            for d in f.defs().get(op_local(t["on"]), []):
                if d["k"] != "assign" or d["rv"]["k"] != "binop":
                    continue
                op, x, y = d["rv"]["op"], d["rv"]["a"], d["rv"]["b"]

                def is_x(o):
                    ol = op_local(o)
                    if ol in names:
                        return True
                    return any(dd["k"] == "assign" and dd["rv"]["k"] == "use" and op_local(dd["rv"]["a"]) in names for dd in f.defs().get(ol, [])) if ol is not None else False

                def is_zero(o):
                    c = op_const(o)
                    return c is not None and c.get("int") == 0
                vals = dict(zip(t["values"], t["targets"]))
                true_succ = t["otherwise"] if 0 in vals else vals.get(1)
                false_succ = vals.get(0)
                good = None
                if (op == "Gt" and is_x(x) and is_zero(y)) or (op == "Lt" and is_zero(x) and is_x(y)) or (op == "Ne" and ((is_x(x) and is_zero(y)) or (is_zero(x) and is_x(y)))):
                    good = true_succ
                elif op == "Eq" and ((is_x(x) and is_zero(y)) or (is_zero(x) and is_x(y))):
                    good = false_succ
                if good is not None and f.dominates_block(good, block) and block not in (f.reachable_from(true_succ if good == false_succ else false_succ, stop=[good]) if (true_succ is not None and false_succ is not None) else ()):
                    return True
        return False

    def of_def(self, d):
        f = self.f
        if d.get("partial"):
            return TOP
        if d["k"] == "call":
            t = d["t"]
            cal = callee_of(t)
            a = t["args"]
            if cal.endswith(("Ord::min", "::min")) and len(a) == 2:
                return min(self.of_operand(a[0]), self.of_operand(a[1]))
            if cal.endswith("::saturating_sub") and len(a) == 2:
                c = op_const(a[1])
                base = self.of_operand(a[0])
                if c is not None and (c.get("int") or 0) >= 1 and base == LE:
                    return LT
                return base
            if cal.endswith(("::clamp",)) and len(a) == 3:
                return self.of_operand(a[2])
            return TOP
        rv = d["rv"]
        k = rv["k"]
        if k in ("use", "cast"):
            if k == "cast" and "usize" not in f.local_ty(d["dst"]["l"]):
                return TOP
            return self.of_operand(rv["a"])
        if k == "binop":
            op = rv["op"]
            ca, cb = op_const(rv["a"]), op_const(rv["b"])
            if op in ("Add", "AddWithOverflow", "AddUnchecked"):
                for x, c in ((rv["a"], cb), (rv["b"], ca)):
                    if c is not None:
                        base = self.of_operand(x)
                        if c.get("int") == 0:
                            return base
                        if c.get("int") == 1 and base == LT:
                            return LE
                return TOP
            if op in ("Sub", "SubWithOverflow", "SubUnchecked"):
                base = self.of_operand(rv["a"])
                if cb is not None and cb.get("int") == 0:
                    return base
                # wraps in release when the minuend is 0: needs a dominating non-zero test
                if cb is not None and cb.get("int") == 1 and self.nonzero_guarded(rv["a"], d["b"]):
                    return LT if base in (LT, LE) else TOP
                return TOP
            if op in ("BitAnd",):
                return min(self.of_operand(rv["a"]), self.of_operand(rv["b"]))
            if op in ("Shr", "Div") :
                return self.of_operand(rv["a"])
            return TOP
        return TOP


def _root(f, o):
    defs = f.defs()
    l = op_local(o)
    seen = set()
    while l is not None and l not in seen:
        seen.add(l)
        dfs = [d for d in defs.get(l, []) if not d["partial"]]
        if f.locals[l].get("name") or len(dfs) != 1 or dfs[0]["k"] != "assign":
            return l
        rv = dfs[0]["rv"]
        if rv["k"] in ("use", "cast"):
            nl = op_local(rv["a"])
            if nl is None:
                return l
            l = nl
        elif rv["k"] == "ref" and rv["place"]["p"] in ([], ["deref"]):
            l = rv["place"]["l"]
        else:
            return l
    return l


def _scan_writer(P, f, outp, cap, depth=0):
    """Enumerate and classify the writes through pointer parameter `outp` of f against capacity parameter `cap`.
    Returns a dict: events [(Site, kind, needed, found, text)], unknown [(Site, text)], counts / nuls (root locals), write_blocks,
    sources [(Site, operand)] of copies, delegations [(Site, callee Fn, result)], ret_roots, ret_bad, stable."""
    defs = f.defs()
    B = Bounds(f, cap)
    sl = Slice(f)
    sla = Slice(f, through_all_calls=True)
    base = {outp}
    offs = {}
    changed = True
    while changed:
        changed = False
        for l, dfs in defs.items():
            if l in base or l in offs or not f.local_ty(l).startswith(("*mut ", "*const ")):
                continue
            for d in dfs:
                if d["k"] == "assign" and not d["partial"] and d["rv"]["k"] in ("use", "cast") and op_local(d["rv"]["a"]) in base:
                    base.add(l); changed = True
                elif d["k"] == "assign" and not d["partial"] and d["rv"]["k"] in ("use", "cast") and op_local(d["rv"]["a"]) in offs:
                    offs[l] = offs[op_local(d["rv"]["a"])]; changed = True
                elif d["k"] == "call" and d["t"]["args"] and op_local(d["t"]["args"][0]) in base:
                    cal = callee_of(d["t"])
                    if cal.endswith(PTR_NEUTRAL[1:]):
                        base.add(l); changed = True
                    elif cal.endswith(("::add", "::wrapping_add")) and len(d["t"]["args"]) == 2:
                        offs[l] = d["t"]["args"][1]; changed = True
    R = {"events": [], "unknown": [], "counts": set(), "nuls": set(), "write_blocks": [], "sources": [], "delegations": [],
         "ret_roots": set(), "ret_bad": [], "bounds": B}
    out_slices = set()
    for b, i, st in f.stmts():
        if st["k"] != "assign" or any("ub_checks" in m or "debug_assert" in m for m in st.get("macros", [])):
            continue
        dst = st["dst"]
        if dst["p"] and dst["p"][0] == "deref":
            if dst["l"] in base:
                R["events"].append((Site(f, b, i), "store at offset 0", LT, LT, "*out = .."))
                R["write_blocks"].append(b)
            elif dst["l"] in offs:
                c = B.of_operand(offs[dst["l"]])
                R["events"].append((Site(f, b, i), "store at out.add(k)", LT, c, "k is %s" % CLS_NAME[c]))
                R["write_blocks"].append(b)
                cz = op_const(st["rv"].get("a")) if st["rv"]["k"] == "use" else None
                if cz is not None and cz.get("int") == 0:
                    R["nuls"].add(_root(f, offs[dst["l"]]))
    for b, t in f.calls():
        cal = callee_of(t)
        if any("ub_checks" in m or "debug_assert" in m for m in t.get("macros", [])):
            continue
        args = t["args"]
        ptr_args = [k for k, a in enumerate(args) if op_local(a) in base or op_local(a) in offs]
        if not ptr_args:
            continue
        if cal.endswith(PTR_NEUTRAL) or cal.endswith(("::add", "::wrapping_add")):
            continue
        if cal in WRITE_COUNT_CALLS:
            di, ci = WRITE_COUNT_CALLS[cal]
            if op_local(args[di]) in base:
                c = B.of_operand(args[ci])
                R["events"].append((Site(f, b), cal.rsplit("::", 1)[1], LE, c, "count is %s" % CLS_NAME[c]))
                R["write_blocks"].append(b)
                R["counts"].add(_root(f, args[ci]))
                if not cal.endswith("write_bytes"):
                    R["sources"].append((Site(f, b), args[0] if di == 1 else args[1]))
                continue
            if op_local(args[di]) in offs:
                R["unknown"].append((Site(f, b), "%s into an offset of the output pointer" % cal.rsplit("::", 1)[1]))
                continue
            continue
        if cal in WRITE_ONE_CALLS:
            a0 = op_local(args[0])
            c = LT if a0 in base else B.of_operand(offs[a0])
            R["events"].append((Site(f, b), cal.rsplit("::", 1)[1], LT, c, "offset is %s" % CLS_NAME[c]))
            R["write_blocks"].append(b)
            continue
        if cal.endswith("slice::raw::from_raw_parts_mut") and op_local(args[0]) in base:
            c = B.of_operand(args[1])
            R["events"].append((Site(f, b), "from_raw_parts_mut", LE, c, "slice length is %s" % CLS_NAME[c]))
            R["write_blocks"].append(b)
            out_slices.add(t["dst"]["l"])
            continue
        # delegation to a workspace helper that receives the pointer and a capacity
        g = P.fns.get(cal)
        if g is not None and g.crate == FFI and depth < 2 and len(ptr_args) == 1 and op_local(args[ptr_args[0]]) in base:
            cap_idx = [k for k, a in enumerate(args) if k != ptr_args[0] and "usize" in f.local_ty(op_local(a) or 0) and B.of_operand(a) == LE]
            if len(cap_idx) == 1:
                sub = _scan_writer(P, g, ptr_args[0] + 1, cap_idx[0] + 1, depth + 1)
                R["delegations"].append((Site(f, b), g, t, sub))
                R["write_blocks"].append(b)
                continue
        R["unknown"].append((Site(f, b), "the output pointer is passed to %s" % cal))
    changed = True
    while changed:
        changed = False
        for l, dfs in defs.items():
            if l in out_slices:
                continue
            for d in dfs:
                if d["k"] == "assign" and d["rv"]["k"] in ("use", "cast") and op_local(d["rv"]["a"]) in out_slices or \
                        d["k"] == "assign" and d["rv"]["k"] == "ref" and d["rv"]["place"]["l"] in out_slices and \
                        all(e == "deref" for e in d["rv"]["place"]["p"]):
                    out_slices.add(l); changed = True
    for b, t in f.calls():
        cal = callee_of(t)
        if t["args"] and op_local(t["args"][0]) in out_slices:
            if "unchecked" in cal or cal.endswith(("::as_mut_ptr", "::as_mut_ptr_range")):
                R["unknown"].append((Site(f, b), "unchecked access %s on the slice over the output buffer" % cal))
            if cal.endswith("IndexMut<I>>::index_mut") or cal.endswith("::index_mut"):
                for x in sl.sources(t["args"][1]):
                    if x[0] == "agg" and "RangeTo" in (x[3].get("adt") or "") and "Inclusive" not in (x[3].get("adt") or ""):
                        R["counts"].add(_root(f, x[3]["ops"][0]))
            if cal.endswith("::copy_from_slice") and len(t["args"]) > 1:
                R["sources"].append((Site(f, b), t["args"][1]))
    for b, t in f.calls():
        cal = callee_of(t)
        if cal.endswith("::copy_from_slice") and len(t["args"]) > 1 and op_local(t["args"][0]) is not None and \
                any(x[0] == "call" and callee_of(x[2]).endswith("from_raw_parts_mut") for x in sla.sources(t["args"][0])) and \
                not any(s_.b == b for s_, _ in R["sources"]):
            R["sources"].append((Site(f, b), t["args"][1]))
    for b, i, st in f.stmts():
        if st["k"] == "assign" and st["dst"]["l"] in out_slices:
            idx = [e["index"] for e in st["dst"]["p"] if isinstance(e, dict) and "index" in e]
            cz = op_const(st["rv"].get("a")) if st["rv"]["k"] == "use" else None
            if idx and cz is not None and cz.get("int") == 0:
                R["nuls"].add(_root(f, {"mv": {"l": idx[0], "p": []}}))
    for d0 in defs.get(0, []):
        if d0["k"] == "assign" and d0["rv"]["k"] == "use":
            c = op_const(d0["rv"]["a"])
            if c is not None:
                if (c.get("int") or 0) > 0:
                    R["ret_bad"].append(Site(f, d0["b"], d0["i"]))
            else:
                R["ret_roots"].add(_root(f, d0["rv"]["a"]))
        elif d0["k"] == "call":
            R["ret_roots"].add(("call", d0["b"]))
        else:
            R["ret_bad"].append(Site(f, d0["b"], d0.get("i", TERM)))
    # the shared count is not redefined after the first write
    R["stable"] = True
    for r in R["counts"] & R["nuls"]:
        for d in defs.get(r, []):
            if any(d["b"] in f.reachable_from(wb) and d["b"] != wb for wb in R["write_blocks"]):
                R["stable"] = False
    return R


def _source_param_or_response(P, f, operand):
    """('param', i) if the copy source is (derived without an offset from) parameter i; ('response',) if it derives from the encoded
    response; ('shifted', what) / ('other',)."""
    sla = Slice(f, through_all_calls=True)
    srcs = sla.sources(operand)
    shifted = [callee_of(x[2]) for x in srcs if x[0] == "call" and callee_of(x[2]).endswith(("::add", "::offset", "::sub", "::split_at", "::skip"))] + \
              [x[3].get("adt") for x in srcs if x[0] == "agg" and (x[3].get("adt") or "").endswith(("ops::range::Range", "ops::range::RangeFrom", "ops::range::RangeInclusive"))]
    if shifted:
        return ("shifted", shifted[0])
    if any(x[0] == "call" and "serde_json" in callee_of(x[2]) for x in srcs):
        return ("response",)
    args = sorted({x[1] for x in srcs if x[0] == "arg"})
    if len(args) == 1:
        return ("param", args[0])
    return ("other",)


def r26bcd(ctx, P):
    f = P.fn(FFI + "::searchlite_search")
    if not ctx.anchor("R26.b", f, "searchlite_search"):
        return
    ctx.saw(f)
    ctx.rule("R26.b", "BOUND (abstract interpretation against buf_cap, not a source shape): every write through the output-buffer parameter "
                      "is enumerated — stores through the pointer or through ptr::add/offset results, copy_nonoverlapping / copy / "
                      "write_bytes counts, ptr::write, slices made by from_raw_parts_mut (whose own accesses Rust bounds-checks), and "
                      "hand-offs to a helper of the crate together with a capacity (the helper is analysed the same way against its own "
                      "capacity parameter) — and each extent is classified from ALL definitions of the locals involved (min, "
                      "saturating_sub, +1, guarded -1, copies; a local redefined in a loop gets the join): offsets must be `< cap`, counts "
                      "and slice lengths `<= cap`. Any other call that receives the output pointer is an unrecognised write. The copied "
                      "bytes come from the encoded response without an offset, a zero byte is stored at the position equal to the copied "
                      "count, and that count is what the function returns")
    ctx.rule("R26.c", "GUARD: every write through the output-buffer parameter (or hand-off to a writing helper) is dominated by the false "
                      "arm of a `buf_cap == 0` test (the bound classes of R26.b assume a capacity >= 1)")
    ctx.rule("R26.d", "every other definition of the return value is a constant that is zero or negative")
    sl = Slice(f)
    params = ptr_params(f)
    out_params = [i for i in params if f.arg_ty(i).startswith("*mut ") and "c_char" in f.arg_ty(i) or f.arg_ty(i) == "*mut i8"]
    cap_params = [i for i in range(1, f.arg_count + 1) if (f.locals[i].get("name") or "") == "buf_cap"]
    if not (ctx.anchor("R26.b", out_params, "output buffer parameter (*mut c_char)") and ctx.anchor("R26.b", cap_params, "buf_cap parameter")):
        return
    outp, cap = out_params[-1], cap_params[0]
    defs = f.defs()
    R = _scan_writer(P, f, outp, cap)
    events = list(R["events"])
    unknown = list(R["unknown"])
    why = []
    agree = stable = prefix = True
    ret_bad = list(R["ret_bad"])
    # --- delegations: the helper must satisfy the same obligations against its own capacity parameter
    deleg_counts = set()
    for site, g, t, sub in R["delegations"]:
        ctx.saw(g)
        for e in sub["events"]:
            events.append((e[0], "%s in %s" % (e[1], g.short), e[2], e[3], e[4]))
        unknown += sub["unknown"]
        sh = sub["counts"] & sub["nuls"]
        g_ret_ok = bool(sh) and sub["ret_roots"] and sub["ret_roots"] <= sh and not sub["ret_bad"]
        if not g_ret_ok:
            agree = False
            why.append("in %s the copied count, the NUL position and the returned value are not the same value" % g.short)
        if not sub["stable"]:
            stable = False
        for ssite, sop in sub["sources"]:
            k = _source_param_or_response(P, g, sop)
            if k[0] == "param":
                kk = _source_param_or_response(P, f, t["args"][k[1] - 1])
                if kk[0] != "response":
                    prefix = False
                    why.append("the bytes handed to %s at %s %s" % (g.short, site.loc(), "are shifted by %s" % kk[1] if kk[0] == "shifted" else "do not derive from the encoded response"))
            elif k[0] != "response":
                prefix = False
                why.append("source of the copy at %s %s" % (ssite.loc(), "is shifted by %s" % k[1] if k[0] == "shifted" else "is not a plain parameter / the encoded response"))
        deleg_counts.add(("call", site.b))
    for ssite, sop in R["sources"]:
        k = _source_param_or_response(P, f, sop)
        if k[0] != "response":
            prefix = False
            why.append("source of the copy at %s %s" % (ssite.loc(), "is shifted by %s" % k[1] if k[0] == "shifted" else "does not derive from the encoded response"))
    ctx.floor("R26.b", len(events), 1, "writes through the output buffer")
    bad = [e for e in events if e[3] > e[2]]
    shared = (R["counts"] & R["nuls"])
    # the value returned: the shared count, or the result of a delegation (through copies)
    ret_roots = set()
    for r in R["ret_roots"]:
        ret_roots.add(r)
    for d0 in defs.get(0, []):
        if d0["k"] == "assign" and d0["rv"]["k"] == "use" and op_const(d0["rv"]["a"]) is None:
            r = _root(f, d0["rv"]["a"])
            for dd in defs.get(r, []):
                if dd["k"] == "call" and ("call", dd["b"]) in deleg_counts:
                    ret_roots.discard(r)
                    ret_roots.add(("call", dd["b"]))
    allowed = shared | deleg_counts
    if not (bool(allowed) and bool(ret_roots) and ret_roots <= allowed):
        agree = False
        why.append("copied count, NUL position and return value are not the same value (count roots %s, NUL roots %s, returned %s)" % (
            sorted(map(str, R["counts"])), sorted(map(str, R["nuls"])), sorted(map(str, ret_roots))))
    if not R["stable"]:
        stable = False
    if not stable:
        why.append("the byte count is redefined after the first write")
    for e in bad:
        why.insert(0, "%s at %s: %s, needs %s" % (e[1], e[0].loc(), e[4], CLS_NAME[e[2]]))
    for s_, h in unknown:
        why.insert(0, "%s at %s" % (h, s_.loc()))
    ok_b = not bad and not unknown and agree and stable and prefix
    ctx.ob("R26.b", "R26.b:searchlite_search:bounded-write", ok_b,
           "%d write(s) through the output buffer, all within the capacity: %s; the NUL sits at the copied count, which is returned" % (
               len(events), "; ".join("%s (%s)" % (e[1], e[4]) for e in events)) if ok_b else
           "write through the output buffer not proven within buf_cap: %s" % "; ".join(why),
           (bad[0][0].loc() if bad else unknown[0][0].loc() if unknown else events[0][0].loc() if events else "%s:%s" % (f.file, f.line)),
           {"events": [(e[0].loc(), e[1], e[4]) for e in events]})
    # R26.c: guard at the write sites of this function (including hand-offs)
    cap_tests = []
    for b in sorted(f.reachable()):
        t = f.blocks[b]["term"]
        if t["k"] != "switch":
            continue
        l = op_local(t["on"])
        for d in defs.get(l, []):
            if d["k"] == "assign" and d["rv"]["k"] == "binop" and d["rv"]["op"] == "Eq" and cap in sl.args(d["rv"]["a"]) and \
                    (op_const(d["rv"]["b"]) or {}).get("int") == 0:
                vals = dict(zip(t["values"], t["targets"]))
                if vals.get(0) is not None:
                    cap_tests.append(vals[0])
    wb = R["write_blocks"]
    okc = bool(wb) and all(any(f.dominates_block(ct_, b_) for ct_ in cap_tests) for b_ in wb)
    ctx.ob("R26.c", "R26.c:searchlite_search:writes-guarded-by-capacity", okc,
           "every write through the output buffer happens only when buf_cap != 0" if okc else
           "a write through the output buffer is not dominated by the `buf_cap == 0` early return",
           Site(f, wb[0]).loc() if wb else "%s:%s" % (f.file, f.line))
    # R26.d
    ctx.ob("R26.d", "R26.d:searchlite_search:early-returns", not ret_bad,
           "every early return yields the constant 0" if not ret_bad else "return value defined at %s is neither the byte count nor a zero/negative constant" % ret_bad[0].loc(),
           ret_bad[0].loc() if ret_bad else "%s:%s" % (f.file, f.line))
    # other extern fns: constants only
    for p, g in sorted(P.fns.items()):
        if g.crate == FFI and g.kind == "fn" and g.abi and g.abi.startswith("C") and g is not f and g.ret_ty in ("i32", "usize", "isize"):
            vals = []
            odd = []
            for d0 in g.defs().get(0, []):
                if d0["k"] == "assign" and d0["rv"]["k"] == "use" and op_const(d0["rv"]["a"]) is not None:
                    vals.append(op_const(d0["rv"]["a"]).get("int"))
                else:
                    odd.append(Site(g, d0["b"], d0["i"]))
            ctx.ob("R26.d", "R26.d:%s:status-constants" % g.short, True,
                   "%s returns constants %s%s" % (g.short, sorted(set(vals)), " and %d computed value(s)" % len(odd) if odd else ""), "%s:%s" % (g.file, g.line))


def run(ctx, progs):
    P = progs.get("default")
    r26a(ctx, P)
    r26bcd(ctx, P)
    if ctx.tier == "thorough":
        ctx.config = "features"
        Pf = progs.get("features")
        r26a(ctx, Pf)
        r26bcd(ctx, Pf)
        ctx.config = "default"
    ctx.assumptions += ["the caller's pointers are valid for the lengths it passes (the C contract): `handle` from searchlite_index_open, NUL-terminated strings, aggs_len bytes, buf_cap bytes",
                        "a panic inside search aborts at the extern \"C\" boundary (subject of C16)",
                        "compiler-inserted debug pointer checks are not counted as uses"]
