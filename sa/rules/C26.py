"""C26 — the C search entry point stays within the caller's buffer (all clauses structural)."""
from sa import names as N
from sa.prog import Site, Slice, TERM, callee_of, op_local, op_place, op_const
from sa.rules.common import is_test_or_bench

EXPLANATION = ("Decides every clause of the statement from the MIR of the extern \"C\" functions: each use of a raw-pointer parameter "
               "(reborrow, CStr::from_ptr, slice::from_raw_parts, ptr::add / store, copy_nonoverlapping) is dominated by an is_null "
               "test on that parameter whose null arm cannot reach the use; every write through the output buffer is enumerated "
               "(stores through the pointer or its ptr::add results, copy/write_bytes counts, ptr::write, slices made by "
               "from_raw_parts_mut) and its extent is bounded against buf_cap by a three-point abstract interpretation "
               "(< cap, <= cap, unknown) over ALL definitions of the locals involved — min, saturating_sub, +1, -1 under a non-zero "
               "guard, copies; a local changed in a loop gets the join — under buf_cap >= 1, which the dominating buf_cap == 0 return "
               "establishes; any other hand-off of the output pointer is an unrecognised write; the NUL position, the copied count "
               "and the return value are the same value, not redefined after the first write; the copy's source is the encoded "
               "response without an offset; every early return yields a constant zero / negative status. "
               "Assumes the caller's pointers are valid for the lengths passed.")

FFI = "searchlite_ffi"
DEREF_CALLS = ("core::ffi::c_str::CStr::from_ptr", "core::slice::raw::from_raw_parts", "core::slice::raw::from_raw_parts_mut",
               "alloc::boxed::Box::<T>::from_raw", "core::ptr::copy_nonoverlapping", "core::ptr::copy", "core::ptr::write",
               "core::ptr::mut_ptr::<impl *mut T>::add", "core::ptr::const_ptr::<impl *const T>::add",
               "core::ptr::mut_ptr::<impl *mut T>::offset", "core::ptr::mut_ptr::<impl *mut T>::write")


def extern_fns(P):
    return [f for p, f in sorted(P.fns.items()) if f.crate == FFI and f.abi and '"C"' in f.abi.replace("C {", '"C" {') or
            (f.crate == FFI and f.abi and f.abi.startswith("C")) and f.kind == "fn" and not is_test_or_bench(f)]


def ptr_params(f):
    return [i for i in range(1, f.arg_count + 1) if f.arg_ty(i).startswith(("*const ", "*mut "))]


def param_of(f, operand, params, sl):
    """Which raw-pointer parameter does this operand derive from (by plain copies / casts / ptr::add)?"""
    srcs = sl.sources(operand)
    hit = {x[1] for x in srcs if x[0] == "arg" and x[1] in params}
    return hit


def null_guards(f, param):
    """[(switch block, non-null successor, null successor)] for is_null tests on the parameter."""
    out = []
    for b, t in f.calls():
        if not callee_of(t).endswith("::is_null"):
            continue
        a = t["args"][0]
        l = op_local(a)
        # the tested value is the parameter itself (possibly through a copy)
        seen = set()
        while l is not None and l not in seen and l != param:
            seen.add(l)
            dfs = f.defs().get(l, [])
            if len(dfs) == 1 and dfs[0]["k"] == "assign" and dfs[0]["rv"]["k"] in ("use", "cast"):
                l = op_local(dfs[0]["rv"]["a"])
            else:
                break
        if l != param:
            continue
        res = t["dst"]["l"]
        for b2 in f.reachable():
            t2 = f.blocks[b2]["term"]
            if t2["k"] == "switch" and op_local(t2["on"]) == res:
                vals = dict(zip(t2["values"], t2["targets"]))
                nonnull = vals.get(0)
                null = t2["otherwise"] if 0 in vals else vals.get(1)
                if nonnull is not None and null is not None:
                    out.append((b2, nonnull, null))
    return out


def uses_of_param(f, param, sl, params):
    """Sites that dereference the parameter: reborrows `&*p` / `&mut *p`, stores `*p = ..`, and the DEREF_CALLS."""
    out = []
    aliases = {param}
    changed = True
    while changed:
        changed = False
        for l, dfs in f.defs().items():
            if l in aliases:
                continue
            for d in dfs:
                if d["k"] == "assign" and not d["partial"] and d["rv"]["k"] in ("use", "cast") and op_local(d["rv"]["a"]) in aliases and \
                        f.local_ty(l).startswith(("*const ", "*mut ")):
                    aliases.add(l)
                    changed = True
                if d["k"] == "call" and callee_of(d["t"]).endswith(("::add", "::offset", "::cast")) and d["t"]["args"] and \
                        op_local(d["t"]["args"][0]) in aliases and f.local_ty(l).startswith(("*const ", "*mut ")):
                    aliases.add(l)
                    changed = True
    for b, i, s in f.stmts():
        if s["k"] != "assign":
            continue
        if any("debug_assert" in m or "ub_checks" in m for m in s.get("macros", [])):
            continue
        rv = s["rv"]
        pl = rv.get("place") if rv["k"] in ("ref", "rawptr") else None
        if pl and pl["l"] in aliases and pl["p"] and pl["p"][0] == "deref":
            out.append((Site(f, b, i), "reborrow"))
        if s["dst"]["l"] in aliases and s["dst"]["p"] and s["dst"]["p"][0] == "deref":
            out.append((Site(f, b, i), "store"))
    for b, t in f.calls():
        cal = callee_of(t)
        if cal in DEREF_CALLS or cal.startswith("alloc::boxed::Box::<T>::from_raw"):
            for a in t["args"]:
                if op_local(a) in aliases:
                    out.append((Site(f, b), cal.rsplit("::", 1)[1]))
    return out, aliases


def r26a(ctx, P):
    rid = "R26.a"
    ctx.rule(rid, "GUARD: in every extern \"C\" function each dereferencing use of a raw-pointer parameter is dominated by the non-null "
                  "arm of an is_null test on that parameter, and the null arm cannot reach the use")
    fs = [f for p, f in sorted(P.fns.items()) if f.crate == FFI and f.kind == "fn" and f.abi and f.abi.startswith("C") and not is_test_or_bench(f)]
    ctx.floor(rid + ".fns", len(fs), 5, "extern \"C\" functions")
    n = 0
    for f in fs:
        ctx.saw(f)
        sl = Slice(f)
        params = ptr_params(f)
        for prm in params:
            n += 1
            uses, _al = uses_of_param(f, prm, sl, params)
            guards = null_guards(f, prm)
            bad = []
            for (site, how) in uses:
                ok = any(f.dominates_block(nn, site.b) and site.b not in f.reachable_from(nl, stop=[nn]) for (_b, nn, nl) in guards)
                if not ok:
                    bad.append((site, how))
            name = f.locals[prm].get("name") or ("arg%d" % prm)
            ctx.ob(rid, "%s:%s:%s" % (rid, f.short, name), not bad,
                   "%d dereferencing use(s) of `%s` are all behind a null check" % (len(uses), name) if not bad else
                   "`%s` is dereferenced (%s) at %s without a dominating null check" % (name, bad[0][1], bad[0][0].loc()),
                   bad[0][0].loc() if bad else "%s:%s" % (f.file, f.line), {"uses": [(s.loc(), h) for s, h in uses]})
    ctx.floor(rid, n, 10, "raw-pointer parameters of the extern \"C\" functions")


LT, LE, TOP = 0, 1, 2      # value < buf_cap | value <= buf_cap | unknown   (all under buf_cap >= 1, which R26.c establishes)
CLS_NAME = {LT: "< buf_cap", LE: "<= buf_cap", TOP: "unbounded"}
WRITE_COUNT_CALLS = {"core::ptr::copy_nonoverlapping": (1, 2), "core::ptr::copy": (1, 2),
                     "core::ptr::mut_ptr::<impl *mut T>::write_bytes": (0, 2), "core::ptr::write_bytes": (0, 2),
                     "core::ptr::mut_ptr::<impl *mut T>::copy_from_nonoverlapping": (0, 2),
                     "core::ptr::mut_ptr::<impl *mut T>::copy_from": (0, 2)}
WRITE_ONE_CALLS = ("core::ptr::write", "core::ptr::mut_ptr::<impl *mut T>::write", "core::ptr::write_volatile",
                   "core::ptr::write_unaligned", "core::ptr::mut_ptr::<impl *mut T>::write_volatile",
                   "core::ptr::mut_ptr::<impl *mut T>::write_unaligned", "core::ptr::replace", "core::ptr::swap")
PTR_NEUTRAL = ("::is_null", "::cast", "::cast_mut", "::cast_const", "::addr")


class Bounds:
    """Tiny abstract interpretation of usize locals of one body against the capacity parameter: each local is classified
    `< cap`, `<= cap` or unknown from ALL of its definitions (fixpoint from the optimistic end), under the fact cap >= 1."""

    def __init__(self, f, cap):
        self.f, self.cap = f, cap
        self.cls = {}
        defs = f.defs()
        self.locals = [l for l in defs if "usize" in f.local_ty(l) or "(usize, bool)" in f.local_ty(l)]
        for l in self.locals:
            self.cls[l] = LT
        self.cls[cap] = LE
        for _ in range(4 * len(self.locals) + 8):
            changed = False
            for l in self.locals:
                if l == cap:
                    continue
                v = LT
                for d in defs.get(l, []):
                    v = max(v, self.of_def(d))
                if 1 <= l <= f.arg_count:
                    v = TOP
                if v != self.cls[l]:
                    self.cls[l] = v
                    changed = True
            if not changed:
                break

    def of_operand(self, o):
        c = op_const(o) if isinstance(o, dict) else None
        if c is not None:
            return LT if c.get("int") == 0 else TOP
        pl = op_place(o)
        if pl is None:
            return TOP
        if not pl["p"]:
            return self.cls.get(pl["l"], TOP)
        # `.0` of a checked-arithmetic pair
        if len(pl["p"]) == 1 and isinstance(pl["p"][0], dict) and pl["p"][0].get("i") == 0:
            return self.cls.get(pl["l"], TOP)
        return TOP

    def nonzero_guarded(self, operand, block):
        """`operand` (a local) is known to be >= 1 in `block`: a dominating test `x > 0`, `x != 0`, `0 < x`, or the false arm of `x == 0`."""
        f = self.f
        l = op_local(operand)
        if l is None:
            return False
        names = {l}
        for d in f.defs().get(l, []):
            if d["k"] == "assign" and d["rv"]["k"] == "use" and op_local(d["rv"]["a"]) is not None:
                names.add(op_local(d["rv"]["a"]))
        for b in f.reachable():
            t = f.blocks[b]["term"]
            if t["k"] != "switch":
                continue
            for d in f.defs().get(op_local(t["on"]), []):
                if d["k"] != "assign" or d["rv"]["k"] != "binop":
                    continue
                op, x, y = d["rv"]["op"], d["rv"]["a"], d["rv"]["b"]

                def is_x(o):
                    ol = op_local(o)
                    if ol in names:
                        return True
                    return any(dd["k"] == "assign" and dd["rv"]["k"] == "use" and op_local(dd["rv"]["a"]) in names for dd in f.defs().get(ol, [])) if ol is not None else False

                def is_zero(o):
                    c = op_const(o)
                    return c is not None and c.get("int") == 0
                vals = dict(zip(t["values"], t["targets"]))
                true_succ = t["otherwise"] if 0 in vals else vals.get(1)
                false_succ = vals.get(0)
                good = None
                if (op == "Gt" and is_x(x) and is_zero(y)) or (op == "Lt" and is_zero(x) and is_x(y)) or (op == "Ne" and ((is_x(x) and is_zero(y)) or (is_zero(x) and is_x(y)))):
                    good = true_succ
                elif op == "Eq" and ((is_x(x) and is_zero(y)) or (is_zero(x) and is_x(y))):
                    good = false_succ
                if good is not None and f.dominates_block(good, block) and block not in (f.reachable_from(true_succ if good == false_succ else false_succ, stop=[good]) if (true_succ is not None and false_succ is not None) else ()):
                    return True
        return False

    def of_def(self, d):
        f = self.f
        if d.get("partial"):
            return TOP
        if d["k"] == "call":
            t = d["t"]
            cal = callee_of(t)
            a = t["args"]
            if cal.endswith(("Ord::min", "::min")) and len(a) == 2:
                return min(self.of_operand(a[0]), self.of_operand(a[1]))
            if cal.endswith("::saturating_sub") and len(a) == 2:
                c = op_const(a[1])
                base = self.of_operand(a[0])
                if c is not None and (c.get("int") or 0) >= 1 and base == LE:
                    return LT
                return base
            if cal.endswith(("::clamp",)) and len(a) == 3:
                return self.of_operand(a[2])
            return TOP
        rv = d["rv"]
        k = rv["k"]
        if k in ("use", "cast"):
            if k == "cast" and "usize" not in f.local_ty(d["dst"]["l"]):
                return TOP
            return self.of_operand(rv["a"])
        if k == "binop":
            op = rv["op"]
            ca, cb = op_const(rv["a"]), op_const(rv["b"])
            if op in ("Add", "AddWithOverflow", "AddUnchecked"):
                for x, c in ((rv["a"], cb), (rv["b"], ca)):
                    if c is not None:
                        base = self.of_operand(x)
                        if c.get("int") == 0:
                            return base
                        if c.get("int") == 1 and base == LT:
                            return LE
                return TOP
            if op in ("Sub", "SubWithOverflow", "SubUnchecked"):
                base = self.of_operand(rv["a"])
                if cb is not None and cb.get("int") == 0:
                    return base
                # wraps in release when the minuend is 0: needs a dominating non-zero test
                if cb is not None and cb.get("int") == 1 and self.nonzero_guarded(rv["a"], d["b"]):
                    return LT if base in (LT, LE) else TOP
                return TOP
            if op in ("BitAnd",):
                return min(self.of_operand(rv["a"]), self.of_operand(rv["b"]))
            if op in ("Shr", "Div") :
                return self.of_operand(rv["a"])
            return TOP
        return TOP


def r26bcd(ctx, P):
    f = P.fn(FFI + "::searchlite_search")
    if not ctx.anchor("R26.b", f, "searchlite_search"):
        return
    ctx.saw(f)
    ctx.rule("R26.b", "BOUND (abstract interpretation against buf_cap, not a source shape): every write through the output-buffer parameter "
                      "is enumerated — stores through the pointer or through ptr::add/offset results, copy_nonoverlapping / copy / "
                      "write_bytes counts, ptr::write, and slices made by from_raw_parts_mut (whose own accesses Rust bounds-checks) — and "
                      "each extent is classified from ALL definitions of the locals involved (min, saturating_sub, +1, guarded -1, copies; "
                      "a local redefined in a loop gets the join): offsets must be `< buf_cap`, counts and slice lengths `<= buf_cap`. "
                      "Any other call that receives the output pointer is an unrecognised write. The copied bytes come from the encoded "
                      "response without an offset, a zero byte is stored at the position equal to the copied count, and that count is "
                      "what the function returns")
    ctx.rule("R26.c", "GUARD: every write through the output-buffer parameter is dominated by the false arm of a `buf_cap == 0` test "
                      "(the bound classes of R26.b assume buf_cap >= 1)")
    ctx.rule("R26.d", "every other definition of the return value is a constant that is zero or negative")
    sl = Slice(f)
    sla = Slice(f, through_all_calls=True)
    params = ptr_params(f)
    out_params = [i for i in params if f.arg_ty(i).startswith("*mut ") and "c_char" in f.arg_ty(i) or f.arg_ty(i) == "*mut i8"]
    cap_params = [i for i in range(1, f.arg_count + 1) if (f.locals[i].get("name") or "") == "buf_cap"]
    if not (ctx.anchor("R26.b", out_params, "output buffer parameter (*mut c_char)") and ctx.anchor("R26.b", cap_params, "buf_cap parameter")):
        return
    outp, cap = out_params[-1], cap_params[0]
    defs = f.defs()
    B = Bounds(f, cap)

    # --- pointer aliases: base (offset 0) and offset pointers {local: offset operand}
    base = {outp}
    offs = {}
    changed = True
    while changed:
        changed = False
        for l, dfs in defs.items():
            if l in base or l in offs or not f.local_ty(l).startswith(("*mut ", "*const ")):
                continue
            for d in dfs:
                if d["k"] == "assign" and not d["partial"] and d["rv"]["k"] in ("use", "cast") and op_local(d["rv"]["a"]) in base:
                    base.add(l); changed = True
                elif d["k"] == "assign" and not d["partial"] and d["rv"]["k"] in ("use", "cast") and op_local(d["rv"]["a"]) in offs:
                    offs[l] = offs[op_local(d["rv"]["a"])]; changed = True
                elif d["k"] == "call" and d["t"]["args"] and op_local(d["t"]["args"][0]) in base:
                    cal = callee_of(d["t"])
                    if cal.endswith(PTR_NEUTRAL[1:]):
                        base.add(l); changed = True
                    elif cal.endswith(("::add", "::wrapping_add")) and len(d["t"]["args"]) == 2:
                        offs[l] = d["t"]["args"][1]; changed = True
    def root(o):
        l = op_local(o)
        seen = set()
        while l is not None and l not in seen:
            seen.add(l)
            dfs = [d for d in defs.get(l, []) if not d["partial"]]
            if f.locals[l].get("name") or len(dfs) != 1 or dfs[0]["k"] != "assign":
                return l
            rv = dfs[0]["rv"]
            if rv["k"] in ("use", "cast"):
                nl = op_local(rv["a"])
                if nl is None:
                    return l
                l = nl
            elif rv["k"] == "ref" and rv["place"]["p"] in ([], ["deref"]):
                l = rv["place"]["l"]
            else:
                return l
        return l

    events = []      # (site, kind, class needed, class found, description)
    unknown = []
    counts, nuls = set(), set()
    out_slices = set()   # locals holding &mut [u8] made from the output pointer
    first_write_blocks = []
    for b, i, st in f.stmts():
        if st["k"] != "assign" or any("ub_checks" in m or "debug_assert" in m for m in st.get("macros", [])):
            continue
        dst = st["dst"]
        if dst["p"] and dst["p"][0] == "deref":
            if dst["l"] in base:
                events.append((Site(f, b, i), "store at offset 0", LT, LT, "*out = .."))
                first_write_blocks.append(b)
            elif dst["l"] in offs:
                c = B.of_operand(offs[dst["l"]])
                events.append((Site(f, b, i), "store at out.add(k)", LT, c, "k is %s" % CLS_NAME[c]))
                first_write_blocks.append(b)
                cz = op_const(st["rv"].get("a")) if st["rv"]["k"] == "use" else None
                if cz is not None and cz.get("int") == 0:
                    nuls.add(root(offs[dst["l"]]))
    for b, t in f.calls():
        cal = callee_of(t)
        if any("ub_checks" in m or "debug_assert" in m for m in t.get("macros", [])):
            continue
        args = t["args"]
        ptr_args = [k for k, a in enumerate(args) if op_local(a) in base or op_local(a) in offs]
        if not ptr_args:
            continue
        if cal.endswith(PTR_NEUTRAL) or cal.endswith(("::add", "::wrapping_add")):
            continue
        if cal in WRITE_COUNT_CALLS:
            di, ci = WRITE_COUNT_CALLS[cal]
            if op_local(args[di]) in base:
                c = B.of_operand(args[ci])
                events.append((Site(f, b), cal.rsplit("::", 1)[1], LE, c, "count is %s" % CLS_NAME[c]))
                first_write_blocks.append(b)
                counts.add(root(args[ci]))
                # prefix: the source derives from the encoded response, no pointer arithmetic, no range with a start
                continue
            if op_local(args[di]) in offs:
                unknown.append((Site(f, b), "%s into an offset of the output pointer" % cal.rsplit("::", 1)[1]))
                continue
            continue   # the output pointer is only the source
        if cal in WRITE_ONE_CALLS:
            a0 = op_local(args[0])
            c = LT if a0 in base else B.of_operand(offs[a0])
            events.append((Site(f, b), cal.rsplit("::", 1)[1], LT, c, "offset is %s" % CLS_NAME[c]))
            first_write_blocks.append(b)
            continue
        if cal.endswith("slice::raw::from_raw_parts_mut") and op_local(args[0]) in base:
            c = B.of_operand(args[1])
            events.append((Site(f, b), "from_raw_parts_mut", LE, c, "slice length is %s" % CLS_NAME[c]))
            first_write_blocks.append(b)
            out_slices.add(t["dst"]["l"])
            continue
        unknown.append((Site(f, b), "the output pointer is passed to %s" % cal))
    # slices made from the output pointer: bounds-checked accesses only
    changed = True
    while changed:
        changed = False
        for l, dfs in defs.items():
            if l in out_slices:
                continue
            for d in dfs:
                if d["k"] == "assign" and d["rv"]["k"] in ("use", "cast") and op_local(d["rv"]["a"]) in out_slices or \
                        d["k"] == "assign" and d["rv"]["k"] == "ref" and d["rv"]["place"]["l"] in out_slices and \
                        all(e == "deref" for e in d["rv"]["place"]["p"]):
                    out_slices.add(l); changed = True
    for b, t in f.calls():
        cal = callee_of(t)
        if t["args"] and op_local(t["args"][0]) in out_slices:
            if "unchecked" in cal or cal.endswith(("::as_mut_ptr", "::as_mut_ptr_range")):
                unknown.append((Site(f, b), "unchecked access %s on the slice over the output buffer" % cal))
            if cal.endswith("IndexMut<I>>::index_mut") or cal.endswith("::index_mut"):
                for x in sl.sources(t["args"][1]):
                    if x[0] == "agg" and "RangeTo" in (x[3].get("adt") or "") and "Inclusive" not in (x[3].get("adt") or ""):
                        counts.add(root(x[3]["ops"][0]))
    for b, i, st in f.stmts():
        if st["k"] == "assign" and st["dst"]["l"] in out_slices:
            idx = [e["index"] for e in st["dst"]["p"] if isinstance(e, dict) and "index" in e]
            cz = op_const(st["rv"].get("a")) if st["rv"]["k"] == "use" else None
            if idx and cz is not None and cz.get("int") == 0:
                nuls.add(root({"mv": {"l": idx[0], "p": []}}))
    ctx.floor("R26.b", len(events), 1, "writes through the output buffer")
    bad = [e for e in events if e[3] > e[2]]
    # agreement of copied count, NUL position and return value; no redefinition after the first write
    shared = counts & nuls
    ret_roots = set()
    ret_bad = []
    for d0 in defs.get(0, []):
        if d0["k"] == "assign" and d0["rv"]["k"] == "use":
            c = op_const(d0["rv"]["a"])
            if c is not None:
                if (c.get("int") or 0) > 0:
                    ret_bad.append(Site(f, d0["b"], d0["i"]))
            else:
                ret_roots.add(root(d0["rv"]["a"]))
        else:
            ret_bad.append(Site(f, d0["b"], d0.get("i", TERM)))
    agree = bool(shared) and ret_roots <= shared and bool(ret_roots)
    stable = True
    for r in shared:
        for d in defs.get(r, []):
            if any(d["b"] in f.reachable_from(wb) and d["b"] != wb for wb in first_write_blocks):
                stable = False
    # prefix of the response
    prefix = True
    src_note = ""
    for b, t in f.calls():
        cal = callee_of(t)
        srcop = None
        if cal in WRITE_COUNT_CALLS and op_local(t["args"][WRITE_COUNT_CALLS[cal][0]]) in base:
            srcop = t["args"][0] if WRITE_COUNT_CALLS[cal][0] == 1 else t["args"][1]
        elif cal.endswith("::copy_from_slice") and op_local(t["args"][0]) is not None and \
                any(x[0] == "call" and callee_of(x[2]).endswith("from_raw_parts_mut") for x in sla.sources(t["args"][0])):
            srcop = t["args"][1]
        if srcop is None or cal.endswith("write_bytes"):
            continue
        srcs = sla.sources(srcop)
        from_resp = any(x[0] == "call" and "serde_json::ser::to_string" in callee_of(x[2]) or x[0] == "call" and callee_of(x[2]).endswith("to_string") and
                        any("serde_json" in callee_of(y[2]) for y in sla.sources(x[2]["args"][0]) if y[0] == "call") for x in srcs) or \
            any(x[0] == "call" and "serde_json" in callee_of(x[2]) for x in srcs)
        shifted = [callee_of(x[2]) for x in srcs if x[0] == "call" and callee_of(x[2]).endswith(("::add", "::offset", "::sub", "::split_at", "::skip"))] + \
                  [x[3].get("adt") for x in srcs if x[0] == "agg" and (x[3].get("adt") or "").endswith(("ops::range::Range", "ops::range::RangeFrom", "ops::range::RangeInclusive"))]
        if not from_resp or shifted:
            prefix = False
            src_note = "source of the copy at %s %s" % (Site(f, b).loc(), "is shifted by %s" % shifted[0] if shifted else "does not derive from the encoded response")
    ok_b = not bad and not unknown and agree and stable and prefix
    why = []
    for e in bad:
        why.append("%s at %s: %s, needs %s" % (e[1], e[0].loc(), e[4], CLS_NAME[e[2]]))
    for s_, h in unknown:
        why.append("%s at %s" % (h, s_.loc()))
    if not agree:
        why.append("copied count, NUL position and return value are not the same value (count roots %s, NUL roots %s, returned %s)" % (
            sorted(counts), sorted(nuls), sorted(ret_roots)))
    if not stable:
        why.append("the byte count is redefined after the first write")
    if not prefix:
        why.append(src_note)
    ctx.ob("R26.b", "R26.b:searchlite_search:bounded-write", ok_b,
           "%d write(s) through the output buffer, all within buf_cap: %s; the NUL sits at the copied count, which is returned" % (
               len(events), "; ".join("%s (%s)" % (e[1], e[4]) for e in events)) if ok_b else
           "write through the output buffer not proven within buf_cap: %s" % "; ".join(why),
           (bad[0][0].loc() if bad else unknown[0][0].loc() if unknown else events[0][0].loc() if events else "%s:%s" % (f.file, f.line)),
           {"events": [(e[0].loc(), e[1], e[4]) for e in events]})
    # R26.c
    cap_tests = []
    for b in sorted(f.reachable()):
        t = f.blocks[b]["term"]
        if t["k"] != "switch":
            continue
        l = op_local(t["on"])
        for d in defs.get(l, []):
            if d["k"] == "assign" and d["rv"]["k"] == "binop" and d["rv"]["op"] == "Eq" and cap in sl.args(d["rv"]["a"]) and \
                    (op_const(d["rv"]["b"]) or {}).get("int") == 0:
                vals = dict(zip(t["values"], t["targets"]))
                if vals.get(0) is not None:
                    cap_tests.append(vals[0])
    okc = bool(events) and all(any(f.dominates_block(ct_, e[0].b) for ct_ in cap_tests) for e in events)
    ctx.ob("R26.c", "R26.c:searchlite_search:writes-guarded-by-capacity", okc,
           "every write through the output buffer happens only when buf_cap != 0" if okc else
           "a write through the output buffer is not dominated by the `buf_cap == 0` early return",
           events[0][0].loc() if events else "%s:%s" % (f.file, f.line))
    # R26.d
    ctx.ob("R26.d", "R26.d:searchlite_search:early-returns", not ret_bad,
           "every early return yields the constant 0" if not ret_bad else "return value defined at %s is neither the byte count nor a zero/negative constant" % ret_bad[0].loc(),
           ret_bad[0].loc() if ret_bad else "%s:%s" % (f.file, f.line))
    # other extern fns: constants only
    for p, g in sorted(P.fns.items()):
        if g.crate == FFI and g.kind == "fn" and g.abi and g.abi.startswith("C") and g is not f and g.ret_ty in ("i32", "usize", "isize"):
            vals = []
            odd = []
            for d0 in g.defs().get(0, []):
                if d0["k"] == "assign" and d0["rv"]["k"] == "use" and op_const(d0["rv"]["a"]) is not None:
                    vals.append(op_const(d0["rv"]["a"]).get("int"))
                else:
                    odd.append(Site(g, d0["b"], d0["i"]))
            ctx.ob("R26.d", "R26.d:%s:status-constants" % g.short, True,
                   "%s returns constants %s%s" % (g.short, sorted(set(vals)), " and %d computed value(s)" % len(odd) if odd else ""), "%s:%s" % (g.file, g.line))


def run(ctx, progs):
    P = progs.get("default")
    r26a(ctx, P)
    r26bcd(ctx, P)
    if ctx.tier == "thorough":
        ctx.config = "features"
        Pf = progs.get("features")
        r26a(ctx, Pf)
        r26bcd(ctx, Pf)
        ctx.config = "default"
    ctx.assumptions += ["the caller's pointers are valid for the lengths it passes (the C contract): `handle` from searchlite_index_open, NUL-terminated strings, aggs_len bytes, buf_cap bytes",
                        "a panic inside search aborts at the extern \"C\" boundary (subject of C16)",
                        "compiler-inserted debug pointer checks are not counted as uses"]
