"""C26 — the C search entry point stays within the caller's buffer (all clauses structural)."""
from sa import names as N
from sa.prog import Site, Slice, TERM, callee_of, op_local, op_place, op_const
from sa.rules.common import is_test_or_bench

EXPLANATION = ("Decides every clause of the statement from the MIR of the extern \"C\" functions: each use of a raw-pointer parameter "
               "(reborrow, CStr::from_ptr, slice::from_raw_parts, ptr::add / store, copy_nonoverlapping) is dominated by an is_null "
               "test on that parameter whose null arm cannot reach the use; the write count of copy_nonoverlapping and the offset of "
               "the NUL store are the same value min(bytes.len(), buf_cap.saturating_sub(1)), the copy's source is bytes.as_ptr() of "
               "the same bytes, the destination derives from the output-buffer parameter, a buf_cap == 0 test precedes any write, "
               "there is no other write through the output pointer, the returned value is that same count, and every early return "
               "yields a constant zero / negative status. Assumes the caller's pointers are valid for the lengths passed.")

FFI = "searchlite_ffi"
DEREF_CALLS = ("core::ffi::c_str::CStr::from_ptr", "core::slice::raw::from_raw_parts", "core::slice::raw::from_raw_parts_mut",
               "alloc::boxed::Box::<T>::from_raw", "core::ptr::copy_nonoverlapping", "core::ptr::copy", "core::ptr::write",
               "core::ptr::mut_ptr::<impl *mut T>::add", "core::ptr::const_ptr::<impl *const T>::add",
               "core::ptr::mut_ptr::<impl *mut T>::offset", "core::ptr::mut_ptr::<impl *mut T>::write")


def extern_fns(P):
    return [f for p, f in sorted(P.fns.items()) if f.crate == FFI and f.abi and '"C"' in f.abi.replace("C {", '"C" {') or
            (f.crate == FFI and f.abi and f.abi.startswith("C")) and f.kind == "fn" and not is_test_or_bench(f)]


def ptr_params(f):
    return [i for i in range(1, f.arg_count + 1) if f.arg_ty(i).startswith(("*const ", "*mut "))]


def param_of(f, operand, params, sl):
    """Which raw-pointer parameter does this operand derive from (by plain copies / casts / ptr::add)?"""
    srcs = sl.sources(operand)
    hit = {x[1] for x in srcs if x[0] == "arg" and x[1] in params}
    return hit


def null_guards(f, param):
    """[(switch block, non-null successor, null successor)] for is_null tests on the parameter."""
    out = []
    for b, t in f.calls():
        if not callee_of(t).endswith("::is_null"):
            continue
        a = t["args"][0]
        l = op_local(a)
        # the tested value is the parameter itself (possibly through a copy)
        seen = set()
        while l is not None and l not in seen and l != param:
            seen.add(l)
            dfs = f.defs().get(l, [])
            if len(dfs) == 1 and dfs[0]["k"] == "assign" and dfs[0]["rv"]["k"] in ("use", "cast"):
                l = op_local(dfs[0]["rv"]["a"])
            else:
                break
        if l != param:
            continue
        res = t["dst"]["l"]
        for b2 in f.reachable():
            t2 = f.blocks[b2]["term"]
            if t2["k"] == "switch" and op_local(t2["on"]) == res:
                vals = dict(zip(t2["values"], t2["targets"]))
                nonnull = vals.get(0)
                null = t2["otherwise"] if 0 in vals else vals.get(1)
                if nonnull is not None and null is not None:
                    out.append((b2, nonnull, null))
    return out


def uses_of_param(f, param, sl, params):
    """Sites that dereference the parameter: reborrows `&*p` / `&mut *p`, stores `*p = ..`, and the DEREF_CALLS."""
    out = []
    aliases = {param}
    changed = True
    while changed:
        changed = False
        for l, dfs in f.defs().items():
            if l in aliases:
                continue
            for d in dfs:
                if d["k"] == "assign" and not d["partial"] and d["rv"]["k"] in ("use", "cast") and op_local(d["rv"]["a"]) in aliases and \
                        f.local_ty(l).startswith(("*const ", "*mut ")):
                    aliases.add(l)
                    changed = True
                if d["k"] == "call" and callee_of(d["t"]).endswith(("::add", "::offset", "::cast")) and d["t"]["args"] and \
                        op_local(d["t"]["args"][0]) in aliases and f.local_ty(l).startswith(("*const ", "*mut ")):
                    aliases.add(l)
                    changed = True
    for b, i, s in f.stmts():
        if s["k"] != "assign":
            continue
        if any("debug_assert" in m or "ub_checks" in m for m in s.get("macros", [])):
            continue
        rv = s["rv"]
        pl = rv.get("place") if rv["k"] in ("ref", "rawptr") else None
        if pl and pl["l"] in aliases and pl["p"] and pl["p"][0] == "deref":
            out.append((Site(f, b, i), "reborrow"))
        if s["dst"]["l"] in aliases and s["dst"]["p"] and s["dst"]["p"][0] == "deref":
            out.append((Site(f, b, i), "store"))
    for b, t in f.calls():
        cal = callee_of(t)
        if cal in DEREF_CALLS or cal.startswith("alloc::boxed::Box::<T>::from_raw"):
            for a in t["args"]:
                if op_local(a) in aliases:
                    out.append((Site(f, b), cal.rsplit("::", 1)[1]))
    return out, aliases


def r26a(ctx, P):
    rid = "R26.a"
    ctx.rule(rid, "GUARD: in every extern \"C\" function each dereferencing use of a raw-pointer parameter is dominated by the non-null "
                  "arm of an is_null test on that parameter, and the null arm cannot reach the use")
    fs = [f for p, f in sorted(P.fns.items()) if f.crate == FFI and f.kind == "fn" and f.abi and f.abi.startswith("C") and not is_test_or_bench(f)]
    ctx.floor(rid + ".fns", len(fs), 5, "extern \"C\" functions")
    n = 0
    for f in fs:
        ctx.saw(f)
        sl = Slice(f)
        params = ptr_params(f)
        for prm in params:
            n += 1
            uses, _al = uses_of_param(f, prm, sl, params)
            guards = null_guards(f, prm)
            bad = []
            for (site, how) in uses:
                ok = any(f.dominates_block(nn, site.b) and site.b not in f.reachable_from(nl, stop=[nn]) for (_b, nn, nl) in guards)
                if not ok:
                    bad.append((site, how))
            name = f.locals[prm].get("name") or ("arg%d" % prm)
            ctx.ob(rid, "%s:%s:%s" % (rid, f.short, name), not bad,
                   "%d dereferencing use(s) of `%s` are all behind a null check" % (len(uses), name) if not bad else
                   "`%s` is dereferenced (%s) at %s without a dominating null check" % (name, bad[0][1], bad[0][0].loc()),
                   bad[0][0].loc() if bad else "%s:%s" % (f.file, f.line), {"uses": [(s.loc(), h) for s, h in uses]})
    ctx.floor(rid, n, 10, "raw-pointer parameters of the extern \"C\" functions")


def r26bcd(ctx, P):
    f = P.fn(FFI + "::searchlite_search")
    if not ctx.anchor("R26.b", f, "searchlite_search"):
        return
    ctx.saw(f)
    ctx.rule("R26.b", "FLOW: the count of ptr::copy_nonoverlapping and the offset of the NUL store are the same local, defined as "
                      "Ord::min(bytes.len(), usize::saturating_sub(buf_cap, k>=1)); the copy source is bytes.as_ptr() of the same slice; "
                      "the destination derives from the output-buffer parameter; the function returns that same local")
    ctx.rule("R26.c", "GUARD: no other write through the output-buffer parameter exists, and every write is dominated by the false arm "
                      "of a `buf_cap == 0` test")
    ctx.rule("R26.d", "every other definition of the return value is a constant that is zero or negative")
    sl = Slice(f)
    sla = Slice(f, through_all_calls=True)
    params = ptr_params(f)
    out_params = [i for i in params if f.arg_ty(i).startswith("*mut ") and "c_char" in f.arg_ty(i) or f.arg_ty(i) == "*mut i8"]
    cap_params = [i for i in range(1, f.arg_count + 1) if (f.locals[i].get("name") or "") == "buf_cap"]
    if not (ctx.anchor("R26.b", out_params, "output buffer parameter (*mut c_char)") and ctx.anchor("R26.b", cap_params, "buf_cap parameter")):
        return
    outp, cap = out_params[-1], cap_params[0]
    uses, aliases = uses_of_param(f, outp, sl, params)
    copies = [(b, t) for b, t in f.calls() if callee_of(t) == "core::ptr::copy_nonoverlapping" and op_local(t["args"][1]) in aliases]
    stores = [(s, h) for (s, h) in uses if h == "store"]
    adds = [(b, t) for b, t in f.calls() if callee_of(t).endswith("mut_ptr::<impl *mut T>::add") and op_local(t["args"][0]) in aliases]

    def root(o):
        l = op_local(o)
        seen = set()
        while l is not None and l not in seen:
            seen.add(l)
            dfs = [d for d in f.defs().get(l, []) if not d["partial"]]
            if f.locals[l].get("name") or len(dfs) != 1 or dfs[0]["k"] != "assign":
                return l
            rv = dfs[0]["rv"]
            if rv["k"] in ("use", "cast"):
                l = op_local(rv["a"])
            elif rv["k"] == "ref" and rv["place"]["p"] in ([], ["deref"]):
                l = rv["place"]["l"]
            else:
                return l
        return l

    ok_b = False
    why = "no copy_nonoverlapping into the output buffer found"
    len_local = None
    if len(copies) == 1 and len(adds) == 1 and len(stores) == 1:
        cb, ct = copies[0]
        ab, at = adds[0]
        n_local, i_local = root(ct["args"][2]), root(at["args"][1])
        len_local = n_local
        same = n_local is not None and n_local == i_local
        # definition: min(len(bytes), saturating_sub(buf_cap, k))
        d = [x for x in f.defs().get(n_local, []) if not x["partial"]] if n_local is not None else []
        shape = False
        src_ok = False
        if len(d) == 1 and d[0]["k"] == "call" and callee_of(d[0]["t"]).endswith(("Ord::min", "::min")):
            a0, a1 = d[0]["t"]["args"][0], d[0]["t"]["args"][1]

            def is_len(o):
                for y in sl.sources(o):
                    if y[0] == "call" and callee_of(y[2]).endswith("::len"):
                        return root(y[2]["args"][0]) if True else None
                return None

            def is_capsub(o):
                for y in sl.sources(o):
                    if y[0] == "call" and callee_of(y[2]).endswith("::saturating_sub"):
                        c = op_const(y[2]["args"][1])
                        if cap in sl.args(y[2]["args"][0]) and c is not None and c.get("int", 0) >= 1:
                            return True
                return False
            la, lb = is_len(a0), is_len(a1)
            bytes_root = la if la is not None else lb
            shape = (la is not None and is_capsub(a1)) or (lb is not None and is_capsub(a0))
            # source = as_ptr of the same slice
            for y in sl.sources(ct["args"][0]):
                if y[0] == "call" and callee_of(y[2]).endswith("::as_ptr") and root(y[2]["args"][0]) == bytes_root:
                    src_ok = True
        returns = any(d0["k"] == "assign" and d0["rv"]["k"] == "use" and root(d0["rv"]["a"]) == n_local for d0 in f.defs().get(0, []))
        ok_b = same and shape and src_ok and returns
        why = "count==NUL offset: %s; min(len, buf_cap.saturating_sub(k>=1)): %s; source is bytes.as_ptr(): %s; returns the count: %s" % (same, shape, src_ok, returns)
    else:
        why = "expected exactly one copy_nonoverlapping, one ptr::add and one store through the output pointer (found %d/%d/%d)" % (len(copies), len(adds), len(stores))
    ctx.ob("R26.b", "R26.b:searchlite_search:bounded-write", ok_b,
           "at most buf_cap bytes including the NUL are written, as a prefix of the response; the byte count is returned (%s)" % why if ok_b else
           "bounded-write shape broken: %s" % why, Site(f, copies[0][0]).loc() if copies else "%s:%s" % (f.file, f.line))
    # R26.c: writes only after buf_cap != 0, nothing else writes
    cap_tests = []
    for b in sorted(f.reachable()):
        t = f.blocks[b]["term"]
        if t["k"] != "switch":
            continue
        l = op_local(t["on"])
        for d in f.defs().get(l, []):
            if d["k"] == "assign" and d["rv"]["k"] == "binop" and d["rv"]["op"] == "Eq" and cap in sl.args(d["rv"]["a"]) and \
                    (op_const(d["rv"]["b"]) or {}).get("int") == 0:
                vals = dict(zip(t["values"], t["targets"]))
                if vals.get(0) is not None:
                    cap_tests.append(vals[0])
    writes = [Site(f, b) for b, t in copies] + [s for s, h in stores]
    other = [(s, h) for (s, h) in uses if h in ("write", "copy", "from_raw_parts_mut") or (h == "reborrow" and False)]
    okc = bool(writes) and all(any(f.dominates_block(ct_, w.b) for ct_ in cap_tests) for w in writes) and not other
    ctx.ob("R26.c", "R26.c:searchlite_search:writes-guarded-by-capacity", okc,
           "both writes through the output buffer happen only when buf_cap != 0, and nothing else writes through it" if okc else
           "a write through the output buffer is not dominated by the `buf_cap == 0` early return (or an additional write exists)",
           writes[0].loc() if writes else "%s:%s" % (f.file, f.line))
    # R26.d
    bad = []
    for d0 in f.defs().get(0, []):
        if d0["k"] == "assign" and d0["rv"]["k"] == "use":
            c = op_const(d0["rv"]["a"])
            if c is not None:
                if c.get("int", 1) > 0:
                    bad.append(Site(f, d0["b"], d0["i"]))
            elif root(d0["rv"]["a"]) != len_local:
                bad.append(Site(f, d0["b"], d0["i"]))
        elif d0["k"] == "call":
            bad.append(Site(f, d0["b"]))
    ctx.ob("R26.d", "R26.d:searchlite_search:early-returns", not bad,
           "every early return yields the constant 0" if not bad else "return value defined at %s is neither the byte count nor a zero/negative constant" % bad[0].loc(),
           bad[0].loc() if bad else "%s:%s" % (f.file, f.line))
    # other extern fns: constants only
    for p, g in sorted(P.fns.items()):
        if g.crate == FFI and g.kind == "fn" and g.abi and g.abi.startswith("C") and g is not f and g.ret_ty in ("i32", "usize", "isize"):
            vals = []
            odd = []
            for d0 in g.defs().get(0, []):
                if d0["k"] == "assign" and d0["rv"]["k"] == "use" and op_const(d0["rv"]["a"]) is not None:
                    vals.append(op_const(d0["rv"]["a"]).get("int"))
                else:
                    odd.append(Site(g, d0["b"], d0["i"]))
            ctx.ob("R26.d", "R26.d:%s:status-constants" % g.short, True,
                   "%s returns constants %s%s" % (g.short, sorted(set(vals)), " and %d computed value(s)" % len(odd) if odd else ""), "%s:%s" % (g.file, g.line))


def run(ctx, progs):
    P = progs.get("default")
    r26a(ctx, P)
    r26bcd(ctx, P)
    if ctx.tier == "thorough":
        ctx.config = "features"
        Pf = progs.get("features")
        r26a(ctx, Pf)
        r26bcd(ctx, Pf)
        ctx.config = "default"
    ctx.assumptions += ["the caller's pointers are valid for the lengths it passes (the C contract): `handle` from searchlite_index_open, NUL-terminated strings, aggs_len bytes, buf_cap bytes",
                        "a panic inside search aborts at the extern \"C\" boundary (subject of C16)",
                        "compiler-inserted debug pointer checks are not counted as uses"]
