"""C04 — committed contents follow upsert/delete/rollback semantics (partial: visibility skeleton)."""
import re
from sa import names as N
from sa.prog import Site, Slice, TERM, callee_of, op_local, op_place
from sa.rules.common import writer_entry_points, entry_ancestors, is_test_or_bench, publish_sites

EXPLANATION = ("Decides who may publish (only commit and compact take the manifest write lock; queueing, rollback and writer "
               "construction have no manifest-write and no segment-write effect, so queued operations stay invisible), that "
               "rollback discards (shared with C02), and that every routine enumerating a segment's documents for matching, "
               "rescoring or compaction tests SegmentReader::is_deleted first. The folding of adds/deletes per id is runtime "
               "and is not decided.")

MATCHES = "searchlite_core::api::reader::QueryEvaluator::<'a>::matches"
GET_DOC = N.SEGR + "::get_doc"
IS_DELETED = N.SEGR + "::is_deleted"


def manifest_write_sites(P, f):
    sl = Slice(f)
    return [Site(f, b) for b, t in f.calls() if callee_of(t) == N.RW_WRITE and "manifest" in sl.fields(t["args"][0])]


def r04a(ctx, P):
    rid = "R04.a"
    ctx.rule(rid, "WHO: the write lock of InnerIndex.manifest is taken only by IndexWriter::commit and Index::compact; "
                  "add_document, delete_document(s), rollback and IndexWriter::new reach neither a manifest write lock, nor "
                  "Manifest::store, nor a segment write (Storage::open_write/write_all/atomic_write)")
    takers = set()
    n = 0
    for p, f in P.fns.items():
        if f.crate != "searchlite_core" or is_test_or_bench(f):
            continue
        for s in manifest_write_sites(P, f):
            n += 1
            root = f
            while root.kind == "closure" and root.parent and P.fn(root.parent):
                root = P.fn(root.parent)
            takers.add(root.path)
            ok = root.path in (N.W + "::commit", N.INDEX + "::compact")
            ctx.ob(rid, "%s:manifest-write-lock:%s" % (rid, root.short), ok,
                   "manifest write lock taken in %s" % root.short if ok else
                   "manifest write lock taken in %s, which is not a publishing entry point" % root.short, s.loc())
    ctx.floor(rid, n, 2, "manifest write-lock acquisitions (commit, compact)")
    eps = writer_entry_points(P)
    quiet = ["new", "add_document", "delete_document", "delete_documents", "rollback"]
    bad_eff = {N.RW_WRITE: "a RwLock write", N.MAN_STORE: "Manifest::store", N.S_OPEN_WRITE: "Storage::open_write",
               N.S_WRITE_ALL: "Storage::write_all", N.S_ATOMIC_WRITE: "Storage::atomic_write"}
    for name in quiet:
        f = eps.get(name)
        if not ctx.anchor(rid, f, "IndexWriter::" + name):
            continue
        ctx.saw(f)
        r = P.reach(f.path)
        hit = [bad_eff[e] for e in bad_eff if e in r and not (e == N.RW_WRITE and not _reaches_manifest_write(P, f))]
        ctx.ob(rid, "%s:IndexWriter::%s:no-publish-effect" % (rid, name), not hit,
               "IndexWriter::%s cannot publish or write segment/manifest files" % name if not hit else
               "IndexWriter::%s reaches %s: queued operations could become visible before commit" % (name, ", ".join(hit)),
               "%s:%s" % (f.file, f.line))


def _reaches_manifest_write(P, f):
    seen = {f.path} | {q for q in P.reach(f.path) if q in P.fns}
    for q in seen:
        g = P.fns[q]
        if g.crate == "searchlite_core" and manifest_write_sites(P, g):
            return True
    return False


def deleted_guard(P, f, use_site, use_arg):
    """Is there an is_deleted test on the same document id whose 'deleted' arm cannot reach use_site and which
    dominates it?"""
    sl = Slice(f)
    want = _roots(f, sl, use_arg)
    for b, t in f.calls():
        if callee_of(t) != IS_DELETED:
            continue
        s = Site(f, b)
        if not f.dominates(s, use_site):
            continue
        if want and not (want & _roots(f, sl, t["args"][1])):
            continue
        # find the switch on the bool result
        res = t["dst"]["l"]
        for b2 in f.reachable():
            t2 = f.blocks[b2]["term"]
            if t2["k"] == "switch" and op_local(t2["on"]) == res:
                vals = dict(zip(t2["values"], t2["targets"]))
                true_succ = t2["otherwise"] if 0 in vals else None
                false_succ = vals.get(0)
                if true_succ is None or false_succ is None:
                    continue
                if use_site.b not in f.reachable_from(true_succ, stop=[s.b]) and f.dominates_block(false_succ, use_site.b):
                    return s
    return None


def _prefiltered_list_guard(P, f, doc_operand):
    sl = Slice(f, through_all_calls=True)
    lists = set()
    for x in sl.sources(doc_operand):
        if x[0] == "call" and callee_of(x[2]).endswith(("::into_iter", "::iter", "::drain")):
            for y in sl.sources(x[2]["args"][0]):
                pass
            l = op_local(x[2]["args"][0])
            seen = set()
            while l is not None and l not in seen:
                seen.add(l)
                if f.locals[l].get("name") and f.local_ty(l).startswith("alloc::vec::Vec<"):
                    lists.add(l)
                    break
                dfs = [d for d in f.defs().get(l, []) if not d["partial"]]
                if len(dfs) != 1 or dfs[0]["k"] != "assign":
                    break
                rv = dfs[0]["rv"]
                l = op_local(rv["a"]) if rv["k"] in ("use", "cast") else (rv["place"]["l"] if rv["k"] == "ref" else None)
    if not lists:
        return None
    first = None
    for lst in lists:
        pushes = []
        for b, t in f.calls():
            if callee_of(t).endswith("Vec::<T, A>::push") and t["args"]:
                rl = op_local(t["args"][0])
                for d in f.defs().get(rl, []):
                    if d["k"] == "assign" and d["rv"]["k"] == "ref" and d["rv"].get("mut") and d["rv"]["place"]["l"] == lst:
                        pushes.append(Site(f, b))
        if not pushes:
            return None
        for ps in pushes:
            g = deleted_guard(P, f, ps, {"c": {}})
            if g is None:
                return None
            first = first or g
    return first


def _roots(f, sl, operand):
    out = set()
    for s in sl.sources(operand):
        if s[0] == "arg":
            out.add(("arg", s[1]))
        elif s[0] == "field":
            out.add(("field", s[1], s[2]))
    l = op_local(operand)
    if l is not None:
        # named local roots
        seen = set()
        work = [l]
        while work:
            x = work.pop()
            if x in seen or x is None:
                continue
            seen.add(x)
            if f.locals[x].get("name"):
                out.add(("local", f.locals[x]["name"]))
            for df in f.defs().get(x, []):
                if df["k"] == "assign" and df["rv"]["k"] in ("use", "cast"):
                    work.append(op_local(df["rv"]["a"]))
                elif df["k"] == "assign" and df["rv"]["k"] == "ref":
                    work.append(df["rv"]["place"]["l"])
    return out


def r04c(ctx, P):
    rid = "R04.c"
    ctx.rule(rid, "GUARD: every routine that enumerates a segment's documents — callers of QueryEvaluator::matches (the top-k "
                  "accept closure, the full scan, rescoring) and the compaction iterator reading SegmentReader::get_doc — tests "
                  "SegmentReader::is_deleted on the same document id first, and the deleted outcome skips the document")
    inst = []
    for p, f in P.fns.items():
        if f.crate != "searchlite_core" or is_test_or_bench(f):
            continue
        for b, t in f.calls():
            cal = callee_of(t)
            if cal == MATCHES and not p.startswith("searchlite_core::api::reader::QueryEvaluator"):
                inst.append((f, b, t, "matches"))
    # the read-back of stored documents in compaction: on every call path from Index::compact down to SegmentReader::get_doc (through
    # closures and private helpers of its file) some call site is guarded by is_deleted on the document id it passes on
    from sa.rules.common import compaction_chain
    comp = P.fn(N.INDEX + "::compact")
    chain, helpers = compaction_chain(P, comp) if comp is not None else ([], [])
    hp = {h.path for h in helpers}

    def site_guard(f, b, t):
        use = Site(f, b)
        g = deleted_guard(P, f, use, t["args"][1]) if len(t["args"]) > 1 else None
        if g is None and f.kind == "closure":
            from sa.rules.common import adapter_calls_with_closure, chain_filters, filter_drops_deleted
            for (par, ab, at) in adapter_calls_with_closure(P, f):
                for (kind, fb, clos) in chain_filters(P, par, at["args"][0]):
                    if kind == "filter" and any(filter_drops_deleted(P, h) for h in clos):
                        g = Site(par, fb)
        if g is None and len(t["args"]) > 1:
            g = _prefiltered_list_guard(P, f, t["args"][1])
        return g
    memo = {}

    def fn_guarded(h, depth=0):
        """every get_doc-reaching site of h (closures included) is guarded, here or further down"""
        if h.path in memo:
            return memo[h.path]
        memo[h.path] = False
        res = True
        for (f2, b2, t2, direct) in chain:
            root = f2
            while root.kind == "closure" and root.parent and P.fn(root.parent):
                root = P.fn(root.parent)
            if root.path != h.path:
                continue
            if site_guard(f2, b2, t2) is not None:
                continue
            if not direct and depth < 4 and fn_guarded(P.fns[callee_of(t2)], depth + 1):
                continue
            res = False
        memo[h.path] = res
        return res
    for (f2, b2, t2, direct) in chain:
        root = f2
        while root.kind == "closure" and root.parent and P.fn(root.parent):
            root = P.fn(root.parent)
        if comp is None or root.path != comp.path:
            continue
        ctx.saw(f2)
        g = site_guard(f2, b2, t2)
        ok = g is not None or (not direct and fn_guarded(P.fns[callee_of(t2)]))
        use = Site(f2, b2)
        inst.append((f2, b2, t2, None))
        ctx.ob(rid, "%s:%s:%s" % (rid, f2.short, "get_doc(compaction)"), ok,
               "get_doc(compaction) at %s is preceded by is_deleted%s (deleted => skipped)" % (use.loc(), " at " + g.loc() if g else " further down the call chain") if ok else
               "get_doc(compaction) at %s is not guarded by an is_deleted test on the same document: deleted documents can be returned / copied"
               % use.loc(), use.loc())
    for f, b, t, what in inst:
        if what is None:
            continue
        ctx.saw(f)
        use = Site(f, b)
        g = deleted_guard(P, f, use, t["args"][1]) if len(t["args"]) > 1 else None
        if g is None and f.kind == "closure":
            # iterator form: `.filter(|id| !seg.is_deleted(id)).map(|id| read(id))` — the closure is the map stage of a chain that a
            # not-deleted filter precedes
            from sa.rules.common import adapter_calls_with_closure, chain_filters, filter_drops_deleted
            for (par, ab, at) in adapter_calls_with_closure(P, f):
                for (kind, fb, clos) in chain_filters(P, par, at["args"][0]):
                    if kind == "filter" and any(filter_drops_deleted(P, h) for h in clos):
                        g = Site(par, fb)
        if g is None:
            # two-phase shape: the document comes out of a local list that is only filled with is_deleted-checked documents
            g = _prefiltered_list_guard(P, f, t["args"][1])
        ctx.ob(rid, "%s:%s:%s" % (rid, f.short, what), g is not None,
               "%s at %s is preceded by is_deleted at %s (deleted => skipped)" % (what, use.loc(), g.loc()) if g else
               "%s at %s is not guarded by an is_deleted test on the same document: deleted documents can be returned / copied"
               % (what, use.loc()), use.loc())
    # fail closed per ENTRY POINT, not per site: each of the four routines must reach at least one checked instance (in itself, a
    # closure of its own, or a callee) — helpers shared between them lower the number of sites, not of routines covered
    roots = ((N.READER + "::search_segment", "the top-k accept closure"), (N.READER + "::scan_segment", "the full scan"),
             (N.READER + "::rescore_hits", "rescoring"), (N.INDEX + "::compact", "compaction"))
    covered = 0
    inst_fns = {f.path for f, b, t, what in inst}
    for rp, label in roots:
        r = P.fn(rp)
        if not ctx.anchor(rid, r, rp.rsplit("::", 2)[-2] + "::" + rp.rsplit("::", 1)[-1]):
            continue
        scope = {r.path} | {c.path for c in P.closures_of(r)}
        scope |= {q for q in P.reach(r.path) if q in P.fns}
        scope |= {c.path for q in list(scope) if q in P.fns for c in P.closures_of(P.fns[q])}
        if scope & inst_fns:
            covered += 1
    ctx.floor(rid, covered, 4, "document-enumerating routines that reach a checked instance (accept closure, scan_segment, rescore_hits, compaction)")
    if ctx.config == "features":
        f = P.one("IndexReader::collect_vector_maps")
        if ctx.anchor(rid, f, "IndexReader::collect_vector_maps"):
            has = any(callee_of(t) == IS_DELETED for b, t in f.calls()) or any(
                callee_of(t) == IS_DELETED for c in P.closures_of(f) for b, t in c.calls())
            ctx.ob(rid, "%s:collect_vector_maps:is_deleted" % rid, has,
                   "vector candidates are filtered by is_deleted" if has else "vector candidates are not filtered by is_deleted",
                   "%s:%s" % (f.file, f.line))


def r04d(ctx, P):
    rid = "R04.d"
    ctx.rule(rid, "GUARD (upsert/delete fold): in IndexWriter::commit (private helpers inlined) every path from the Add arm of the match "
                  "on a queued operation to the next iteration removes the id from the live-document map and inserts into the "
                  "new-document map; every path from the Delete arm removes the id from both maps; a tombstone is recorded on the way "
                  "(under the `Some(previous address)` test)")
    f = P.inlined(N.W + "::commit")
    if not ctx.anchor(rid, f, "IndexWriter::commit"):
        return
    adt = P.adts.get("searchlite_core::api::writer::PendingOp")
    if not ctx.anchor(rid, adt, "PendingOp enum"):
        return
    names = [v["name"] for v in adt["variants"]]
    sw = None
    for b in sorted(f.reachable()):
        t = f.blocks[b]["term"]
        if t["k"] != "switch":
            continue
        l = op_local(t["on"])
        for d in f.defs().get(l, []):
            if d["k"] == "assign" and d["rv"]["k"] == "discr":
                ty = f.local_ty(d["rv"]["place"]["l"])
                if "writer::PendingOp" in ty:
                    sw = (b, t)
    if not ctx.anchor(rid, sw, "match on PendingOp in commit"):
        return
    b, t = sw
    sl = Slice(f, through_all_calls=True)

    def recv_ty(g, tt):
        l = op_local(tt["args"][0]) if tt["args"] else None
        return g.local_ty(l) if l is not None else ""

    def effects_of(g, blocks_):
        """(callee, receiver type) of the calls in these blocks, looking into closures that are invoked there"""
        out = []
        for rb in blocks_:
            tt = g.blocks[rb]["term"]
            if tt["k"] != "call":
                continue
            cal = callee_of(tt)
            out.append((cal, recv_ty(g, tt)))
            if cal in P.fns and P.fns[cal].kind == "closure":
                h = P.fns[cal]
                out += effects_of(h, sorted(h.reachable()))
            elif cal.endswith(("FnMut::call_mut", "FnOnce::call_once", "Fn::call")) and tt["args"]:
                for x in Slice(g, through_all_calls=True).sources(tt["args"][0]):
                    if x[0] == "agg" and x[3].get("closure") and P.fn(x[3]["closure"]) is not None:
                        h = P.fn(x[3]["closure"])
                        out += effects_of(h, sorted(h.reachable()))
        return out
    # the fold loop: the arm's effects are those on the way from the arm to the next iteration (an arm may share a tail with the
    # other arm: `let id = match op {..}; if let Some(addr) = live.remove(id) {..}`)
    from sa.rules.C25 import natural_loops
    hdrs = [h for h, body in natural_loops(f) if b in body]
    hdr = None
    for h in hdrs:      # innermost = the header dominated by all the others
        if all(f.dominates_block(o, h) for o in hdrs):
            hdr = h
    if not ctx.anchor(rid, hdr, "the match on PendingOp lies in a loop"):
        return

    def reach_avoiding(start, blocks):
        seen_, st_ = set(), [start]
        while st_:
            x = st_.pop()
            if x in seen_ or x in blocks:
                continue
            seen_.add(x)
            if x == hdr:
                continue
            st_.extend(f.succ(x))
        return seen_
    for v, tg in zip(t["values"], t["targets"]):
        name = names[v]
        region = sorted(f.reachable_from(tg, stop=[hdr]) - {hdr})
        per_block = {rb: effects_of(f, [rb]) for rb in region}
        calls = [e for rb in region for e in per_block[rb]]

        def must(pred):
            blocks = {rb for rb in region if any(pred(c, ty) for c, ty in per_block[rb])}
            return bool(blocks) and hdr not in reach_avoiding(tg, blocks)
        # the maps are recognised by their types: id -> address (live), id -> document (new segment), segment -> doc ids (tombstones)
        rm_live = must(lambda c, ty: bool(re.search(r"HashMap::<K, V, S(, A)?>::remove$", c)) and "DocAddress" in ty)
        ins_new = must(lambda c, ty: bool(re.search(r"BTreeMap::<K, V(, A)?>::insert$", c)) and "Document" in ty)
        rm_new = must(lambda c, ty: bool(re.search(r"BTreeMap::<K, V(, A)?>::remove$", c)) and "Document" in ty)
        tomb = any(c.endswith("Vec::<T, A>::push") and ("Vec<u32>" in ty or "DocId" in ty) for c, ty in calls) and \
            any(c.endswith("::entry") and "Vec<u32>" in ty for c, ty in calls)
        if name == "Add":
            ok = rm_live and ins_new and tomb
            what = "Add: live map remove=%s new-document map insert=%s tombstone=%s" % (rm_live, ins_new, tomb)
        else:
            ok = rm_live and rm_new and tomb
            what = "Delete: live map remove=%s new-document map remove=%s tombstone=%s" % (rm_live, rm_new, tomb)
        ctx.ob(rid, "%s:commit:fold:%s" % (rid, name), ok,
               "the %s arm of the commit fold keeps one live copy per id (%s)" % (name, what) if ok else
               "the %s arm of the commit fold does not maintain 'one live copy per id': %s" % (name, what), Site(f, b).loc())


def sl_names(f, sl, operand):
    """User-variable names an operand borrows from."""
    out = set()
    work = [op_local(operand)]
    seen = set()
    while work:
        l = work.pop()
        if l is None or l in seen:
            continue
        seen.add(l)
        if f.locals[l].get("name"):
            out.add(f.locals[l]["name"])
        for d in f.defs().get(l, []):
            if d["k"] == "assign" and d["rv"]["k"] == "ref":
                work.append(d["rv"]["place"]["l"])
                out |= {e["f"] for e in d["rv"]["place"]["p"] if isinstance(e, dict) and "f" in e}
            elif d["k"] == "assign" and d["rv"]["k"] == "use":
                work.append(op_local(d["rv"]["a"]))
    return out


def run(ctx, progs):
    P = progs.get("default")
    r04a(ctx, P)
    r04c(ctx, P)
    r04d(ctx, P)
    ctx.rule("R04.b", "ORDER: rollback clears the queue and truncates the log on every success path (evaluated as R02.c under C02)")
    from sa.rules import C02
    sub = type(ctx)(ctx.pid, ctx.tier)
    C02.r02c(sub, P)
    for o in sub.obs:
        if "rollback" in o.key:
            ctx.ob("R04.b", o.key.replace("R02.c", "R04.b"), o.ok, o.what, o.where, o.detail)
    # R04.e / R04.f = R05.c / R05.d: the upsert / delete fold addresses old copies through a handle's cached id -> (segment, ordinal)
    # map, which is trusted while the manifest's maximum generation is unchanged; a re-used or decreasing generation makes
    # tombstones point at segments that no longer exist (deletes lost, upserts duplicated)
    from sa.rules.C05 import r05c, r05d
    r05c(ctx, P, rid="R04.e")
    r05d(ctx, P, rid="R04.f")
    if ctx.tier == "thorough":
        ctx.config = "features"
        Pf = progs.get("features")
        r04a(ctx, Pf)
        r04c(ctx, Pf)
        ctx.config = "default"
        from sa import witness
        witness.run(ctx)
    ctx.assumptions += ["external code cannot reach Index.inner / InnerIndex.manifest / IndexWriter.pending_ops (private fields; "
                        "see the compile_fail witnesses in /verif/witness)"]
