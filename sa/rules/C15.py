"""C15 — every accepted document can be committed (partial)."""
from sa import names as N
from sa.prog import Site, Slice, TERM, callee_of, op_local, outcome_arms, in_arm, ok_sites
from sa.rules.common import is_test_or_bench, is_queue_receiver

EXPLANATION = ("Decides a call-graph containment that holds for all documents or fails for some: every function in which the "
               "segment build can ORIGINATE an error from a document's content (bail!/anyhow!/Err construction in a function that "
               "takes the document or a JSON value of it) is also executed on the same document by IndexWriter::add_document, at a "
               "site that dominates the WAL append, with failure leading to an error return; and add_document appends to the log "
               "only after all checks and queues only after the append; the checkers shared with the build (validate_document, "
               "collect_document, encode_stored) run on EVERY accepting path of add_document, not merely on some (recursive "
               "dominance of the success returns). The append is located by following calls from add_document, so helper extraction "
               "does not change the verdict. Assumes the checks are deterministic functions of (schema, document).")

STREAM = "searchlite_core::index::segment::SegmentWriter::<'a>::write_segment_stream"
ADD = N.W + "::add_document"
APPEND = N.WAL + "::append_add_doc"
DOC_TYPES = ("api::types::Document", "serde_json::value::Value", "serde_json::map::Map")


def error_origins(f):
    """Sites where an error value is created (not merely propagated): anyhow!/bail!/ensure! expansions, Err(..) aggregates."""
    out = []
    for b, t in f.calls():
        m = t.get("macros", [])
        cal = callee_of(t)
        if any(x.endswith(("bail", "anyhow", "ensure")) for x in m) and ("format_err" in cal or "Error::msg" in cal or cal.startswith("anyhow::")):
            out.append(Site(f, b))
    for b, i, s in f.stmts():
        if s["k"] == "assign" and s["rv"]["k"] == "agg" and s["rv"].get("adt") == "core::result::Result" and s["rv"]["variant"] == "Err":
            if not any("QuestionMark" in m for m in s.get("macros", [])):
                out.append(Site(f, b, i))
    return out


def takes_document(P, f):
    g = f
    while g.kind == "closure" and g.parent and P.fn(g.parent):
        g = P.fn(g.parent)
    return any(any(d in g.arg_ty(i) for d in DOC_TYPES) for i in range(1, g.arg_count + 1)), g


def append_chains(P, entry, depth=3):
    """Ways in which `entry` reaches the WAL append of an added document through ordinary calls of crate functions:
    list of chains [(fn, call block), ...]; the last element's block calls APPEND itself."""
    out = []

    def walk(f, chain, d):
        for b, t in f.calls():
            cal = callee_of(t)
            if cal == APPEND:
                out.append(chain + [(f, b)])
            elif d > 0 and cal in P.fns and P.fns[cal].crate == "searchlite_core" and cal not in [c[0].path for c in chain] and \
                    cal != f.path and APPEND in P.reach(cal) and not cal.startswith(N.WAL + "::"):
                walk(P.fns[cal], chain + [(f, b)], d - 1)
    walk(entry, [], depth)
    return out


def pre_sites(chain):
    """Calls that run before the append on every path and whose failure prevents it: at each level of the chain the calls that
    dominate the next step and have it on their success arm."""
    pre = []
    for f, nb in chain:
        nxt = Site(f, nb)
        for b, t in f.calls():
            s = Site(f, b)
            if s.key() == nxt.key() or not f.dominates(s, nxt):
                continue
            arms = outcome_arms(f, s)
            if arms["ok"] and in_arm(f, nxt, arms["ok"]):
                pre.append((f, s, t))
    return pre


def r15a(ctx, P):
    rid = "R15.a"
    ctx.rule(rid, "AGREE: K = functions reachable from the segment build (write_segment_stream) that take the document / a JSON value "
                  "and contain an error origin. Every member of K is reachable from a call made by IndexWriter::add_document that "
                  "dominates Wal::append_add_doc and whose failure arm returns an error")
    stream = P.fn(STREAM)
    add = P.fn(ADD)
    if not (ctx.anchor(rid, stream, "SegmentWriter::write_segment_stream") and ctx.anchor(rid, add, "IndexWriter::add_document")):
        return
    ctx.saw(stream)
    ctx.saw(add)
    K = {}
    for q in sorted({STREAM} | {q for q in P.reach(STREAM) if q in P.fns}):
        f = P.fns[q]
        if f.crate != "searchlite_core" or is_test_or_bench(f):
            continue
        org = error_origins(f)
        if not org:
            continue
        takes, root = takes_document(P, f)
        if takes:
            K.setdefault(root.path, []).extend(org)
            ctx.saw(f)
    ctx.floor(rid, len(K), 6, "document-content error origins in the segment build")
    chains = append_chains(P, add)
    ctx.floor(rid + ".append", len(chains), 1, "paths from add_document to Wal::append_add_doc")
    # checks performed before the append on every such path
    covered = None
    for chain in chains:
        cov = {}
        for f, s, t in pre_sites(chain):
            cal = callee_of(t)
            r = {cal} | P.reach(cal)
            for k in K:
                if k in r:
                    cov.setdefault(k, s)
        covered = cov if covered is None else {k: v for k, v in covered.items() if k in cov}
    covered = covered or {}
    for k, org in sorted(K.items()):
        f = P.fns[k]
        s = covered.get(k)
        ctx.ob(rid, "%s:%s" % (rid, f.short), s is not None,
               "%s (%d error origin(s)) also runs at add time via the call at %s" % (f.short, len(org), s.loc()) if s else
               "%s can reject a document at commit time (e.g. %s) but is not run by add_document before the WAL append: an accepted "
               "document can block every later commit" % (f.short, org[0].loc()), org[0].loc())


def r15b(ctx, P):
    rid = "R15.b"
    ctx.rule(rid, "ORDER: in add_document every fallible check precedes the WAL append, the queue push lies on the append's success "
                  "arm, and no Err path appends")
    entry = P.fn(ADD)
    if entry is None:
        return
    for chain in append_chains(P, entry):
        add, ab = chain[-1]
        a = Site(add, ab)
        sl = Slice(add)
        pushes = [Site(add, b) for b, t in add.calls() if callee_of(t).endswith("Vec::<T, A>::push") and is_queue_receiver(add, sl, t["args"][0])]
        # fallible calls after the append (at any level of the chain) other than the push
        late = []
        for f, nb in chain:
            nxt = Site(f, nb)
            for b, t in f.calls():
                s = Site(f, b)
                if t["dst_ty"].startswith("core::result::Result<") and "try_trait" not in callee_of(t) and f.dominates(nxt, s) and s.key() != nxt.key():
                    late.append(s)
        ctx.ob(rid, "%s:add_document:no-fallible-step-after-append" % rid, not late,
               "nothing can fail between the WAL append and the queue push" if not late else
               "fallible call at %s runs after the document is already in the WAL" % late[0].loc(), a.loc())
        okp = bool(pushes) and all(in_arm(add, p, outcome_arms(add, a)["ok"]) for p in pushes)
        ctx.ob(rid, "%s:add_document:push-after-append" % rid, okp,
               "the queue push is on the success arm of the append" if okp else "the queue push is not confined to the append's success arm", a.loc())


def _unconditional_modulo_loops(f, cb):
    """The call block is controlled only by error exits (`?`, early error returns) up to the enclosing loop-iteration test
    (or the function entry): walk direct control dependences, stop at loop tests, continue through error exits, fail otherwise."""
    from sa.rules.C13 import _is_error_exit_test
    cd = f.control_deps()
    seen, st = {cb}, [cb]
    while st:
        n = st.pop()
        for (a, succ) in cd.get(n, ()):
            t = f.blocks[a]["term"]
            if t["k"] != "switch":
                continue
            if any("ForLoop" in m or "WhileLoop" in m for m in (t.get("macros") or [])):
                continue
            if not _is_error_exit_test(f, a):
                return False
            if a not in seen:
                seen.add(a)
                st.append(a)
    return True


def r15c(ctx, P):
    rid = "R15.c"
    ctx.rule(rid, "MUST (not may): a shared checker g is a function reaching a member of K that both sides call: the segment build from "
                  "a function the add path does not use (at a site controlled only by the per-document loop and error exits), and the "
                  "add path. For each shared checker, add_document's pre-append call performs g on EVERY path to its success return "
                  "(recursive dominance), so that no shortcut (estimate, cache, fast path) can accept a document the build's run of g "
                  "would reject")
    stream, add = P.fn(STREAM), P.fn(ADD)
    if stream is None or add is None:
        return
    chains = append_chains(P, add)
    pres = [pre_sites(chain) for chain in chains]
    A = set()
    for pre in pres:
        for f, s, t in pre:
            cal = callee_of(t)
            if cal in P.fns:
                A |= {cal} | {q for q in P.reach(cal) if q in P.fns}
    S = {STREAM} | {q for q in P.reach(STREAM) if q in P.fns}
    K = set()
    for q in S:
        f = P.fns[q]
        if f.crate == "searchlite_core" and not is_test_or_bench(f) and error_origins(f) and takes_document(P, f)[0]:
            K.add(takes_document(P, f)[1].path)
    B = S - A
    J = {}
    for h in sorted(B):
        fh = P.fns[h]
        for b, t in fh.calls():
            g = callee_of(t)
            if g in A and g in S and (g in K or K & P.reach(g)) and P.fns[g].crate == "searchlite_core":
                if _unconditional_modulo_loops(fh, b):
                    J.setdefault(g, Site(fh, b))
    ctx.floor(rid, len(J), 2, "shared checkers (collect_document, encode_stored)")
    from sa.prog import site_must_perform
    for g, bsite in sorted(J.items()):
        ok = bool(pres)
        where = None
        for pre in pres:
            this = False
            for f, s, t in pre:
                if callee_of(t) == g or g in P.reach(callee_of(t)):
                    where = where or s
                    if site_must_perform(P, f, s.b, t, lambda c, g=g: c == g, 0, {}):
                        this = True
            ok = ok and this
        ctx.ob(rid, "%s:must:%s" % (rid, P.fns[g].short), ok,
               "%s runs on every accepting path of add_document (the build runs it per document at %s)" % (P.fns[g].short, bsite.loc()) if ok else
               "add_document can accept a document without running %s (the call at %s reaches it only on some paths), while the segment "
               "build runs it for every document at %s: a document can pass add_document and then fail every commit" % (
                   P.fns[g].short, where.loc() if where else "?", bsite.loc()), where.loc() if where else bsite.loc())


def path_threading_rule(ctx, P, rid, scope=("index::manifest", "index::segment", "query::filters"), floor=8):
    """Shared: recursive descent over nested fields / nested filters threads the accumulated dotted path."""
    import re
    ctx.rule(rid, "THREADING (one name per nested field on every side): the schema's resolved fields, the analyzer map, the document "
                  "collector and the nested filters each walk the nested-field tree recursively with an accumulated dotted path "
                  "parameter (`prefix` / `base_path`). On every call between two functions of one recursion cycle, the argument in the "
                  "callee's accumulator position depends on the caller's accumulator (values are followed into Strings built with "
                  "push_str / format!). A level that restarts the path from the local name makes the walkers disagree from that depth "
                  "on: a field is resolved and validated under one name and looked up (analyzer, column) under another")

    def acc_params(f):
        out = []
        for i in range(1, f.arg_count + 1):
            nm = (f.locals[i].get("name") or "")
            ty = f.arg_ty(i)
            if re.search(r"prefix|base", nm) and ("str" in ty or "String" in ty) and "Path" not in ty:
                out.append(i)
        return out
    cands = {q: f for q, f in P.fns.items() if f.crate == "searchlite_core" and not is_test_or_bench(f) and f.kind != "closure" and
             any(sc in q for sc in scope) and acc_params(f)}
    n = 0
    for q, f in sorted(cands.items()):
        sl = None
        for b, t in f.calls():
            g = callee_of(t)
            if g not in cands or not (g == q or q in P.reach(g)):
                continue
            G = cands[g]
            sl = sl or Slice(f, through_all_calls=True, into_containers=True)
            for pi in acc_params(G):
                if pi - 1 >= len(t["args"]):
                    continue
                n += 1
                ctx.saw(f)
                dep = sl.args(t["args"][pi - 1]) & set(acc_params(f))
                ctx.ob(rid, "%s:%s->%s:%s" % (rid, f.short.rsplit("::", 1)[-1], G.short.rsplit("::", 1)[-1], G.locals[pi].get("name")), bool(dep),
                       "the path handed to %s continues the caller's accumulated path" % G.short.rsplit("::", 1)[-1] if dep else
                       "%s calls %s at %s with a `%s` that does not depend on its own accumulated path: below this level the dotted "
                       "field names restart, so deeper fields are registered under a truncated name" % (
                           f.short, G.short.rsplit("::", 1)[-1], Site(f, b).loc(), G.locals[pi].get("name")), Site(f, b).loc())
    ctx.floor(rid, n, floor, "recursive calls with an accumulated path (%s)" % ", ".join(scope))


def run(ctx, progs):
    P = progs.get("default")
    r15a(ctx, P)
    r15b(ctx, P)
    r15c(ctx, P)
    path_threading_rule(ctx, P, "R15.d")
    if ctx.tier == "thorough":
        ctx.config = "features"
        Pf = progs.get("features")
        r15a(ctx, Pf)
        r15c(ctx, Pf)
        ctx.config = "default"
    ctx.assumptions += ["the content checks are deterministic functions of (schema, document): running them at add time predicts their "
                        "outcome at commit time (the schema of an index is fixed after creation)",
                        "schema-level failures of the segment build that do not depend on the document (missing analyzer) are outside K "
                        "by the 'takes the document' criterion",
                        "documents replayed from a WAL written by an older version are not re-checked"]
