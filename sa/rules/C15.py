"""C15 — every accepted document can be committed (partial)."""
from sa import names as N
from sa.prog import Site, Slice, TERM, callee_of, op_local, outcome_arms, in_arm, ok_sites
from sa.rules.common import is_test_or_bench

EXPLANATION = ("Decides a call-graph containment that holds for all documents or fails for some: every function in which the "
               "segment build can ORIGINATE an error from a document's content (bail!/anyhow!/Err construction in a function that "
               "takes the document or a JSON value of it) is also executed on the same document by IndexWriter::add_document, at a "
               "site that dominates the WAL append, with failure leading to an error return; and add_document appends to the log "
               "only after all checks and queues only after the append. Assumes the checks are deterministic functions of "
               "(schema, document).")

STREAM = "searchlite_core::index::segment::SegmentWriter::<'a>::write_segment_stream"
ADD = N.W + "::add_document"
APPEND = N.WAL + "::append_add_doc"
DOC_TYPES = ("api::types::Document", "serde_json::value::Value", "serde_json::map::Map")


def error_origins(f):
    """Sites where an error value is created (not merely propagated): anyhow!/bail!/ensure! expansions, Err(..) aggregates."""
    out = []
    for b, t in f.calls():
        m = t.get("macros", [])
        cal = callee_of(t)
        if any(x.endswith(("bail", "anyhow", "ensure")) for x in m) and ("format_err" in cal or "Error::msg" in cal or cal.startswith("anyhow::")):
            out.append(Site(f, b))
    for b, i, s in f.stmts():
        if s["k"] == "assign" and s["rv"]["k"] == "agg" and s["rv"].get("adt") == "core::result::Result" and s["rv"]["variant"] == "Err":
            if not any("QuestionMark" in m for m in s.get("macros", [])):
                out.append(Site(f, b, i))
    return out


def takes_document(P, f):
    g = f
    while g.kind == "closure" and g.parent and P.fn(g.parent):
        g = P.fn(g.parent)
    return any(any(d in g.arg_ty(i) for d in DOC_TYPES) for i in range(1, g.arg_count + 1)), g


def r15a(ctx, P):
    rid = "R15.a"
    ctx.rule(rid, "AGREE: K = functions reachable from the segment build (write_segment_stream) that take the document / a JSON value "
                  "and contain an error origin. Every member of K is reachable from a call made by IndexWriter::add_document that "
                  "dominates Wal::append_add_doc and whose failure arm returns an error")
    stream = P.fn(STREAM)
    add = P.fn(ADD)
    if not (ctx.anchor(rid, stream, "SegmentWriter::write_segment_stream") and ctx.anchor(rid, add, "IndexWriter::add_document")):
        return
    ctx.saw(stream)
    ctx.saw(add)
    K = {}
    for q in sorted({STREAM} | {q for q in P.reach(STREAM) if q in P.fns}):
        f = P.fns[q]
        if f.crate != "searchlite_core" or is_test_or_bench(f):
            continue
        org = error_origins(f)
        if not org:
            continue
        takes, root = takes_document(P, f)
        if takes:
            K.setdefault(root.path, []).extend(org)
            ctx.saw(f)
    ctx.floor(rid, len(K), 6, "document-content error origins in the segment build")
    apps = [Site(add, b) for b, t in add.calls() if callee_of(t) == APPEND]
    ctx.floor(rid + ".append", len(apps), 1, "Wal::append_add_doc in add_document")
    # checks performed by add_document before the append
    pre = []
    for b, t in add.calls():
        s = Site(add, b)
        if not apps or not all(add.dominates(s, a) for a in apps):
            continue
        arms = outcome_arms(add, s)
        if not arms["ok"] or not all(in_arm(add, a, arms["ok"]) for a in apps):
            continue
        pre.append((s, t))
    covered = {}
    for s, t in pre:
        cal = callee_of(t)
        r = {cal} | P.reach(cal)
        for k in K:
            if k in r:
                covered.setdefault(k, s)
    for k, org in sorted(K.items()):
        f = P.fns[k]
        s = covered.get(k)
        ctx.ob(rid, "%s:%s" % (rid, f.short), s is not None,
               "%s (%d error origin(s)) also runs at add time via the call at %s" % (f.short, len(org), s.loc()) if s else
               "%s can reject a document at commit time (e.g. %s) but is not run by add_document before the WAL append: an accepted "
               "document can block every later commit" % (f.short, org[0].loc()), org[0].loc())


def r15b(ctx, P):
    rid = "R15.b"
    ctx.rule(rid, "ORDER: in add_document every fallible check precedes the WAL append, the queue push lies on the append's success "
                  "arm, and no Err path appends")
    add = P.fn(ADD)
    if add is None:
        return
    sl = Slice(add)
    apps = [Site(add, b) for b, t in add.calls() if callee_of(t) == APPEND]
    pushes = [Site(add, b) for b, t in add.calls() if callee_of(t).endswith("Vec::<T, A>::push") and "pending_ops" in sl.fields(t["args"][0])]
    for a in apps:
        # fallible calls after the append other than the push
        late = []
        for b, t in add.calls():
            s = Site(add, b)
            if t["dst_ty"].startswith("core::result::Result<") and "try_trait" not in callee_of(t) and add.dominates(a, s) and s.key() != a.key():
                late.append(s)
        ctx.ob(rid, "%s:add_document:no-fallible-step-after-append" % rid, not late,
               "nothing can fail between the WAL append and the queue push" if not late else
               "fallible call at %s runs after the document is already in the WAL" % late[0].loc(), a.loc())
        okp = bool(pushes) and all(in_arm(add, p, outcome_arms(add, a)["ok"]) for p in pushes)
        ctx.ob(rid, "%s:add_document:push-after-append" % rid, okp,
               "the queue push is on the success arm of the append" if okp else "the queue push is not confined to the append's success arm", a.loc())


def run(ctx, progs):
    P = progs.get("default")
    r15a(ctx, P)
    r15b(ctx, P)
    if ctx.tier == "thorough":
        ctx.config = "features"
        Pf = progs.get("features")
        r15a(ctx, Pf)
        ctx.config = "default"
    ctx.assumptions += ["the content checks are deterministic functions of (schema, document): running them at add time predicts their "
                        "outcome at commit time (the schema of an index is fixed after creation)",
                        "schema-level failures of the segment build that do not depend on the document (missing analyzer) are outside K "
                        "by the 'takes the document' criterion",
                        "documents replayed from a WAL written by an older version are not re-checked"]
