"""C30 — composite aggregation paging is complete (partial: the page-cutting skeleton of finalize_composite)."""
import re
from sa import names as N
from sa.prog import Site, Slice, TERM, callee_of, op_local, op_place, op_const, place_fields
from sa.rules.common import is_test_or_bench

EXPLANATION = ("Whether the buckets of all pages add up to the unpaged result depends on runtime keys and is NOT decided (nor is what the "
               "per-segment collectors keep before the merge). What is decided is the page-cutting skeleton of finalize_composite, each "
               "clause a necessary condition of 'every bucket exactly once, after_key absent exactly on the last page': (a) ORDER — the "
               "merged buckets are sorted, THEN filtered by `after`, THEN `has_more` is computed from the remaining length and `size`, "
               "THEN truncated; (b) AGREE — the sort comparator and the `after` filter build their keys with the same function "
               "(composite_key_from_value over the same sources) and compare them with the key type's own ordering; (c) STRICT — the "
               "filter keeps a bucket only if its key is strictly greater than the after key (>= would repeat the last bucket of the "
               "previous page, < / <= would go backwards) and `has_more` is `len > size` (>= would announce a page that is empty); "
               "(d) after_key is Some exactly under has_more and is the key of the last bucket that is actually returned.")

FIN = "searchlite_core::query::aggs::finalize_composite"
KEYFN = "searchlite_core::query::aggs::composite_key_from_value"


def _reach_calls(P, f, depth=3):
    """callees (by path) reachable from f through its closures and workspace calls, shallow."""
    out = set()
    work = [(f, 0)]
    seen = set()
    while work:
        g, d = work.pop()
        if g.path in seen:
            continue
        seen.add(g.path)
        for c in P.closures_of(g):
            work.append((c, d))
        for b, t in g.calls():
            cal = callee_of(t)
            out.add(cal)
            if d < depth and cal in P.fns and P.fns[cal].crate == "searchlite_core":
                work.append((P.fns[cal], d + 1))
    return out


def _copy_of(f, l, target, depth=6):
    """l is target or a chain of plain copies / moves of it (every definition)"""
    if l == target:
        return True
    if depth == 0:
        return False
    dfs = f.defs().get(l, [])
    return bool(dfs) and all(d["k"] == "assign" and not d.get("partial") and d["rv"]["k"] == "use" and op_local(d["rv"]["a"]) is not None and
                             not op_place(d["rv"]["a"])["p"] and _copy_of(f, op_local(d["rv"]["a"]), target, depth - 1) for d in dfs)


def _r30e(ctx, P):
    rid = "R30.e"
    ctx.rule(rid, "ONE ORDER: every ordering the crate defines on the composite key types — any function taking two "
                  "&CompositeKey / &CompositeKeyPart and returning Ordering or Option<Ordering>, trait impl or inherent, hand-written or "
                  "derived — reaches f64::total_cmp for the histogram part (through the one part comparison). A second ordering "
                  "(a derived PartialOrd comparing the stored bit patterns, say) disagrees with the sort and the after-filter on "
                  "negative histogram keys, so whatever it is used for — pruning, merging — cuts the pages differently")
    n = 0
    for q, f in sorted(P.fns.items()):
        if f.crate != "searchlite_core" or f.kind == "closure" or is_test_or_bench(f) or f.arg_count != 2:
            continue
        tys = [f.arg_ty(1), f.arg_ty(2)]
        if not all(re.fullmatch(r"&(searchlite_core::)?query::aggs::CompositeKey(Part)?", t.replace("'_ ", "").replace("&'a ", "&")) or
                   re.fullmatch(r"&searchlite_core::query::aggs::CompositeKey(Part)?", t) for t in tys):
            continue
        rt = f.ret_ty or ""
        if not ("core::cmp::Ordering" in rt):
            continue
        n += 1
        ctx.saw(f)
        ok = any(c.endswith("f64::total_cmp") or c.endswith("<impl f64>::total_cmp") for c in P.reach(q)) or \
            any(callee_of(t).endswith("total_cmp") for b, t in f.calls())
        ctx.ob(rid, "%s:%s" % (rid, f.short), ok,
               "%s orders histogram parts through f64::total_cmp" % f.short if ok else
               "%s is a second ordering on the composite key types that does not go through f64::total_cmp (bit patterns of negative "
               "floats sort the other way round): it disagrees with the order in which buckets are listed and pages are cut" % f.short,
               "%s:%s" % (f.file, f.line))
    ctx.floor(rid, n, 3, "orderings on CompositeKey / CompositeKeyPart")


def run(ctx, progs):
    P = progs.get("default")
    f = P.inlined(FIN, depth=1, keep=(KEYFN,))      # an extracted `skip buckets up to the after key` helper is read in place
    if not ctx.anchor("R30.a", f, "aggs::finalize_composite"):
        return
    ctx.saw(f)
    sl = Slice(f, through_all_calls=True)
    sl0 = Slice(f)
    # the bucket list: the local that is sorted
    sorts = [(b, t) for b, t in f.calls() if re.search(r"::(sort_by|sort_unstable_by|sort_by_key|sort_by_cached_key|sort)$", callee_of(t))]
    retains = [(b, t) for b, t in f.calls() if re.search(r"Vec::<T, A>::(retain|retain_mut)$", callee_of(t))]
    truncs = [(b, t) for b, t in f.calls() if re.search(r"Vec::<T, A>::(truncate|drain|split_off)$", callee_of(t))]
    lens = [(b, t) for b, t in f.calls() if re.search(r"Vec::<T, A>::len$", callee_of(t))]
    lasts = [(b, t) for b, t in f.calls() if re.search(r"::(last|last_mut)$", callee_of(t))]
    ctx.rule("R30.a", "ORDER: in finalize_composite sort < retain(after) < has_more = (len > size) < truncate(size) on every path; the "
                      "length compared with `size` is read after the filter and before the cut")
    ctx.rule("R30.b", "AGREE: the sort comparator and the after-filter both obtain their keys from composite_key_from_value with the "
                      "request's sources and compare through the key type's Ord / PartialOrd")
    ctx.rule("R30.c", "STRICT: the after-filter keeps a bucket iff key > after (PartialOrd::gt on (bucket key, after key)); has_more is `len > size`")
    ctx.rule("R30.d", "after_key is Some exactly on the has_more arm and is the key of `buckets.last()` taken after the truncation")
    ok_anchor = ctx.anchor("R30.a", sorts and retains and truncs and lens, "sort / retain / len / truncate in finalize_composite")
    if not ok_anchor:
        return
    sb, rb, tb = sorts[0][0], retains[0][0], truncs[0][0]
    # has_more
    hm = None
    for b, i, st in f.stmts():
        if st["k"] == "assign" and st["rv"]["k"] == "binop" and st["rv"]["op"] in ("Gt", "Ge", "Lt", "Le", "Ne", "Eq"):
            sa_, sb_ = sl0.sources(st["rv"]["a"]), sl0.sources(st["rv"]["b"])
            len_a = any(x[0] == "call" and callee_of(x[2]).endswith("::len") for x in sa_)
            len_b = any(x[0] == "call" and callee_of(x[2]).endswith("::len") for x in sb_)
            size_a = any(x[0] == "arg" and (f.locals[x[1]].get("name") == "size") for x in sa_)
            size_b = any(x[0] == "arg" and (f.locals[x[1]].get("name") == "size") for x in sb_)
            if (len_a and size_b) or (len_b and size_a):
                hm = (b, i, st, len_a)
    if not ctx.anchor("R30.a", hm, "comparison of the remaining length with `size`"):
        return
    hb, hi, hst, len_left = hm
    len_blocks = [x[1] for x in sl0.sources(hst["rv"]["a"] if len_left else hst["rv"]["b"]) if x[0] == "call" and callee_of(x[2]).endswith("::len")]
    order_ok = f.dominates_block(sb, rb) or rb in f.reachable_from(sb)
    order_ok = order_ok and not (sb in f.reachable_from(rb)) and tb in f.reachable_from(hb) and hb not in f.reachable_from(tb)
    # the len is read after the retain (on the path that filters) and never after the truncate
    order_ok = order_ok and all(lb not in f.reachable_from(tb) for lb in len_blocks) and all(rb not in f.reachable_from(lb) for lb in len_blocks)
    order_ok = order_ok and f.dominates_block(sb, hb)
    ctx.ob("R30.a", "R30.a:finalize_composite:sort-filter-count-cut", order_ok,
           "buckets are sorted, filtered by `after`, counted against `size`, then cut" if order_ok else
           "finalize_composite does not sort, filter by `after`, compare the remaining length with `size` and truncate in that order "
           "(sort %s, retain %s, count %s, truncate %s)" % (Site(f, sb).loc(), Site(f, rb).loc(), Site(f, hb, hi).loc(), Site(f, tb).loc()),
           Site(f, hb, hi).loc())
    # strictness of has_more
    op = hst["rv"]["op"]
    strict = (op == "Gt" and len_left) or (op == "Lt" and not len_left)
    ctx.ob("R30.c", "R30.c:finalize_composite:has-more-strict", strict,
           "has_more is `len > size`" if strict else "has_more compares the remaining length with `size` using `%s`: with exactly `size` "
           "buckets left an after_key is returned and the next page is empty (or the last page is cut short)" % op, Site(f, hb, hi).loc())
    # truncate to size, controlled by has_more
    t_size = any(x[0] == "arg" and f.locals[x[1]].get("name") == "size" for x in sl0.sources(truncs[0][1]["args"][1])) if len(truncs[0][1]["args"]) > 1 else False
    ctx.ob("R30.a", "R30.a:finalize_composite:cut-to-size", t_size, "the page is cut to `size`" if t_size else
           "the truncation at %s does not cut to the request's `size`" % Site(f, tb).loc(), Site(f, tb).loc())
    # (b) agree: sort closure and retain closure both reach composite_key_from_value
    def closure_of(t):
        for a in t["args"][1:]:
            for x in sl.sources(a):
                if x[0] == "agg" and x[3].get("closure"):
                    return P.fn(x[3]["closure"])
        return None
    sc, rc = closure_of(sorts[0][1]), closure_of(retains[0][1])
    s_reach = _reach_calls(P, sc) if sc else set()
    r_reach = _reach_calls(P, rc) if rc else set()
    agree = KEYFN in s_reach and KEYFN in r_reach
    ctx.ob("R30.b", "R30.b:finalize_composite:same-key-function", agree,
           "sort comparator and after-filter both build CompositeKeys with composite_key_from_value" if agree else
           "the sort comparator and the after-filter do not build their keys with the same function (composite_key_from_value): the page "
           "boundary is drawn in another order than the buckets are listed in", Site(f, rb).loc())
    # the after key itself comes from composite_key_from_value(after, sources)
    after_from_keyfn = False
    for a in retains[0][1]["args"][1:]:
        for x in sl.sources(a):
            if x[0] == "call" and callee_of(x[2]).endswith("Option::<T>::and_then"):
                for y in sl.sources(x[2]["args"][1]):
                    if y[0] == "agg" and y[3].get("closure") and P.fn(y[3]["closure"]) and KEYFN in _reach_calls(P, P.fn(y[3]["closure"])):
                        after_from_keyfn = True
            if x[0] == "call" and callee_of(x[2]) == KEYFN:
                after_from_keyfn = True
    ctx.ob("R30.b", "R30.b:finalize_composite:after-key-parsed-with-key-function", after_from_keyfn,
           "the request's `after` value is parsed with composite_key_from_value" if after_from_keyfn else
           "the `after` value is not parsed with composite_key_from_value", Site(f, rb).loc())
    # (c) strict filter: inside the retain closure (and nested closures) the comparison is PartialOrd::gt(bucket key, after key)
    strict_f = False
    why = "no comparison found in the after-filter"
    if rc is not None:
        for g in [rc] + P.closures_of(rc):
            for b, t in g.calls():
                cal = callee_of(t)
                m = re.search(r"PartialOrd(<[^>]*>)?>?::(gt|ge|lt|le)$", cal)
                if m:
                    kind = m.group(2)
                    # argument 0 = the bucket's key (closure parameter of the inner map), argument 1 = captured after key
                    def direct_upvar(o):
                        return any(x[0] == "field" and any(str(fl).startswith("upvar:") for fl in x[2]) for x in Slice(g).sources(o))

                    def from_bucket(o):
                        # the closure's own parameter (the bucket, or the bucket's key handed to a nested closure), possibly through
                        # the key function; never a captured value used as it is
                        return not direct_upvar(o) and any(x[0] == "arg" and x[1] >= 2 for x in Slice(g, through_all_calls=True).sources(o))
                    a0_param = from_bucket(t["args"][0])
                    a1_upvar = direct_upvar(t["args"][1])
                    if kind == "gt" and a0_param and a1_upvar:
                        strict_f = True
                    elif kind == "lt" and direct_upvar(t["args"][0]) and from_bucket(t["args"][1]):
                        strict_f = True
                    else:
                        why = "the after-filter compares with `%s`%s" % (kind, "" if (a0_param and a1_upvar) else " in an unexpected argument order")
            for b, i, st in g.stmts():
                if st["k"] == "assign" and st["rv"]["k"] == "binop" and st["rv"]["op"] in ("Ge", "Le", "Lt", "Eq", "Ne"):
                    why = "the after-filter compares with `%s`" % st["rv"]["op"]
    ctx.ob("R30.c", "R30.c:finalize_composite:after-filter-strict", strict_f,
           "a bucket is kept iff its key is strictly greater than the after key" if strict_f else
           "%s: the last bucket of the previous page is repeated, or buckets are skipped" % why, Site(f, rb).loc())
    # (d) after_key
    ak_ok = False
    where = None
    for b, i, st in f.stmts():
        if st["k"] == "assign" and st["rv"]["k"] == "agg" and (st["rv"].get("adt") or "").endswith("AggregationResponse") and st["rv"].get("variant") == "Composite":
            adt = P.adts.get(st["rv"]["adt"])
            names = None
            for v in adt["variants"]:
                if v["name"] == "Composite":
                    names = [x[0] for x in v["fields"]]
            if names and "after_key" in names:
                o = st["rv"]["ops"][names.index("after_key")]
                where = Site(f, b, i)
                # definitions of the after_key local
                l = op_local(o)
                defs = []
                seen = set()
                work = [l]
                while work:
                    x = work.pop()
                    if x is None or x in seen:
                        continue
                    seen.add(x)
                    for d in f.defs().get(x, []):
                        if d["k"] == "assign" and d["rv"]["k"] in ("use", "cast") and op_local(d["rv"]["a"]) is not None:
                            work.append(op_local(d["rv"]["a"]))
                        else:
                            defs.append(d)
                some_defs = [d for d in defs if d["k"] == "call" or
                             (d["k"] == "assign" and d["rv"]["k"] == "agg" and d["rv"].get("variant") == "Some")]

                def def_input(d):
                    return d["t"]["args"][0] if d["k"] == "call" else d["rv"]["ops"][0]
                none_defs = [d for d in defs if d["k"] == "assign" and d["rv"]["k"] == "agg" and d["rv"].get("variant") == "None"]
                hm_local = hst["dst"]["l"]
                # edges: has_more true / false, and "buckets.last() is None"
                hm_true, hm_false, last_none = set(), set(), set()
                for a in f.reachable():
                    t = f.blocks[a]["term"]
                    if t["k"] == "switch" and op_local(t["on"]) is not None and _copy_of(f, op_local(t["on"]), hm_local):
                        vals = dict(zip(t["values"], t["targets"]))
                        true_succ = t["otherwise"] if 0 in vals else vals.get(1)
                        for sx in f.succ(a):
                            (hm_true if sx == true_succ else hm_false).add((a, sx))
                from sa.prog import outcome_arms
                for lb, lt in lasts:
                    for a in outcome_arms(f, Site(f, lb))["switch"]:
                        t = f.blocks[a]["term"]
                        vals = dict(zip(t["values"], t["targets"]))
                        for sx in f.succ(a):
                            if sx != vals.get(1):
                                last_none.add((a, sx))

                def reachable_without(edges):
                    seen_, st_ = set(), [0]
                    while st_:
                        x = st_.pop()
                        if x in seen_:
                            continue
                        seen_.add(x)
                        for y in f.succ(x):
                            if (x, y) not in edges:
                                st_.append(y)
                    return seen_

                def controlled_by_hm(bk, want_true):
                    # Some: every path to the definition takes a has_more-is-true edge.  None: every path takes a has_more-is-false
                    # edge or the "no last bucket" edge
                    if not hm_true or not hm_false:
                        return False
                    if want_true:
                        return bk not in reachable_without(hm_true)
                    return bk not in reachable_without(hm_false | last_none)
                from_last = all(any(x[0] == "call" and re.search(r"::last$", callee_of(x[2])) for x in sl.sources(def_input(d))) for d in some_defs) and bool(some_defs)
                after_cut = all(any(lb in f.reachable_from(tb) or not (tb in f.reachable_from(lb)) for lb, _ in lasts) for d in some_defs)
                last_after_trunc = all(lb in f.reachable_from(tb) for lb, _ in lasts) and bool(lasts)
                ak_ok = bool(some_defs) and bool(none_defs) and all(controlled_by_hm(d["b"], True) for d in some_defs) and \
                    all(controlled_by_hm(d["b"], False) for d in none_defs) and from_last and last_after_trunc
    ctx.ob("R30.d", "R30.d:finalize_composite:after-key", ak_ok,
           "after_key = key of the last returned bucket, present exactly when more buckets remain" if ak_ok else
           "after_key is not (Some(key of buckets.last() after the cut) exactly under has_more, None otherwise)",
           where.loc() if where else "%s:%s" % (f.file, f.line))
    _r30e(ctx, P)
    ctx.assumptions += ["CompositeKey's Ord is a total order on the keys produced by composite_key_from_value (bit patterns for histogram parts)",
                        "what the per-segment collectors and the merge keep before finalize_composite is outside this check (C12)"]
