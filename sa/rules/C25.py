"""C25 — CLI, HTTP and FFI agree with the Rust API (partial)."""
import re
from sa import names as N
from sa.prog import Site, Slice, TERM, callee_of, op_local, op_place, op_const
from sa.rules.common import is_test_or_bench
from sa.rules.http_common import const_str

EXPLANATION = ("Decides the structural reasons the front ends cannot diverge from the library: (a) they are thin — every front-end "
               "function reaches the core only through Index::{open,create}/IndexBuilder::create, reader()+IndexReader::search, "
               "writer()+{add_document(s), delete_document(s), commit}, compact(), manifest(); a SearchResult obtained from "
               "IndexReader::search is never mutated (no field store, no &mut borrow, no by-value hand-off other than to the "
               "serialiser / response wrapper / the caller); (b) index options are not persisted, so every front end must open the "
               "index with the same ones: the constant operands of every IndexOptions construction agree on bm25_k1, bm25_b, "
               "enable_positions and storage; the CLI's string tables for execution strategy and sort order map onto the serde names "
               "of the core enums; (c) request parts the front ends build per element of a list (sort clauses, documents) use only "
               "values set for that element: no operand of the struct literal can carry a value assigned in an earlier iteration. "
               "Equality of results is not decided; the wasm front end is not analysable here.")

FRONT = ("searchlite_cli", "searchlite_http", "searchlite_ffi")
ALLOWED_CORE = (
    "searchlite_core::index::Index::open", "searchlite_core::index::Index::create", "searchlite_core::index::Index::reader",
    "searchlite_core::index::Index::writer", "searchlite_core::index::Index::compact", "searchlite_core::index::Index::manifest",
    "searchlite_core::api::builder::IndexBuilder::create", N.READER + "::search",
    N.W + "::add_document", N.W + "::add_documents", N.W + "::delete_document", N.W + "::delete_documents", N.W + "::commit",
    "searchlite_core::index::manifest::Manifest::manifest_path",
)
SERIALISERS = ("serde_json::ser::to_string", "serde_json::ser::to_string_pretty", "serde_json::ser::to_vec", "serde_json::ser::to_writer",
               "serde_json::ser::to_writer_pretty", "serde_json::value::ser::to_value")
OPTS = "searchlite_core::api::types::IndexOptions"


def is_behavioural_core(cal):
    """Core functions that read or change index contents (constructors of plain request/response values do not count)."""
    if not cal.startswith("searchlite_core::"):
        return False
    if cal.startswith(("searchlite_core::index::Index::", "searchlite_core::api::builder::IndexBuilder::", N.READER + "::", N.W + "::",
                       "searchlite_core::index::segment::", "searchlite_core::index::wal::", "searchlite_core::query::", "searchlite_core::storage::",
                       "searchlite_core::index::manifest::Manifest::")):
        return True
    return False


def r25a(ctx, P):
    rid = "R25.a"
    ctx.rule(rid, "WHO: every call from searchlite-cli / -http / -ffi into behaviour-bearing core code targets the public entry points "
                  "{Index::open/create/reader/writer/compact/manifest, IndexBuilder::create, IndexReader::search, IndexWriter::"
                  "add_document(s)/delete_document(s)/commit, Manifest::manifest_path}; the SearchResult returned by "
                  "IndexReader::search is only borrowed immutably, serialised, wrapped in Json(..) or returned")
    n = 0
    per_crate = {}
    for p, f in sorted(P.fns.items()):
        if f.crate not in FRONT or is_test_or_bench(f):
            continue
        seen_here = False
        for b, t in f.calls():
            cal = callee_of(t)
            if not is_behavioural_core(cal):
                continue
            if any("derive" in m for m in f.macros):
                continue
            if not seen_here:
                ctx.saw(f)
                seen_here = True
            n += 1
            per_crate[f.crate] = per_crate.get(f.crate, 0) + 1
            ok = cal in ALLOWED_CORE
            key = "%s:%s:%s" % (rid, re.sub(r"::\{closure#\d+\}", "", f.short), cal.rsplit("::", 2)[-2] + "::" + cal.rsplit("::", 1)[1])
            ctx.ob(rid, key, ok, "%s -> %s" % (f.short.split("::{")[0], cal.split("searchlite_core::")[1]) if ok else
                   "%s calls %s, which is not one of the public entry points the Rust API equivalence is stated for" % (f.short, cal),
                   Site(f, b).loc())
        # SearchResult immutability
        for b, t in f.calls():
            if callee_of(t) != N.READER + "::search":
                continue
            res = result_aliases(f, t["dst"]["l"])
            bad = None
            for b2, i, s in f.stmts():
                if s["k"] != "assign":
                    continue
                if s["dst"]["l"] in res and s["dst"]["p"] and _is_result_ty(f, s["dst"]["l"]):
                    bad = (Site(f, b2, i), "field store into the result")
                rv = s["rv"]
                if rv["k"] == "ref" and rv.get("mut") and rv["place"]["l"] in res and _is_result_ty(f, rv["place"]["l"]) and not rv.get("fake"):
                    bad = (Site(f, b2, i), "&mut borrow of the result")
            for b2, t2 in f.calls():
                cal2 = callee_of(t2)
                for a in t2["args"]:
                    if "mv" in a and a["mv"]["l"] in res and not a["mv"]["p"] and _is_result_ty(f, a["mv"]["l"]):
                        if not (cal2.endswith("Try>::branch") or "from_residual" in cal2 or cal2 in SERIALISERS):
                            bad = (Site(f, b2), "moved into %s" % cal2)
            ctx.ob(rid, "%s:%s:SearchResult-untouched" % (rid, re.sub(r"::\{closure#\d+\}", "", f.short)), bad is None,
                   "the SearchResult obtained at %s is only serialised / wrapped / returned" % Site(f, b).loc() if bad is None else
                   "the SearchResult obtained at %s is modified before it is emitted (%s at %s)" % (Site(f, b).loc(), bad[1], bad[0].loc()),
                   Site(f, b).loc())
    # type-based: no front-end function mutates or builds a SearchResult value, wherever it got it from
    for p, f in sorted(P.fns.items()):
        if f.crate not in FRONT or is_test_or_bench(f) or any("derive" in m for m in f.macros):
            continue
        rl = {i for i, l in enumerate(f.locals) if l["ty"] in ("searchlite_core::api::reader::SearchResult", "&mut searchlite_core::api::reader::SearchResult")}
        if not rl:
            continue
        bad = None
        for b2, i, s in f.stmts():
            if s["k"] != "assign":
                continue
            if s["dst"]["l"] in rl and s["dst"]["p"] and any(isinstance(e, dict) and "f" in e for e in s["dst"]["p"]):
                bad = (Site(f, b2, i), "field store")
            rv = s["rv"]
            if rv["k"] == "ref" and rv.get("mut") and not rv.get("fake") and rv["place"]["l"] in rl:
                bad = (Site(f, b2, i), "&mut borrow")
            if rv["k"] == "agg" and rv.get("adt") == "searchlite_core::api::reader::SearchResult":
                bad = (Site(f, b2, i), "constructs a SearchResult")
        ctx.ob(rid, "%s:%s:SearchResult-immutable" % (rid, re.sub(r"::\{closure#\d+\}", "", f.short)), bad is None,
               "%s never mutates the SearchResult it handles" % f.short.split("::{")[0] if bad is None else
               "%s modifies a SearchResult (%s at %s) before emitting it" % (f.short, bad[1], bad[0].loc()),
               bad[0].loc() if bad else "%s:%s" % (f.file, f.line))
    ctx.floor(rid, n, 20, "front-end call sites into behaviour-bearing core code")
    for c in FRONT:
        ctx.floor(rid + "." + c, per_crate.get(c, 0), 3, "core call sites in " + c)


def _is_result_ty(f, l):
    ty = f.local_ty(l)
    return ty == "searchlite_core::api::reader::SearchResult"


def result_aliases(f, l):
    """Locals holding the search result value (through `?`, match on Ok, plain moves, Ok(..) wrapping)."""
    al = {l}
    changed = True
    while changed:
        changed = False
        for x, dfs in f.defs().items():
            if x in al:
                continue
            for d in dfs:
                if d["k"] == "assign" and not d["partial"] and d["rv"]["k"] == "use":
                    p = op_place(d["rv"]["a"])
                    if p and p["l"] in al:
                        al.add(x)
                        changed = True
                elif d["k"] == "call" and callee_of(d["t"]).endswith("Try>::branch") and op_local(d["t"]["args"][0]) in al:
                    al.add(x)
                    changed = True
    return al


def opts_sites(P):
    out = []
    for p, f in sorted(P.fns.items()):
        if f.crate not in FRONT or is_test_or_bench(f):
            continue
        for b, i, s in f.stmts():
            if s["k"] == "assign" and s["rv"]["k"] == "agg" and s["rv"].get("adt") == OPTS and not any("derive" in m or "Clone" in m for m in s.get("macros", [])):
                out.append((f, b, i, s["rv"]))
    return out


def const_val(f, o):
    c = op_const(o)
    if c is None:
        # a local assigned one constant
        l = op_local(o)
        dfs = f.defs().get(l, []) if l is not None else []
        if len(dfs) == 1 and dfs[0]["k"] == "assign" and dfs[0]["rv"]["k"] == "use":
            c = op_const(dfs[0]["rv"]["a"])
        elif len(dfs) == 1 and dfs[0]["k"] == "assign" and dfs[0]["rv"]["k"] == "agg":
            return "%s::%s" % (dfs[0]["rv"].get("adt", "").rsplit("::", 1)[-1], dfs[0]["rv"].get("variant"))
    if c is None:
        return None
    if "float" in c:
        return round(float(c["float"]), 6)
    if "int" in c:
        return c["int"]
    return c.get("txt")


def r25b(ctx, P):
    rid = "R25.b"
    ctx.rule(rid, "AGREE: all IndexOptions constructions in the front ends use the same constants for bm25_k1, bm25_b, enable_positions "
                  "and storage; the CLI's execution-strategy and sort-order string tables equal the lowercase serde names of the "
                  "variants they select")
    sites = opts_sites(P)
    ctx.floor(rid, len(sites), 3, "IndexOptions construction sites (cli::options, http::AppState::index_options, ffi::searchlite_index_open)")
    table = {}
    for f, b, i, rv in sites:
        ctx.saw(f)
        vals = {}
        for name, o in zip(rv["fields"], rv["ops"]):
            if name in ("bm25_k1", "bm25_b", "enable_positions", "storage"):
                vals[name] = const_val(f, o)
        table[(f.short, Site(f, b, i).loc())] = vals
    ref = None
    for (fn, where), vals in sorted(table.items()):
        if ref is None:
            ref = (fn, vals)
        same = vals == ref[1] and None not in vals.values()
        ctx.ob(rid, "%s:%s:IndexOptions" % (rid, fn), same,
               "%s opens the index with %s" % (fn, vals) if same else
               "%s opens the index with %s but %s uses %s: the same directory scores / tokenises differently per front end" % (fn, vals, ref[0], ref[1]),
               where)
    # CLI string tables
    for fname, enum in (("parse_execution", "searchlite_core::api::types::ExecutionStrategy"), ("parse_sort", "searchlite_core::api::types::SortOrder")):
        f = P.fn("searchlite_cli::" + fname) or P.fn("bin:searchlite_cli::" + fname)
        if not ctx.anchor(rid, f, "searchlite_cli::" + fname):
            continue
        f = P.inlined(f.path, depth=1) or f         # a per-clause helper is read in place
        ctx.saw(f)
        pairs = []
        for b, t in f.calls():
            if callee_of(t).endswith("PartialEq for str>::eq") or callee_of(t).endswith("PartialEq<str>>::eq"):
                lit = None
                for a in t["args"]:
                    lit = lit or const_str(op_const(a))
                if lit is None:
                    continue
                res = t["dst"]["l"]
                for b2 in f.reachable():
                    t2 = f.blocks[b2]["term"]
                    if t2["k"] == "switch" and op_local(t2["on"]) == res:
                        vals = dict(zip(t2["values"], t2["targets"]))
                        true_succ = t2["otherwise"] if 0 in vals else vals.get(1)
                        built = set()
                        x = true_succ
                        seen = set()
                        while x is not None and x not in seen:
                            seen.add(x)
                            for s in f.blocks[x]["stmts"]:
                                if s["k"] == "assign" and s["rv"]["k"] == "agg" and s["rv"].get("adt") == enum:
                                    built.add(s["rv"]["variant"])
                            if built or f.blocks[x]["term"]["k"] != "goto":
                                break
                            x = f.blocks[x]["term"]["target"]
                        pairs.append((lit, built, Site(f, b)))
        ctx.floor(rid + "." + fname, len(pairs), 2, "string comparisons in " + fname)
        for lit, built, site in pairs:
            ok = len(built) == 1 and list(built)[0].lower() == lit
            ctx.ob(rid, "%s:%s:%s" % (rid, fname, lit), ok,
                   "\"%s\" selects %s::%s (serde name \"%s\")" % (lit, enum.rsplit("::", 1)[1], list(built)[0] if built else "?", lit) if ok else
                   "\"%s\" selects %s, whose serde name is not \"%s\"" % (lit, sorted(built), lit), site.loc())


def natural_loops(f):
    """[(header, body set)] from back edges a->h with h dominating a."""
    loops = {}
    preds = f.preds()
    for a in f.reachable():
        for h in f.succ(a):
            if f.dominates_block(h, a):
                body = loops.setdefault(h, {h})
                st = [a]
                while st:
                    x = st.pop()
                    if x in body:
                        continue
                    body.add(x)
                    st.extend(p for p in preds.get(x, []) if p in f.reachable())
    return sorted(loops.items())


def r25c(ctx, P):
    rid = "R25.c"
    ctx.rule(rid, "FLOW (no state carried between the elements a front end translates): wherever the CLI / HTTP / FFI code builds a "
                  "searchlite_core::api::types value inside a loop, every operand of the struct literal is either loop-invariant "
                  "(no definition inside the loop) or definitely assigned in the current iteration (every path from the loop header "
                  "to the literal passes a definition). Otherwise an element inherits what an earlier element set, and the request "
                  "the front end sends differs from the one the Rust API would get for the same input")
    n = 0
    fronts = ("searchlite_cli", "searchlite_http", "searchlite_ffi")
    for q, f in sorted(P.fns.items()):
        if f.crate not in fronts or is_test_or_bench(f):
            continue
        if f.kind != "closure":
            f = P.inlined(q, depth=1, small=60) or f      # a per-element helper building the value is read inside the caller's loop
        loops = None
        defs = None
        for b, i, st in f.stmts():
            if st["k"] != "assign" or st["rv"]["k"] != "agg" or not (st["rv"].get("adt") or "").startswith("searchlite_core::api::types::"):
                continue
            if loops is None:
                loops = natural_loops(f)
                defs = f.defs()
            inner = [(h, body) for h, body in loops if b in body]
            if not inner:
                continue
            h, body = min(inner, key=lambda x: len(x[1]))
            n += 1
            ctx.saw(f)
            stale = []
            for o in st["rv"]["ops"]:
                l = op_local(o)
                seen = set()
                # follow plain copies of temporaries to the variable
                while l is not None and l not in seen:
                    seen.add(l)
                    dfs = [d for d in defs.get(l, []) if not d.get("partial")]
                    if f.locals[l].get("name") or len(dfs) != 1 or dfs[0]["k"] != "assign" or dfs[0]["rv"]["k"] not in ("use", "cast") or \
                            op_local(dfs[0]["rv"]["a"]) is None:
                        break
                    l = op_local(dfs[0]["rv"]["a"])
                if l is None:
                    continue
                dblocks = {d["b"] for d in defs.get(l, []) if d["b"] in body}
                if not dblocks:
                    continue          # loop-invariant
                if b in dblocks:
                    continue          # defined in the literal's own block (before it: MIR temporaries)
                # is the literal reachable from the header without passing a definition in this iteration?
                reach = {h}
                stk = [h]
                found = False
                while stk and not found:
                    x = stk.pop()
                    for y in f.succ(x):
                        if y not in body or y in reach or y == h:
                            continue
                        if y in dblocks:
                            continue
                        if y == b:
                            found = True
                            break
                        reach.add(y)
                        stk.append(y)
                if found:
                    stale.append(f.locals[l].get("name") or "_%d" % l)
            adt = st["rv"]["adt"].rsplit("::", 1)[1]
            ctx.ob(rid, "%s:%s:%s" % (rid, f.short, adt), not stale,
                   "%s built per element at %s uses only values set for that element" % (adt, Site(f, b, i).loc()) if not stale else
                   "%s built at %s can use `%s` as left by an EARLIER iteration (assigned inside the loop, but not on every path of "
                   "the current iteration): an element inherits the previous element's setting" % (adt, Site(f, b, i).loc(), ", ".join(stale)),
                   Site(f, b, i).loc())
    ctx.floor(rid, n, 1, "api::types values built inside a loop by a front end (parse_sort)")


def r25d(ctx, P):
    rid = "R25.d"
    ctx.rule(rid, "TYPE (a reader is a snapshot, C06): IndexReader::search answers from the manifest and deletion lists copied when the "
                  "reader was opened, so a front end that keeps a reader beyond one request answers from a stale snapshot while the "
                  "Rust API (Index::reader per search) does not. No struct, enum or static of searchlite-cli / -http / -ffi has a "
                  "field whose type contains IndexReader or SegmentReader")
    fronts = ("searchlite_cli", "searchlite_http", "searchlite_ffi")
    n = 0
    bad = []
    for path, adt in sorted(P.adts.items()):
        if not path.startswith(fronts):
            continue
        n += 1
        for v in adt.get("variants", []):
            for fld in v.get("fields", []):
                ty = fld[1]
                if "api::reader::IndexReader" in ty or "segment::SegmentReader" in ty:
                    bad.append((path, fld[0], ty))
    ctx.floor(rid, n, 10, "type definitions in the front-end crates")
    ctx.ob(rid, "%s:no-reader-in-long-lived-state" % rid, not bad,
           "no front-end type stores an IndexReader / SegmentReader (%d types examined)" % n if not bad else
           "%s.%s : %s keeps a reader across requests: searches through it do not see later commits (deletions are copied when the reader is "
           "opened), unlike IndexReader::search on a fresh reader" % (bad[0][0], bad[0][1], bad[0][2][:120]), None)


def run(ctx, progs):
    P = progs.get("default")
    r25a(ctx, P)
    r25b(ctx, P)
    r25c(ctx, P)
    r25d(ctx, P)
    if ctx.tier == "thorough":
        ctx.config = "features"
        Pf = progs.get("features")
        r25a(ctx, Pf)
        r25b(ctx, Pf)
        ctx.config = "default"
    ctx.assumptions += ["serde(rename_all = \"lowercase\") on ExecutionStrategy / SortOrder (the CLI tables are compared with the lowercased variant names)",
                        "the wasm front end (cfg(target_arch = \"wasm32\")) cannot be type-checked in this sandbox and is not covered"]
