"""C16 — search never panics on any request (partial: explicit panic sources)."""
import re
from sa import names as N
from sa.prog import Site, Slice, TERM, callee_of, op_local, op_place, op_const, place_str, outcome_arms, in_arm
from sa.rules.common import is_test_or_bench

EXPLANATION = ("Decides the explicit panic sources: every call to Option/Result::{unwrap,expect,..} and every panic!/assert!/"
               "debug_assert!/unreachable!/todo! expansion in searchlite's own code reachable from IndexReader::search (call graph "
               "with closure edges and trait-impl fan-out) or from the request types' hand-written deserialisers is either "
               "discharged by a local pattern (pop/next after a len/peek/is_empty test on the same container with no intervening "
               "mutation, try_into of a constant-length slice, reduce after a non-empty test) or listed in a reasoned table; the "
               "validators the table entries rely on dominate segment execution; and the front ends reach search only through "
               "IndexReader::search. Compiler-inserted bounds/overflow/division checks, allocation size, recursion depth and "
               "termination are NOT decided.")

UNWRAPS = {"core::option::Option::<T>::unwrap", "core::option::Option::<T>::expect", "core::result::Result::<T, E>::unwrap",
           "core::result::Result::<T, E>::expect", "core::result::Result::<T, E>::unwrap_err",
           "core::result::Result::<T, E>::expect_err"}

# Reasoned table: (function, callee tail, macro) -> reason
TABLE = {
    ("api::reader::PaginationCursor::encode", "expect", ""):
        "encode is only called on the score fast path, where the key was built by a score-only sort plan and carries score bits",
    ("api::reader::IndexReader::rescore_hits", "unwrap", ""):
        "hits.get_mut(hit_idx): hit_idx enumerates the same vector and removals are deferred to after the loop",
    ("query::wand::brute_force", "panic_fmt", "assert"):
        "leaf ids are allocated densely by the planner and leaf_count = max leaf + 1 (ScorePlan invariant)",
    ("query::wand::wand_loop", "panic_fmt", "assert"):
        "leaf ids are allocated densely by the planner and leaf_count = max leaf + 1 (ScorePlan invariant)",
    ("query::aggs::TopHitsCollector::<'a>::new", "expect", ""):
        "the top_hits sort spec was validated by validate_aggregations (R16.b keeps it in front)",
    ("query::aggs::QuantileState::merge", "unwrap", ""):
        "digest.take() directly after ensure_digest(), which sets it to Some",
    ("query::aggs::AggregationNode::<'a>::from_request", "panic_fmt", "unreachable"):
        "pipeline kinds are split off below bucket aggregations (split_pipeline_aggs) and rejected at the top level by "
        "validate_request_aggregations (R16.b keeps it in front of every AggregationPipeline)",
    ("query::aggs::RangeCollector::<'a>::finish::{closure}", "unwrap", "serde_json::json"):
        "json!() of f64 / Option<f64> / String values: serde_json::to_value cannot fail for these types",
}


def panic_sites(P, f):
    out = []
    for b, t in f.calls():
        cal = callee_of(t)
        m = [x for x in t.get("macros", []) if not x.startswith("desugar")]
        if cal in UNWRAPS:
            out.append((Site(f, b), cal.rsplit("::", 1)[1], _user_macro(m), t))
        elif cal.startswith("core::panicking::") or "begin_panic" in cal:
            if any(x in ("format_args", "write", "writeln", "println", "eprintln", "print", "format") for x in m[-1:]):
                continue
            out.append((Site(f, b), cal.rsplit("::", 1)[1], _user_macro(m), t))
    return out


def _user_macro(m):
    for x in reversed(m):
        x = x.replace("$crate::", "")
        if x in ("panic", "assert", "assert_eq", "assert_ne", "debug_assert", "debug_assert_eq", "debug_assert_ne", "unreachable",
                 "todo", "unimplemented", "serde_json::json", "json"):
            return "serde_json::json" if x == "json" else x
    return m[-1].replace("$crate::", "") if m else ""


def container_of(f, operand):
    """The place (string) a `&mut C` / `&C` receiver borrows, following reborrows and Deref calls."""
    l = op_local(operand)
    seen = set()
    while l is not None and l not in seen:
        seen.add(l)
        dfs = [d for d in f.defs().get(l, []) if not d["partial"]]
        if len(dfs) != 1:
            return None
        d = dfs[0]
        if d["k"] == "assign" and d["rv"]["k"] == "ref":
            pl = d["rv"]["place"]
            if pl["p"] and pl["p"][0] == "deref" and len(pl["p"]) == 1:
                l = pl["l"]
                continue
            return place_str(pl)
        if d["k"] == "assign" and d["rv"]["k"] == "use":
            l = op_local(d["rv"]["a"])
            continue
        if d["k"] == "call" and callee_of(d["t"]).endswith(("::deref", "::deref_mut", "::as_mut", "::as_ref", "::by_ref")):
            l = op_local(d["t"]["args"][0])
            continue
        return None
    return None


POP_LIKE = ("::pop", "Iterator>::next", "::next", "::last", "::first", "::pop_front", "::pop_back")


def discharge(P, f, site, t):
    """Try the local patterns P1..P3 for an unwrap-like call.  Returns a reason string or None."""
    recv = t["args"][0]
    rl = op_local(recv)
    if rl is None:
        return None
    dfs = [d for d in f.defs().get(rl, []) if not d["partial"]]
    if len(dfs) != 1 or dfs[0]["k"] != "call":
        return None
    src = dfs[0]["t"]
    scal = callee_of(src)
    src_site = Site(f, dfs[0]["b"])
    # P2: try_into of a constant-length slice
    if scal.endswith("TryInto<U>>::try_into") or scal.endswith("::try_into"):
        m = re.search(r"\[[\w:]+; (\d+)\]", src["dst_ty"])
        sl = Slice(f, through_all_calls=True)
        consts = []
        for s in sl.sources(src["args"][0]):
            if s[0] == "agg" and s[3].get("adt", "").endswith("ops::range::Range"):
                for o in s[3]["ops"]:
                    c = op_const(o)
                    consts.append(c.get("int") if c else None)
        if m and len(consts) == 2 and None not in consts and consts[1] - consts[0] == int(m.group(1)):
            return "P2: try_into of the constant-length slice [%d..%d] into [_; %s]" % (consts[0], consts[1], m.group(1))
        # P2': a slice [x .. x + K] with the constant K equal to the array length (the slicing itself is a bounds check, not an unwrap)
        if m:
            for s_ in sl.sources(src["args"][0]):
                if s_[0] == "agg" and s_[3].get("adt", "").endswith("ops::range::Range") and len(s_[3]["ops"]) == 2:
                    lo, hi = s_[3]["ops"]
                    lo_root = _copy_root(f, lo)
                    for x in Slice(f).sources(hi):
                        if x[0] == "binop" and x[1] in ("Add", "AddWithOverflow"):
                            st_ = f.blocks[x[2]]["stmts"][x[3]]
                            a_, b_ = st_["rv"]["a"], st_["rv"]["b"]
                            k = (op_const(b_) or {}).get("int")
                            if k == int(m.group(1)) and lo_root is not None and _copy_root(f, a_) == lo_root:
                                return "P2: try_into of the slice [x .. x + %d] into [_; %s]" % (k, m.group(1))
        return None
    # P3: reduce/min/max after a non-empty test on the iterated container
    if scal.endswith(("Iterator::reduce", "Iterator::max", "Iterator::min", "Iterator::max_by", "Iterator::min_by", "Iterator::last")):
        sl = Slice(f, through_all_calls=True)
        cont = None
        for s in sl.sources(src["args"][0]):
            if s[0] == "call" and callee_of(s[2]).endswith(("::iter", "::into_iter")):
                cont = container_of(f, s[2]["args"][0]) or _arg_root(f, s[2]["args"][0])
        if cont is None:
            return None
        g = _guard(f, site, cont, kinds=("nonempty",))
        return ("P3: %s on %s after %s" % (scal.rsplit("::", 1)[1], cont, g)) if g else None
    # P1: pop/next/last/first after len()==k / !is_empty() / peek() is Some on the same container
    if scal.endswith(POP_LIKE):
        cont = container_of(f, src["args"][0]) or _arg_root(f, src["args"][0])
        if cont is None:
            return None
        g = _guard(f, src_site, cont, kinds=("nonempty", "peek", "len"))
        return ("P1: %s on %s after %s" % (scal.rsplit("::", 1)[1], cont, g)) if g else None
    return None


def _copy_root(f, operand):
    l = op_local(operand)
    seen = set()
    while l is not None and l not in seen:
        seen.add(l)
        dfs = [d for d in f.defs().get(l, []) if not d.get("partial")]
        if 1 <= l <= f.arg_count or len(dfs) != 1 or dfs[0]["k"] != "assign" or dfs[0]["rv"]["k"] not in ("use", "cast"):
            return l
        nl = op_local(dfs[0]["rv"]["a"])
        if nl is None:
            return l
        l = nl
    return l


def _arg_root(f, operand):
    l = op_local(operand)
    seen = set()
    while l is not None and l not in seen:
        seen.add(l)
        if 1 <= l <= f.arg_count:
            return "_%d" % l
        dfs = [d for d in f.defs().get(l, []) if not d["partial"]]
        if len(dfs) != 1:
            return None
        d = dfs[0]
        if d["k"] == "assign" and d["rv"]["k"] in ("use", "cast"):
            l = op_local(d["rv"]["a"])
        elif d["k"] == "assign" and d["rv"]["k"] == "ref":
            l = d["rv"]["place"]["l"] if (not d["rv"]["place"]["p"] or d["rv"]["place"]["p"] == ["deref"]) else None
        else:
            return None
    return None


def _guard(f, use_site, cont, kinds):
    """A dominating test establishing that `cont` is non-empty at use_site, with no mutation of cont in between."""
    for b in f.reachable():
        t = f.blocks[b]["term"]
        if t["k"] != "switch" or not f.dominates_block(b, use_site.b) or b == use_site.b:
            continue
        l = op_local(t["on"])
        dfs = f.defs().get(l, [])
        if len(dfs) != 1:
            continue
        d = dfs[0]
        vals = dict(zip(t["values"], t["targets"]))
        arm = None
        what = None
        if d["k"] == "call":
            c = callee_of(d["t"])
            if c.endswith("::is_empty") and "nonempty" in kinds and _same(f, d["t"]["args"][0], cont):
                arm = vals.get(0)
                what = "!is_empty()"
        elif d["k"] == "assign" and d["rv"]["k"] == "binop" and d["rv"]["op"] in ("Eq", "Ne", "Gt", "Ge", "Lt", "Le") and \
                ("len" in kinds or "nonempty" in kinds):
            a, bb = d["rv"]["a"], d["rv"]["b"]
            la, lb = _len_of(f, a), _len_of(f, bb)
            ca, cb = op_const(a), op_const(bb)
            op = d["rv"]["op"]
            if la is not None and la == cont and cb is not None and "int" in cb:
                k = cb["int"]
                if op == "Eq" and k >= 1:
                    arm = t["otherwise"] if 0 in vals else vals.get(1)
                elif op == "Ne" and k >= 1:
                    arm = vals.get(0)
                elif op == "Gt" and k >= 0:
                    arm = t["otherwise"] if 0 in vals else vals.get(1)
                elif op == "Ge" and k >= 1:
                    arm = t["otherwise"] if 0 in vals else vals.get(1)
                what = "len() %s %d" % (op, k)
        elif d["k"] == "assign" and d["rv"]["k"] == "discr" and "peek" in kinds:
            pl = d["rv"]["place"]
            for d2 in f.defs().get(pl["l"], []):
                if d2["k"] != "call":
                    continue
                pk = d2["t"]
                # `peek().copied()` / `.cloned()` keep Some-ness
                if callee_of(pk).endswith(("::copied", "::cloned")):
                    inner = [x for x in f.defs().get(op_local(pk["args"][0]) or -1, []) if x["k"] == "call"]
                    pk = inner[0]["t"] if len(inner) == 1 else pk
                if callee_of(pk).endswith("::peek") and _same(f, pk["args"][0], cont):
                    arm = vals.get(1)
                    what = "peek() is Some"
        if arm is None or not f.dominates_block(arm, use_site.b):
            continue
        # no mutation of cont on the way from the arm to the use
        fwd = f.reachable_from(arm, stop=[b])
        between = {x for x in fwd if use_site.b in f.reachable_from(x, stop=[b]) and f.dominates_block(arm, x)}
        mutated = False
        for x in between:
            tx = f.blocks[x]["term"]
            if tx["k"] == "call" and x != use_site.b:
                for a in tx["args"]:
                    al = op_local(a)
                    if al is None:
                        continue
                    for dd in f.defs().get(al, []):
                        if dd["k"] == "assign" and dd["rv"]["k"] == "ref" and dd["rv"].get("mut") and place_str(dd["rv"]["place"]) == cont \
                                and dd["b"] == x:
                            mutated = True
        if not mutated:
            return "%s at %s" % (what, Site(f, b).loc())
    return None


def _same(f, operand, cont):
    return (container_of(f, operand) or _arg_root(f, operand)) == cont


def _len_of(f, operand):
    l = op_local(operand)
    if l is None:
        return None
    dfs = f.defs().get(l, [])
    if len(dfs) == 1 and dfs[0]["k"] == "call" and callee_of(dfs[0]["t"]).endswith("::len"):
        return container_of(f, dfs[0]["t"]["args"][0]) or _arg_root(f, dfs[0]["t"]["args"][0])
    return None


def entry_set(P):
    S = N.READER + "::search"
    entries = [S]
    # hand-written (non-derive) deserialisers / visitors of the request types
    for p, f in P.fns.items():
        if f.crate == "searchlite_core" and ("serde::de::Deserialize" in p or "serde::de::Visitor" in p) and \
                not any("derive" in m or "Deserialize" in m for m in f.macros):
            entries.append(p)
    reach = set(entries)
    for e in entries:
        reach |= {q for q in P.reach(e) if q in P.fns}
    return S, entries, reach


def r16a(ctx, P):
    rid = "R16.a"
    ctx.rule(rid, "PANIC: every unwrap/expect/panic!/assert!/debug_assert!/unreachable!/todo! in searchlite code reachable from "
                  "IndexReader::search (and from hand-written request deserialisers) is discharged by pattern P1 (pop/next/last "
                  "after len==k / !is_empty / peek-is-Some on the same container, no intervening &mut), P2 (try_into of a "
                  "constant-length slice), P3 (reduce/min/max after a non-empty test) or is in the reasoned table; sites inside "
                  "#[derive] expansions are excluded by expansion kind")
    S, entries, reach = entry_set(P)
    if not ctx.anchor(rid, P.fn(S), "IndexReader::search"):
        return
    ctx.floor(rid + ".reach", len(reach), 400, "functions reachable from IndexReader::search")
    n = 0
    by_pattern = {}
    for p in sorted(reach):
        f = P.fns[p]
        if not f.crate.startswith("searchlite") or is_test_or_bench(f):
            continue
        if any("derive" in m for m in f.macros):
            continue
        sites = panic_sites(P, f)
        if not sites:
            continue
        ctx.saw(f)
        for (site, tail, mac, t) in sites:
            n += 1
            fkey = re.sub(r"\{closure#\d+\}", "{closure}", f.short)
            reason = None
            if callee_of(t) in UNWRAPS:
                reason = discharge(P, f, site, t)
            if reason is None:
                reason = TABLE.get((fkey, tail, mac))
                if reason is not None:
                    reason = "table: " + reason
            by_pattern[(reason or "?")[:2]] = by_pattern.get((reason or "?")[:2], 0) + 1
            path = None
            if reason is None:
                cp = P.paths_to(S, lambda c: c == p) if p != S else [S]
                path = " -> ".join(x.split("::")[-1] for x in (cp or []))
            ctx.ob(rid, "%s:%s:%s%s" % (rid, fkey, tail, (":" + mac) if mac else ""), reason is not None,
                   "%s at %s discharged (%s)" % (tail, site.loc(), reason) if reason else
                   "%s%s at %s is reachable from IndexReader::search (%s) and is neither discharged by a local pattern nor in the "
                   "reasoned table: a request can panic the search" % (tail, ("!" + mac) if mac else "", site.loc(), path), site.loc())
    ctx.floor(rid, n, 20, "explicit panic sources reachable from search")
    ctx.note("R16.a discharge summary: %s" % by_pattern)


def r16b(ctx, P):
    rid = "R16.b"
    ctx.rule(rid, "ORDER: in IndexReader::search (and search_vector_only when present) the request validators — aggregation "
                  "validation (reaching validate_aggregations), SortPlan::from_request, decode_cursor (when a cursor is given), "
                  "build_query_plan, compile_score_node — dominate segment execution / aggregation pipeline construction, and "
                  "their failure arms return")
    for name in ("search", "search_vector_only"):
        f = P.fn(N.READER + "::" + name)
        if f is None:
            if name == "search":
                ctx.anchor(rid, None, "IndexReader::search")
            continue
        ctx.saw(f)
        pipe = [Site(f, b) for b, t in f.calls() if callee_of(t).endswith("AggregationPipeline::from_request")]
        segexec = [Site(f, b) for b, t in f.calls()
                   if callee_of(t).endswith(("IndexReader::search_segment", "IndexReader::scan_segment", "IndexReader::collect_vector_maps"))]
        valagg = [Site(f, b) for b, t in f.calls() if P.call_reaches(t, lambda c: c.endswith("reader::validate_aggregations"))
                  and callee_of(t).startswith("searchlite_core::api::reader::validate")]
        for ps in pipe:
            ok = any(f.dominates(v, ps) and in_arm(f, ps, outcome_arms(f, v)["ok"]) for v in valagg)
            ctx.ob(rid, "%s:%s:aggs-validated-before-pipeline" % (rid, name), ok,
                   "aggregations are validated (success arm) before the aggregation pipeline is built" if ok else
                   "AggregationPipeline::from_request at %s is not dominated by the success arm of aggregation validation" % ps.loc(), ps.loc())
        if name == "search":
            ctx.floor(rid + ".pipeline", len(pipe), 1, "AggregationPipeline::from_request in search")
            ctx.floor(rid + ".segexec", len(segexec), 1, "segment execution call in search")
            for vn in ("SortPlan::from_request", "build_query_plan", "compile_score_node"):
                vs = [Site(f, b) for b, t in f.calls() if callee_of(t).endswith(vn)]
                ok = bool(vs) and all(any(f.dominates(v, s) and in_arm(f, s, outcome_arms(f, v)["ok"]) for v in vs) for s in segexec)
                ctx.ob(rid, "%s:search:%s-before-segments" % (rid, vn.split("::")[-1]), ok,
                       "%s succeeds before any segment is executed" % vn if ok else
                       "%s does not dominate segment execution on its success arm" % vn, vs[0].loc() if vs else "%s:%s" % (f.file, f.line))
    # root-level pipeline kinds are rejected by the validator that R16.b keeps in front
    v = None
    srch = P.fn(N.READER + "::search")
    if srch is not None:
        for b, t in srch.calls():
            if P.call_reaches(t, lambda c: c.endswith("reader::validate_aggregations")) and \
                    callee_of(t).startswith("searchlite_core::api::reader::validate"):
                v = P.fn(callee_of(t))
    if ctx.anchor(rid, v, "aggregation validator called by search"):
        agg = P.adts.get("searchlite_core::api::types::Aggregation")
        fr = P.one("AggregationNode::<'a>::from_request")
        if agg and fr:
            names = [x["name"] for x in agg["variants"]]
            # variants whose arm in from_request panics
            panicking = set()
            for b in sorted(fr.reachable()):
                t = fr.blocks[b]["term"]
                if t["k"] == "switch" and len(t["values"]) >= len(names) - 2:
                    for val, tg in zip(t["values"], t["targets"]):
                        region = fr.dominated_region(tg) if len(set(fr.preds().get(tg, []))) == 1 else fr.reachable_from(tg)
                        if any(fr.blocks[x]["term"]["k"] == "call" and callee_of(fr.blocks[x]["term"]).startswith("core::panicking::")
                               and fr.blocks[x]["term"]["target"] is None for x in region) and len(region) < 6:
                            panicking.add(names[val])
            rejected = set()
            for b in sorted(v.reachable()):
                t = v.blocks[b]["term"]
                if t["k"] == "switch" and len(t["values"]) >= 2:
                    l = op_local(t["on"])
                    for d in v.defs().get(l, []):
                        if d["k"] == "assign" and d["rv"]["k"] == "discr":
                            for val, tg in zip(t["values"], t["targets"]):
                                # arm leads to an error return without reaching the recursive validator
                                reach = v.reachable_flag_sensitive(tg)
                                calls_rec = any(v.blocks[x]["term"]["k"] == "call" and callee_of(v.blocks[x]["term"]).endswith("reader::validate_aggregations") for x in reach)
                                if not calls_rec and val < len(names):
                                    rejected.add(names[val])
            miss = panicking - rejected
            ctx.ob(rid, "%s:root-pipeline-kinds-rejected" % rid, bool(panicking) and not miss,
                   "the %d aggregation kinds whose collector arm is unreachable!() (%s) are all rejected at the top level" % (len(panicking), sorted(panicking))
                   if panicking and not miss else
                   "aggregation kinds %s reach unreachable!() in AggregationNode::from_request but are not rejected at the top level" % sorted(miss or ["?"]),
                   "%s:%s" % (v.file, v.line))


def r16c(ctx, P):
    rid = "R16.c"
    ctx.rule(rid, "WHO: the front ends (CLI, HTTP, FFI) reach search execution only through IndexReader::search, so R16.a's entry "
                  "set is complete")
    inner = {N.READER + "::search_segment", N.READER + "::scan_segment", "searchlite_core::query::wand::execute_top_k_with_stats_and_mode_internal"}
    n = 0
    for p, f in P.fns.items():
        if f.crate in ("searchlite_cli", "searchlite_http", "searchlite_ffi") and not is_test_or_bench(f):
            for b, t in f.calls():
                cal = callee_of(t)
                if cal.startswith("searchlite_core::api::reader::IndexReader::") and f.kind != "closure" or cal.startswith("searchlite_core::api::reader::IndexReader::"):
                    n += 1
                    ok = cal in (N.READER + "::search", N.READER + "::open") or cal.endswith(("::manifest", "::segments"))
                    ctx.ob(rid, "%s:%s:%s" % (rid, f.short, cal.rsplit("::", 1)[1]), ok,
                           "%s calls %s" % (f.short, cal.rsplit("::", 2)[-2] + "::" + cal.rsplit("::", 1)[1]) if ok else
                           "%s calls %s directly (bypassing IndexReader::search)" % (f.short, cal), Site(f, b).loc())
                if cal in inner:
                    ctx.ob(rid, "%s:%s:bypass" % (rid, f.short), False, "%s calls %s directly" % (f.short, cal), Site(f, b).loc())
    ctx.floor(rid, n, 3, "front-end call sites of IndexReader::search")


def _float_cast_operands(f, idx_operand):
    """Operands of FloatToInt casts in the definition chain of an index operand."""
    out = []
    work = [op_local(idx_operand)]
    seen = set()
    while work:
        l = work.pop()
        if l is None or l in seen:
            continue
        seen.add(l)
        for d in f.defs().get(l, []):
            if d["k"] == "assign":
                rv = d["rv"]
                if rv["k"] == "cast" and rv["ck"] == "FloatToInt":
                    out.append(rv["a"])
                    continue
                for o in (rv.get("a"), rv.get("b")):
                    if isinstance(o, dict):
                        work.append(op_local(o))
                if rv["k"] == "agg":
                    for o in rv["ops"]:
                        work.append(op_local(o))
                if rv["k"] in ("ref",):
                    work.append(rv["place"]["l"])
    return out


def _bounded_float(P, f, operand, depth=0):
    """The float value is bounded above before the cast: its definition chain contains clamp()/min(), also through one or
    two levels of parameters (every caller passes a bounded value)."""
    sl = Slice(f, through_all_calls=True, opaque=lambda c: c.endswith(("::len", "::count")))
    srcs = sl.sources(operand)
    if any(x[0] == "call" and callee_of(x[2]).endswith(("::clamp", "::min")) for x in srcs):
        return True
    params = {x[1] for x in srcs if x[0] == "arg" and f.arg_ty(x[1]) in ("f64", "f32")}
    if not params or depth >= 2:
        return False
    callers = [(q, b) for (q, b, k) in P.callers().get(f.path, ()) if k == "call"]
    if not callers:
        return False
    for prm in params:
        for (q, b) in callers:
            g = P.fns.get(q)
            if g is None:
                return False
            t = g.blocks[b]["term"]
            if prm - 1 >= len(t["args"]) or not _bounded_float(P, g, t["args"][prm - 1], depth + 1):
                return False
    return True


def r16d(ctx, P):
    rid = "R16.d"
    ctx.rule(rid, "GUARD (targeted bounds rule): every slice / Vec index reachable from IndexReader::search whose value derives from a "
                  "float-to-integer cast (a position computed from request numbers such as percentiles) has its float bounded above by "
                  "clamp()/min() before the cast — locally or at every call site handing it in. Other compiler-inserted bounds checks "
                  "remain undecided")
    S, entries, reach = entry_set(P)
    n = 0
    for p in sorted(reach):
        f = P.fns[p]
        if f.crate != "searchlite_core" or is_test_or_bench(f):
            continue
        for b in sorted(f.reachable()):
            t = f.blocks[b]["term"]
            idx = None
            if t["k"] == "assert" and "BoundsCheck" in t["msg"]:
                m = re.search(r"index: (?:copy|move) _(\d+)", t["msg"])
                if m:
                    idx = {"cp": {"l": int(m.group(1)), "p": []}}
            elif t["k"] == "call" and callee_of(t).endswith(("Index<I>>::index", "IndexMut<I>>::index_mut")) and len(t["args"]) > 1:
                idx = t["args"][1]
            if idx is None:
                continue
            casts = _float_cast_operands(f, idx)
            if not casts:
                continue
            n += 1
            ctx.saw(f)
            ok = all(_bounded_float(P, f, c) for c in casts)
            ctx.ob(rid, "%s:%s:float-derived-index" % (rid, re.sub(r"\{closure#\d+\}", "{closure}", f.short)), ok,
                   "index at %s comes from a float that is clamped before the cast" % Site(f, b).loc() if ok else
                   "index at %s comes from a float-to-integer cast of an unbounded value: a request number outside the expected "
                   "range indexes past the end of the slice and panics" % Site(f, b).loc(), Site(f, b).loc())
    ctx.floor(rid, n, 3, "float-derived index sites reachable from search")


def _is_empty_literal(f, operand):
    """The operand is (a reference / unsized reference to) an array literal with no elements: `&[]`."""
    l = op_local(operand)
    seen = set()
    while l is not None and l not in seen:
        seen.add(l)
        dfs = [d for d in f.defs().get(l, []) if not d.get("partial")]
        if len(dfs) != 1 or dfs[0]["k"] != "assign":
            return False
        rv = dfs[0]["rv"]
        if rv["k"] == "agg" and rv.get("ak") == "array" and not rv["ops"]:
            return True
        if rv["k"] in ("use", "cast"):
            l = op_local(rv["a"])
        elif rv["k"] == "ref":
            l = rv["place"]["l"]
        else:
            return False
    return False


def _param_aliases(g, pi):
    al = {pi}
    ch = True
    while ch:
        ch = False
        for l, dfs in g.defs().items():
            if l in al:
                continue
            for d in dfs:
                if d["k"] == "assign" and not d.get("partial"):
                    rv = d["rv"]
                    if rv["k"] in ("use", "cast") and op_local(rv["a"]) in al:
                        al.add(l); ch = True
                    elif rv["k"] == "ref" and rv["place"]["l"] in al and all(e == "deref" for e in rv["place"]["p"]):
                        al.add(l); ch = True
                elif d["k"] == "call" and d["t"]["args"] and op_local(d["t"]["args"][0]) in al and \
                        callee_of(d["t"]).endswith(("Deref>::deref", "::as_slice", "::as_ref", "::borrow")):
                    al.add(l); ch = True
    return al


def _direct_index_sites(P, g, pi, depth=0, seen=None):
    """Sites (in g or in crate callees the parameter is handed to) that index parameter pi without a length test."""
    seen = seen if seen is not None else set()
    if (g.path, pi) in seen or depth > 4:
        return []
    seen.add((g.path, pi))
    al = _param_aliases(g, pi)
    sl = Slice(g)
    out = []

    def guarded(b):
        for (a, succ) in g.control_deps_transitive(b):
            t = g.blocks[a]["term"]
            if t["k"] != "switch":
                continue
            for x in sl.sources(t["on"]):
                if x[0] == "call" and callee_of(x[2]).endswith(("::len", "::is_empty")) and x[2]["args"] and op_local(x[2]["args"][0]) in al:
                    return True
                if x[0] == "other" and "PtrMetadata" in str(x[1]):
                    return True
        return False
    for b, i, st in g.stmts():
        if st["k"] != "assign":
            continue
        places = [st["dst"]]
        rv = st["rv"]
        if rv["k"] in ("ref", "discr"):
            places.append(rv["place"])
        elif rv["k"] in ("use", "cast"):
            pl = op_place(rv["a"])
            if pl:
                places.append(pl)
        for pl in places:
            if pl["l"] in al and any(isinstance(e, dict) and ("index" in e or "cindex" in e) for e in pl["p"]):
                if not guarded(b):
                    out.append(Site(g, b, i))
    for b, t in g.calls():
        cal = callee_of(t)
        if re.search(r"ops::index::Index(Mut)?(<[^>]*>)?>?::index(_mut)?$", cal) and t["args"] and op_local(t["args"][0]) in al:
            if not guarded(b):
                out.append(Site(g, b))
        elif cal in P.fns and P.fns[cal].crate.startswith("searchlite"):
            for k, a in enumerate(t["args"]):
                if op_local(a) in al:
                    out += _direct_index_sites(P, P.fns[cal], k + 1, depth + 1, seen)
    return out


def r16e(ctx, P):
    rid = "R16.e"
    ctx.rule(rid, "EMPTY BUFFERS: wherever code reachable from IndexReader::search passes an empty slice literal (`&[]`) to a function "
                  "of the workspace, that function — and every workspace function it hands the parameter on to — reads the parameter "
                  "only through checked accessors (get / iter / first / is_empty / len) or behind a length test: a direct index "
                  "(`p[i]`, Index::index) on such a parameter panics as soon as it is reached")
    S, entries, reach = entry_set(P)
    n = 0
    for q in sorted(reach):
        f = P.fns[q]
        if not f.crate.startswith("searchlite") or is_test_or_bench(f):
            continue
        for b, t in f.calls():
            cal = callee_of(t)
            if cal not in P.fns or not P.fns[cal].crate.startswith("searchlite"):
                continue
            for k, a in enumerate(t["args"]):
                if not _is_empty_literal(f, a):
                    continue
                n += 1
                ctx.saw(f)
                sites = _direct_index_sites(P, P.fns[cal], k + 1)
                g = P.fns[cal]
                pname = g.locals[k + 1].get("name") or "arg%d" % (k + 1)
                ctx.ob(rid, "%s:%s->%s:%s" % (rid, re.sub(r"\{closure#\d+\}", "{closure}", f.short), g.short.rsplit("::", 1)[-1], pname), not sites,
                       "`&[]` passed as `%s` to %s is only read through checked accessors" % (pname, g.short) if not sites else
                       "%s passes `&[]` as `%s` to %s at %s, and that parameter is indexed directly at %s: the request that takes this "
                       "path panics (index out of bounds)" % (f.short, pname, g.short, Site(f, b).loc(), sites[0].loc()),
                       sites[0].loc() if sites else Site(f, b).loc())
    ctx.floor(rid, n, 3, "empty slice literals passed to workspace functions on the search path")


THOROUGH_FEATURES = ['r16e']


def r16f(ctx, P):
    rid = "R16.f"
    import re
    from sa.rules import strsafe
    ctx.rule(rid, "WIDTH AGREEMENT (skipping a delimiter that was searched for): wherever code reachable from IndexReader::search slices "
                  "a string at `<index found by find / rfind / position / char_indices> + w`, the width w is that of what was found "
                  "THERE: a constant equal to the byte length of the constant pattern (1 for an ASCII char literal, len for a &str "
                  "literal), or len_utf8() of the character delivered by the same search. A width taken from another match, or a "
                  "constant next to a pattern that can match characters of several widths, lands inside a multi-byte character (or "
                  "past the end) for some input, and str indexing panics")
    S, entries, reach = entry_set(P)
    FIND = ("::find", "::rfind", "::position", "::rposition", "::char_indices", "::match_indices", "::find_map")
    n = 0
    for q in sorted(reach):
        f = P.fns.get(q)
        if f is None or f.crate != "searchlite_core" or is_test_or_bench(f):
            continue
        if f.kind != "closure" and strsafe.byte_offset_calls(f):
            f = P.inlined(q, depth=1, small=40) or f       # a `find the delimiter` helper is read in place
        for b, t, idxs in strsafe.byte_offset_calls(f):
            sl = Slice(f, through_all_calls=True)
            sl0 = Slice(f)
            for o in strsafe._leaf_offsets(f, sl0, t["args"][1]):
                l = op_local(o) if isinstance(o, dict) else None
                if l is None:
                    continue
                # definition chain: find the Add that forms the offset
                adds = [x for x in sl0.sources(o) if x[0] == "binop" and x[1] in ("Add", "AddWithOverflow")]
                for x in adds:
                    st = f.blocks[x[2]]["stmts"][x[3]]
                    a_, b_ = st["rv"]["a"], st["rv"]["b"]
                    for idx_op, w_op in ((a_, b_), (b_, a_)):
                        finds = [y for y in sl.sources(idx_op) if y[0] == "call" and callee_of(y[2]).endswith(FIND) and "str" in callee_of(y[2]) + f.local_ty(op_local(y[2]["args"][0]) or 0)]
                        if not finds:
                            continue
                        wc = op_const(w_op)
                        w_finds = [y for y in sl.sources(w_op) if y[0] == "call" and callee_of(y[2]).endswith(FIND)]
                        w_src = sl.sources(w_op)
                        utf8_in_closure = any(y[0] == "agg" and y[3].get("closure") and P.fn(y[3]["closure"]) is not None and
                                              any(callee_of(t_).endswith("::len_utf8") for b_, t_ in P.fn(y[3]["closure"]).calls()) for y in w_src)
                        if wc is None and not utf8_in_closure and not any(y[0] == "call" and callee_of(y[2]).endswith("::len_utf8") for y in w_src) and \
                                not any(y[0] == "call" and callee_of(y[2]).endswith("::len") for y in w_src):
                            continue        # not a width (some other arithmetic): other rules
                        n += 1
                        ctx.saw(f)
                        ok, why = False, ""
                        fy = finds[0][2]
                        pat = fy["args"][1] if len(fy["args"]) > 1 else None
                        pc = op_const(pat) if pat is not None else None
                        if wc is not None and wc.get("int") is not None:
                            k = wc["int"]
                            if pc is not None and "char" in str(pc.get("ty", "")) and pc.get("int") is not None and pc["int"] < 128 and k == 1:
                                ok = True
                            elif pc is not None and const_strlen(pc) is not None and const_strlen(pc) == k:
                                ok = True
                            else:
                                why = "a constant width %d next to a pattern that is not a constant of that byte length" % k
                        else:
                            def origin(o_):
                                """block of the search call whose result the operand is (through copies, payload projections, inlined
                                returns and Option adapters) — a definition chain, not a slice, so loop-carried values do not blur it"""
                                l_ = op_local(o_)
                                seen_ = set()
                                while l_ is not None and l_ not in seen_:
                                    seen_.add(l_)
                                    dd = [d for d in f.defs().get(l_, []) if not d.get("partial")]
                                    if len(dd) != 1:
                                        return None
                                    d = dd[0]
                                    if d["k"] == "call":
                                        c_ = callee_of(d["t"])
                                        if c_.endswith(FIND) or c_.endswith("Iterator>::next"):
                                            return d["b"]
                                        if c_.endswith(("Option::<T>::map", "::unwrap", "::unwrap_or", "::expect", "::ok_or", "::ok_or_else", "::copied", "::cloned",
                                                        "::len_utf8")) and d["t"]["args"]:
                                            l_ = op_local(d["t"]["args"][0])
                                            continue
                                        return None
                                    rv_ = d["rv"]
                                    if rv_["k"] in ("use", "cast"):
                                        pl_ = op_place(rv_["a"])
                                        l_ = pl_["l"] if pl_ else None
                                        continue
                                    if rv_["k"] == "ref":
                                        l_ = rv_["place"]["l"]
                                        continue
                                    return None
                                return None
                            oi, ow = origin(idx_op), origin(w_op)
                            same = oi is not None and oi == ow
                            lens = any(y[0] == "call" and callee_of(y[2]).endswith("::len") for y in sl.sources(w_op))
                            if same or (lens and pat is not None and (sl0.locals(w_op) & sl0.locals(pat) or
                                                                      {l_ for l_ in sl.locals(w_op) if f.locals[l_].get("name")} & {l_ for l_ in sl.locals(pat) if f.locals[l_].get("name")})):
                                ok = True
                            else:
                                why = "a width that does not come from the match it is added to (another search's character, or an unrelated length)"
                        ctx.ob(rid, "%s:%s:delimiter-width" % (rid, f.short.rsplit("::", 1)[-1]), ok,
                               "the offset at %s skips exactly what was found" % Site(f, b).loc() if ok else
                               "the string offset at %s is `found index + w` with %s: for some input it is not a char boundary (or lies past "
                               "the end) and the slice panics" % (Site(f, b).loc(), why), Site(f, b).loc())
    ctx.floor(rid, n, 2, "delimiter-skipping string offsets reachable from search (query-string parser)")


def const_strlen(c):
    import re
    m = re.match(r'^(?:const )?"(.*)"$', c.get("txt", "") if c else "")
    if not m:
        return None
    try:
        return len(m.group(1).encode("utf-8").decode("unicode_escape").encode("latin-1", "ignore")) if "\\" in m.group(1) else len(m.group(1).encode("utf-8"))
    except Exception:
        return len(m.group(1).encode("utf-8"))


def run(ctx, progs):
    P = progs.get("default")
    r16f(ctx, P)
    r16a(ctx, P)
    r16e(ctx, P)
    r16d(ctx, P)
    r16b(ctx, P)
    r16c(ctx, P)
    if ctx.tier == "thorough":
        ctx.config = "features"
        Pf = progs.get("features")
        r16a(ctx, Pf)
        r16b(ctx, Pf)
        ctx.config = "default"
        # classify: which explicit sources exist only with debug assertions
        ctx.config = "release"
        Pr = progs.get("release")
        S, entries, reach = entry_set(Pr)
        cnt = 0
        for p in reach:
            f = Pr.fns[p]
            if f.crate.startswith("searchlite") and not is_test_or_bench(f):
                cnt += len(panic_sites(Pr, f))
        ctx.note("release-like profile (debug assertions off): %d explicit panic sources reachable from search" % cnt)
        ctx.config = "default"
    ctx.assumptions += ["compiler-inserted checks (bounds, overflow, division), std-internal panics (RefCell borrow, slice::copy_from_slice), "
                        "allocation failure, stack depth and termination are outside this rule",
                        "the call graph resolves trait calls through Instance::try_resolve and fans dyn/generic trait calls out to all impls "
                        "in the workspace; calls through function pointers stored in data are followed from the constructing function"]
