"""C17 — corrupted index files are detected (partial)."""
import re
from sa import names as N
from sa.prog import (Site, Slice, TERM, callee_of, op_local, op_place, op_const, place_fields, ok_sites, outcome_arms, in_arm)
from sa.rules.common import is_test_or_bench

EXPLANATION = ("Decides the structural clauses detection rests on: the segment file table agrees in four places (written+fsynced, "
               "hashed at commit, compared at open, removed at cleanup) with matching checksum names; the checksum comparison "
               "dominates every other read of segment content at open and its failure is an error; the fast-field type-code "
               "tables of writer and reader are inverse and exhaustive; every file read on the open path is integrity-checked "
               "before it is trusted (the manifest is not: known finding); and the parsers that run before any checksum "
               "(log replay, varint) contain no unreasoned panic source. Does not decide that CRC32 detects every alteration.")

SEGPATHS = "searchlite_core::index::manifest::SegmentPaths"
SEGW_STREAM = "searchlite_core::index::segment::SegmentWriter::<'a>::write_segment_stream"
COLLECT = "searchlite_core::index::segment::collect_checksums"
VERIFY = "searchlite_core::index::segment::verify_checksums"
SEG_OPEN = N.SEGR + "::open"
FT = "searchlite_core::index::fastfields::FieldType"


def const_str(c):
    if c is None:
        return None
    m = re.match(r'^(?:const )?"(.*)"$', c.get("txt", ""))
    return m.group(1) if m else None


def seg_path_fields(P):
    adt = P.adts.get(SEGPATHS)
    if adt is None:
        return None
    return [f[0] for f in adt["variants"][0]["fields"] if f[1] == "alloc::string::String"]


def _table_rows(fn0, sl, fset):
    """[(SegmentPaths field, key constant, loc)] when fn0 looks its checksums up with the element of a row tuple: the rows are the
    tuple aggregates of that arity, the key position is the tuple element that flows into `get`."""
    pos = None
    for b, t in fn0.calls():
        if not re.search(r"Map(<[^>]*>|::<[^>]*>)::get$", callee_of(t)) or len(t["args"]) < 2:
            continue
        l = op_local(t["args"][1])
        seen = set()
        while l is not None and l not in seen:
            seen.add(l)
            dd = [d for d in fn0.defs().get(l, []) if d["k"] == "assign"]
            if len(dd) != 1:
                break
            rv = dd[0]["rv"]
            pl = op_place(rv["a"]) if rv["k"] in ("use", "cast") else (rv.get("place") if rv["k"] == "ref" else None)
            if pl is None:
                break
            digits = [e["f"] for e in pl["p"] if isinstance(e, dict) and "f" in e and str(e["f"]).isdigit()]
            if pl["p"] and isinstance(pl["p"][-1], dict) and str(pl["p"][-1].get("f", "")).isdigit() and "(" in fn0.local_ty(pl["l"]):
                pos = int(pl["p"][-1]["f"])
                break
            l = pl["l"]
    if pos is None:
        return None
    rows = []
    for b, i, st in fn0.stmts():
        if st["k"] == "assign" and st["rv"]["k"] == "agg" and st["rv"].get("ak") == "tuple" and len(st["rv"]["ops"]) > pos and len(st["rv"]["ops"]) >= 3:
            key = None
            for c in sl.consts(st["rv"]["ops"][pos]):
                key = key or const_str(c)
            fl = set()
            for j, o in enumerate(st["rv"]["ops"]):
                if j != pos:
                    fl |= sl.fields(o) & fset
            if key and len(fl) == 1:
                rows.append((list(fl)[0], key, Site(fn0, b, i).loc()))
    return rows if len(rows) >= 4 else None


def r17a(ctx, P):
    rid = "R17.a"
    ctx.rule(rid, "AGREE: for the String fields of SegmentPaths: {fields written through a call reaching Storage::open_write in the "
                  "segment writer} = {fields hashed by collect_checksums} = {fields compared by verify_checksums} = {fields "
                  "removed by cleanup_segments}, and the checksum names used by collect and verify agree per field")
    fields = seg_path_fields(P)
    w = P.fn(SEGW_STREAM)
    col = P.fn(COLLECT)
    ver = P.fn(VERIFY)
    cl = P.fn(N.CLEANUP)
    if not (ctx.anchor(rid, fields, "SegmentPaths struct") and ctx.anchor(rid, w, "segment writer") and
            ctx.anchor(rid, col, "collect_checksums") and ctx.anchor(rid, ver, "verify_checksums") and
            ctx.anchor(rid, cl, "cleanup_segments")):
        return
    for f in (w, col, ver, cl):
        ctx.saw(f)
    fset = set(fields)
    # (1) written
    written = {}
    slw = Slice(w, through_all_calls=True)
    for b, t in w.calls():
        if P.call_reaches(t, N.any_of({N.S_OPEN_WRITE, N.S_WRITE_ALL})) or t["callee"] in (N.S_OPEN_WRITE, N.S_WRITE_ALL):
            for a in t["args"]:
                for fl in (slw.fields(a) & fset):
                    written.setdefault(fl, Site(w, b).loc())
    # (2)/(3) hashed and compared.  Form-independent: in each of collect_checksums / verify_checksums (private helpers of the file
    # spliced in, closures included) F = the SegmentPaths fields that are read, K = the string constants that reach the KEY of the
    # checksum map (insert / collected pair in collect, `get` in verify).  Per-field names are reported when the literal tuple form
    # makes them visible; otherwise the key sets must be equal.
    def views(fn0):
        v = P.inlined(fn0.path)
        return [v] + P.closures_of(fn0) + [c for q in getattr(v, "inlined", []) if P.fn(q) is not None for c in P.closures_of(P.fn(q))]

    def fields_read(fn0):
        out = {}
        for g in views(fn0):
            for b_, i_, st_ in g.stmts():
                if st_["k"] != "assign":
                    continue
                rv_ = st_["rv"]
                pl_ = rv_.get("place") if rv_["k"] in ("ref", "discr") else (op_place(rv_["a"]) if rv_["k"] in ("use", "cast") else None)
                if pl_:
                    for x in set(place_fields(pl_)) & fset:
                        out.setdefault(x, Site(g, b_, i_).loc())
        return out

    def key_consts(fn0, how):
        out = set()
        for g in views(fn0):
            sg = Slice(g, through_all_calls=True, into_containers=True)
            for b_, t_ in g.calls():
                cal_ = callee_of(t_)
                if how == "get" and re.search(r"Map(<[^>]*>|::<[^>]*>)::get$", cal_) and len(t_["args"]) > 1:
                    for c in sg.consts(t_["args"][1]):
                        if const_str(c):
                            out.add(const_str(c))
                if how == "insert" and re.search(r"Map(<[^>]*>|::<[^>]*>)::insert$", cal_) and len(t_["args"]) > 2:
                    for c in sg.consts(t_["args"][1]):
                        if const_str(c):
                            out.add(const_str(c))
            if how == "insert":
                # pairs collected into the map: `(key.to_string(), checksum(..))` tuples
                for b_, i_, st_ in g.stmts():
                    if st_["k"] == "assign" and st_["rv"]["k"] == "agg" and st_["rv"].get("ak") == "tuple" and len(st_["rv"]["ops"]) == 2 and \
                            "String" in g.local_ty(op_local(st_["rv"]["ops"][0]) or 0) and "u32" in g.local_ty(op_local(st_["rv"]["ops"][1]) or 0):
                        for c in sg.consts(st_["rv"]["ops"][0]):
                            if const_str(c):
                                out.add(const_str(c))
        return out
    F_c, F_v = fields_read(col), fields_read(ver)
    K_c, K_v = key_consts(col, "insert"), key_consts(ver, "get")
    hashed = {}
    slc = Slice(col)
    for b, i, s in col.stmts():
        if s["k"] == "assign" and s["rv"]["k"] == "agg" and s["rv"].get("ak") == "tuple" and len(s["rv"]["ops"]) == 2:
            nm = None
            for c in slc.consts(s["rv"]["ops"][0]):
                nm = nm or const_str(c)
            fl = slc.fields(s["rv"]["ops"][1]) & fset
            if len(fl) == 1:
                hashed[list(fl)[0]] = (nm, Site(col, b, i).loc())
    compared = {}
    slv = Slice(ver, through_all_calls=True)
    for b, t in ver.calls():
        cal = callee_of(t)
        if not cal.startswith(VERIFY + "::{closure"):
            continue
        tup = None
        for x in slv.sources(t["args"][1]):
            if x[0] == "agg" and x[3].get("ak") == "tuple" and len(x[3]["ops"]) == 4:
                tup = x[3]
        if tup is None:
            continue
        fl = slv.fields(tup["ops"][1]) & fset
        nm = None
        for x in slv.sources(tup["ops"][2]):
            if x[0] == "call" and callee_of(x[2]).endswith("::get"):
                for c in slv.consts(x[2]["args"][1]):
                    nm = nm or const_str(c)
        if len(fl) == 1:
            compared[list(fl)[0]] = (nm, Site(ver, b).loc())
    if len(hashed) < 5 or not K_c:
        # collect side taking its (key, path) rows from a table: 2-tuples of one string constant and one SegmentPaths field
        rows_c = []
        for g_ in views(col):
            sg_ = Slice(g_, through_all_calls=True)
            for b_, i_, st_ in g_.stmts():
                if st_["k"] == "assign" and st_["rv"]["k"] == "agg" and st_["rv"].get("ak") == "tuple" and len(st_["rv"]["ops"]) == 2:
                    ks_ = [const_str(c) for o in st_["rv"]["ops"] for c in ([op_const(o)] if op_const(o) else []) if const_str(c)]
                    fl_ = set()
                    for o in st_["rv"]["ops"]:
                        if op_const(o) is None:
                            fl_ |= sg_.fields(o) & fset
                    if len(ks_) == 1 and len(fl_) == 1:
                        rows_c.append((list(fl_)[0], ks_[0], Site(g_, b_, i_).loc()))
        if len(rows_c) >= 5:
            hashed = {fl_: (k_, loc_) for fl_, k_, loc_ in rows_c}
            K_c = {k_ for _, k_, _ in rows_c}
    if len(compared) < 4:
        # table form: `for (label, file, key, bytes) in [(..), ..] { verify(label, file, checksums.get(key), bytes) }` — the position
        # of the key inside a row is the tuple element that reaches the `get`; labels in other positions are not keys
        rows_v = _table_rows(ver, slv, fset)
        if rows_v is not None:
            compared = {fl_: (k_, loc_) for fl_, k_, loc_ in rows_v}
            K_v = {k_ for _, k_, _ in rows_v}
    literal_form = len(hashed) >= 5 and len(compared) >= 4
    if not literal_form:
        hashed = {fl_: ("<set>", loc) for fl_, loc in F_c.items()}
        compared = {fl_: ("<set>", loc) for fl_, loc in F_v.items()}
        # `meta` is verified from the bytes SegmentReader::open already holds: it is compared without being read by path again
        if "meta" in F_c and "meta" not in F_v and "meta" in K_v:
            compared["meta"] = ("<set>", F_c["meta"])
    keys_agree = K_c == K_v and len(K_c) >= 5
    if not keys_agree:
        # both sides take their (key, path) rows from one table function of the file: the keys agree by construction
        vc, vv = P.inlined(col.path), P.inlined(ver.path)
        shared = set(getattr(vc, "inlined", [])) & set(getattr(vv, "inlined", []))
        for q in sorted(shared):
            tf = P.fn(q)
            if tf is None:
                continue
            reads_fields = any(st_["k"] == "assign" and st_["rv"]["k"] == "ref" and set(place_fields(st_["rv"]["place"])) & fset for _b, _i, st_ in tf.stmts())
            n_consts = sum(1 for _b, _i, st_ in tf.stmts() if st_["k"] == "assign" and st_["rv"]["k"] in ("use", "cast") and const_str(op_const(st_["rv"]["a"]) or {}))
            n_consts += sum(1 for _b, _i, st_ in tf.stmts() if st_["k"] == "assign" and st_["rv"]["k"] == "agg" for o in st_["rv"]["ops"] if const_str(op_const(o) or {}))
            if reads_fields and n_consts >= 5:
                keys_agree = True
                ctx.note("R17.a: collect_checksums and verify_checksums both take their rows from %s: checksum keys agree by construction" % tf.short)
    # (4) removed
    removed = {}
    # cleanup_segments itself, its closures, and private helpers of the same file it calls (a per-segment `remove_files` helper)
    cl_scope = [cl] + P.closures_of(cl)
    for q_ in sorted(P.reach(cl.path)):
        h_ = P.fns.get(q_)
        if h_ is not None and h_.file == cl.file and h_.vis != "Public" and h_ not in cl_scope:
            cl_scope.append(h_)
            cl_scope += [c_ for c_ in P.closures_of(h_) if c_ not in cl_scope]
    for g in cl_scope:
        for b, i, s in g.stmts():
            if s["k"] == "assign" and s["rv"]["k"] == "ref":
                fl = set(place_fields(s["rv"]["place"])) & fset
                for x in fl:
                    removed.setdefault(x, Site(g, b, i).loc())
    has_remove = any(t["callee"] == N.S_REMOVE for g in cl_scope for b, t in g.calls())
    ctx.floor(rid, min(len(written), len(hashed), len(compared), len(removed)), 5, "SegmentPaths fields bound in each of the four places")
    for fl in fields:
        parts = {"written": fl in written, "hashed": fl in hashed, "compared": fl in compared, "removed": fl in removed and has_remove}
        if literal_form:
            names_ok = fl in hashed and fl in compared and hashed[fl][0] is not None and hashed[fl][0] == compared[fl][0]
        else:
            names_ok = keys_agree
        ok = all(parts.values()) and names_ok
        ctx.ob(rid, "%s:SegmentPaths.%s" % (rid, fl), ok,
               "segment file `%s`: written, hashed as '%s', compared as '%s', removed" % (fl, hashed[fl][0], compared[fl][0]) if ok else
               "segment file `%s` is not handled consistently: %s%s" % (
                   fl, {k: v for k, v in parts.items()},
                   "" if names_ok or fl not in hashed or fl not in compared else
                   (" (checksum name '%s' at commit vs '%s' at open)" % (hashed[fl][0], compared[fl][0]) if literal_form and hashed[fl][0] and compared[fl][0] else
                    (" (checksum keys written at commit %s vs looked up at open %s)" % (sorted(K_c), sorted(K_v)) if not literal_form else
                     " (the checksum key is not a constant label: a key derived from the segment path stops matching once the index is "
                     "opened under another directory, and verification is then silently skipped)"))),
               (compared.get(fl) or hashed.get(fl) or (None, None))[1] or written.get(fl))
    # the comparison itself: the verify closure compares checksum(bytes) with the expected value and fails on mismatch
    for c in P.closures_of(ver, recursive=False):
        sl = Slice(c, through_all_calls=True)
        cmp_ok = False
        why = "verify_checksums' closure no longer compares a computed checksum with the expected value"
        for b in sorted(c.reachable()):
            t = c.blocks[b]["term"]
            if t["k"] != "switch":
                continue
            l = op_local(t["on"])
            dfs = c.defs().get(l, [])
            if len(dfs) != 1 or dfs[0]["k"] != "assign" or dfs[0]["rv"]["k"] != "binop" or dfs[0]["rv"]["op"] not in ("Ne", "Eq"):
                continue
            srcs = sl.sources(t["on"])
            if not any(x[0] == "call" and callee_of(x[2]).endswith("util::checksum::checksum") for x in srcs):
                continue
            vals = dict(zip(t["values"], t["targets"]))
            ne = dfs[0]["rv"]["op"] == "Ne"
            mismatch = (t["otherwise"] if 0 in vals else vals.get(1)) if ne else vals.get(0, t["otherwise"])
            reach = c.reachable_from(mismatch)
            leaks = [o for o in ok_sites(c) if o.b in reach]
            if leaks:
                why = "a checksum mismatch at %s can still reach the success return at %s" % (Site(c, b).loc(), leaks[0].loc())
            else:
                cmp_ok = True
        ctx.ob(rid, "%s:verify_checksums:mismatch-is-error" % rid, cmp_ok,
               "verify compares checksum(file bytes) with the manifest value and every mismatch path returns an error" if cmp_ok else why,
               "%s:%s" % (c.file, c.line))


def r17b(ctx, P):
    rid = "R17.b"
    ctx.rule(rid, "ORDER: in SegmentReader::open the verify_checksums call dominates every other read of segment content "
                  "(read_terms, Storage::open_read, FastFieldsReader::open, vector reads) and those reads lie on its success arm")
    f = P.fn(SEG_OPEN)
    if not ctx.anchor(rid, f, "SegmentReader::open"):
        return
    ctx.saw(f)
    vs = [Site(f, b) for b, t in f.calls() if callee_of(t) == VERIFY]
    ctx.floor(rid + ".verify", len(vs), 1, "verify_checksums call in SegmentReader::open")
    n = 0
    sl = Slice(f)
    for b, t in f.calls():
        cal = callee_of(t)
        if cal == VERIFY:
            continue
        reads = t["callee"] in (N.S_OPEN_READ, N.S_READ_TO_END) or P.call_reaches(t, N.any_of({N.S_OPEN_READ, N.S_READ_TO_END}))
        if not reads:
            continue
        s = Site(f, b)
        n += 1
        pre = any(f.dominates(v, s) and in_arm(f, s, outcome_arms(f, v)["ok"]) for v in vs)
        # the meta read feeds verify itself (its bytes are the 4th argument of verify_checksums)
        feeds = False
        if not pre:
            for v in vs:
                vt = f.blocks[v.b]["term"]
                for a in vt["args"]:
                    if any(cb == b for (cb, _ct) in sl.calls(a)):
                        feeds = True
        ctx.ob(rid, "%s:SegmentReader::open:%s" % (rid, _short(cal) + ("(%s)" % ",".join(sorted(sl.fields(t["args"][-1]) & set(seg_path_fields(P) or []))))), pre or feeds,
               ("%s at %s happens after checksum verification succeeded" % (_short(cal), s.loc())) if pre else
               ("%s at %s reads the bytes that verify_checksums itself checks" % (_short(cal), s.loc())) if feeds else
               "%s at %s reads segment content before (or without) checksum verification" % (_short(cal), s.loc()), s.loc())
    ctx.floor(rid, n, 5, "content reads in SegmentReader::open")


def _short(c):
    from sa.prog import short_path
    return short_path(c)


def _follow_goto(f, b):
    seen = set()
    while b not in seen:
        seen.add(b)
        blk = f.blocks[b]
        if blk["stmts"] or blk["term"]["k"] != "goto":
            return b
        b = blk["term"]["target"]
    return b


def r17c(ctx, P):
    rid = "R17.c"
    ctx.rule(rid, "AGREE: FieldType::as_u8 and FieldType::from_u8 are inverse on all variants; write_field has an arm for every "
                  "ColumnBuilder variant writing the FieldType of the same name, read_fields an arm for every FieldType variant "
                  "building the Column of the same name")
    adt = P.adts.get(FT)
    a = P.fn(FT + "::as_u8")
    fr = P.fn(FT + "::from_u8")
    if not (ctx.anchor(rid, adt, "FieldType enum") and ctx.anchor(rid, a, "FieldType::as_u8") and ctx.anchor(rid, fr, "FieldType::from_u8")):
        return
    ctx.saw(a)
    ctx.saw(fr)
    names = [v["name"] for v in adt["variants"]]
    enc = {}
    t = a.blocks[0]["term"]
    if t["k"] == "switch":
        for v, tg in zip(t["values"], t["targets"]):
            b = _follow_goto(a, tg)
            for s in a.blocks[b]["stmts"]:
                if s["k"] == "assign" and s["dst"]["l"] == 0 and s["rv"]["k"] == "use" and op_const(s["rv"]["a"]) is not None:
                    enc[names[v]] = op_const(s["rv"]["a"]).get("int")
    dec = {}
    t = fr.blocks[0]["term"]
    if t["k"] == "switch":
        for v, tg in zip(t["values"], t["targets"]):
            b = _follow_goto(fr, tg)
            for s in fr.blocks[b]["stmts"]:
                if s["k"] == "assign" and s["rv"]["k"] == "agg" and s["rv"].get("adt") == FT:
                    dec[v] = s["rv"]["variant"]
    ctx.floor(rid, min(len(enc), len(dec)), len(names), "FieldType code table entries")
    for nme in names:
        code = enc.get(nme)
        ok = code is not None and dec.get(code) == nme
        ctx.ob(rid, "%s:FieldType::%s:code" % (rid, nme), ok,
               "FieldType::%s <-> %s in both directions" % (nme, code) if ok else
               "FieldType::%s is written as %s but %s decodes to %s" % (nme, code, code, dec.get(code)),
               "%s:%s" % (a.file, a.line))
    dup = len(set(enc.values())) != len(enc)
    ctx.ob(rid, "%s:FieldType:codes-distinct" % rid, not dup, "type codes are pairwise distinct" if not dup else "two FieldType variants share a code",
           "%s:%s" % (a.file, a.line))
    # writer / reader arms
    wf = P.fn("searchlite_core::index::fastfields::write_field")
    rf = P.fn("searchlite_core::index::fastfields::read_fields")
    cb = P.adts.get("searchlite_core::index::fastfields::ColumnBuilder")
    col = P.adts.get("searchlite_core::index::fastfields::Column")
    if ctx.anchor(rid, wf, "fastfields::write_field") and ctx.anchor(rid, cb, "ColumnBuilder enum"):
        ctx.saw(wf)
        _arms(ctx, rid, P, wf, cb, "searchlite_core::index::fastfields::ColumnBuilder", FT, "write_field")
    if ctx.anchor(rid, rf, "fastfields::read_fields") and ctx.anchor(rid, col, "Column enum"):
        ctx.saw(rf)
        _arms(ctx, rid, P, rf, adt, FT, "searchlite_core::index::fastfields::Column", "read_fields")


def _arms(ctx, rid, P, f, adt, on_ty, built_ty, label):
    names = [v["name"] for v in adt["variants"]]
    found = None
    for b in sorted(f.reachable()):
        t = f.blocks[b]["term"]
        if t["k"] != "switch" or len(t["values"]) < len(names) - 1:
            continue
        l = op_local(t["on"])
        for df in f.defs().get(l, []):
            if df["k"] == "assign" and df["rv"]["k"] == "discr":
                pl = df["rv"]["place"]
                ty = f.local_ty(pl["l"])
                if on_ty in ty:
                    found = (b, t)
    if found is None:
        ctx.ob(rid, "%s:%s:match" % (rid, label), False, "%s has no exhaustive match on %s" % (label, on_ty), "%s:%s" % (f.file, f.line))
        return
    b, t = found
    vals = dict(zip(t["values"], t["targets"]))
    for vi, nme in enumerate(names):
        tg = vals.get(vi, t["otherwise"])
        region = f.dominated_region(tg) if tg not in f._dead else set()
        built = set()
        for rb in region:
            for s in f.blocks[rb]["stmts"]:
                if s["k"] == "assign" and s["rv"]["k"] == "agg" and s["rv"].get("adt") == built_ty:
                    built.add(s["rv"]["variant"])
        ok = built == {nme}
        ctx.ob(rid, "%s:%s:arm:%s" % (rid, label, nme), ok,
               "%s arm %s handles %s::%s" % (label, nme, built_ty.rsplit("::", 1)[1], nme) if ok else
               "%s arm for %s builds %s (expected exactly %s)" % (label, nme, sorted(built), nme), Site(f, b).loc())


def r17d(ctx, P):
    rid = "R17.d"
    ctx.rule(rid, "FLOW: every Storage::read_to_end / open_read reachable from Index::open_with_storage, IndexReader::open or the log "
                  "recovery is integrity-checked before it is trusted: the bytes reach a checksum computation in the same function "
                  "(verified-here), or the read is a segment-content read dominated by verify_checksums (R17.b), or it is the "
                  "record-wise CRC-checked log")
    roots = [N.INDEX + "::open_with_storage", N.READER + "::open", N.WAL + "::recover"]
    fns = set()
    for r in roots:
        if not ctx.anchor(rid, P.fn(r), r):
            return
        fns.add(r)
        fns |= {q for q in P.reach(r) if q in P.fns}
    seg_fields = set(seg_path_fields(P) or [])
    n = 0
    for p in sorted(fns):
        f = P.fns[p]
        if f.crate != "searchlite_core" or f.impl_trait == N.STOR or is_test_or_bench(f):
            continue
        if f.kind != "closure":
            f = P.inlined(p)          # checksum helpers of the same file are spliced in
        reads = [(b, t) for b, t in f.calls() if t["callee"] in (N.S_READ_TO_END, N.S_OPEN_READ)]
        if not reads:
            continue
        ctx.saw(f)
        sl = Slice(f, through_all_calls=True)
        for b, t in reads:
            n += 1
            site = Site(f, b)
            how = None
            # verified-here: some checksum/crc call in this function (or a callee it passes the bytes to) consumes the bytes
            for b2, t2 in f.calls():
                c2 = callee_of(t2)
                if c2.endswith("util::checksum::checksum") or c2 == "crc32fast::Hasher::update" or c2 == VERIFY:
                    for a in t2["args"]:
                        if any(cb == b for (cb, _ct) in sl.calls(a)):
                            how = "bytes reach %s at %s" % (_short(c2), Site(f, b2).loc())
            root = f
            while root.kind == "closure" and root.parent and P.fn(root.parent):
                root = P.fn(root.parent)
            if how is None and root.path == SEG_OPEN:
                how = "segment content read in SegmentReader::open, ordered after verify_checksums (R17.b)"
            if how is None and root.path in ("searchlite_core::index::terms::read_terms",
                                             "searchlite_core::index::fastfields::FastFieldsReader::open",
                                             "searchlite_core::index::segment::read_vector_file"):
                # only called from SegmentReader::open after verification?
                callers = {c for (c, _b, k) in P.callers().get(root.path, ()) if k == "call" and not is_test_or_bench(P.fns[c])}
                if callers and callers <= {SEG_OPEN}:
                    how = "called only from SegmentReader::open, after verify_checksums (R17.b)"
            key = "%s:%s:%s" % (rid, root.short, _short(t["callee"]).rsplit("::", 1)[1])
            ctx.ob(rid, key, how is not None,
                   "read at %s: %s" % (site.loc(), how) if how else
                   "bytes read at %s go to a parser without any integrity check: an altered byte silently changes what the "
                   "index contains" % site.loc(), site.loc())
    ctx.floor(rid, n, 6, "file reads on the open / recovery path")


# Reasoned table for R17.e: (function suffix, kind) -> reason.  kind = assert message head or `index` for slice indexing calls.
PANIC_TABLE = {
    ("index::wal::Wal::replay_prefix", "Overflow(Add"):
        "cursor < data.len() <= isize::MAX by the loop guard; len_bytes is an index into the slice read_u64 was given; +1 likewise",
    ("index::wal::Wal::replay_prefix", "index"):
        "data[cursor..] / data[cursor] are guarded by `cursor < data.len()` (loop condition and the explicit `cursor >= data.len()` "
        "break); data[cursor..payload_end] and data[cursor..checksum_end] by `checksum_end > data.len()` break with "
        "cursor <= payload_end <= checksum_end from checked_add",
    ("util::varint::read_u64", "Overflow(Add"):
        "i is an enumerate index < buf.len() <= isize::MAX; shift += 7 runs only after the `shift >= 64` exit, so shift <= 70",
}


def r17e(ctx, P):
    rid = "R17.e"
    ctx.rule(rid, "PANIC: the parsers that run before any checksum (log replay, varint::read_u64) contain no compiler-inserted "
                  "overflow/bounds assertion, slice-index call or explicit panic outside the reasoned table; a shift is accepted "
                  "only when dominated by a bound test on the shift amount that exits")
    from sa.rules.C02 import find_replay
    rep = find_replay(P)
    rv = P.fn("searchlite_core::util::varint::read_u64")
    if not (ctx.anchor(rid, rep, "wal replay") and ctx.anchor(rid, rv, "varint::read_u64")):
        return
    n = 0
    for f in (rep, rv):
        ctx.saw(f)
        sl = Slice(f)
        for b in sorted(f.reachable()):
            t = f.blocks[b]["term"]
            kind = None
            if t["k"] == "assert":
                kind = t["msg"].split(",")[0]
            elif t["k"] == "call":
                cal = callee_of(t)
                if cal.endswith("core::ops::index::Index<I>>::index") or cal.endswith("::index_mut"):
                    kind = "index"
                elif cal.startswith("core::panicking::") or cal.endswith(("::unwrap", "::expect")) and "Option" in cal + "Result":
                    kind = "explicit:" + cal.rsplit("::", 1)[1]
            if kind is None:
                continue
            n += 1
            site = Site(f, b)
            ok = False
            why = None
            if kind.startswith("Overflow(Shl") or kind.startswith("Overflow(Shr"):
                # need a dominating comparison of the shift amount against a constant whose failing arm leaves
                shift_local = None
                m = re.search(r"copy _(\d+)\)?$", t["msg"].strip()) or re.search(r"_(\d+)\)$", t["msg"].strip())
                for d in f.reachable():
                    tt = f.blocks[d]["term"]
                    if tt["k"] != "switch" or not f.dominates_block(d, b) or d == b:
                        continue
                    srcs = sl.sources(tt["on"])
                    if any(x[0] == "binop" and x[1] in ("Ge", "Gt", "Lt", "Le") for x in srcs) and \
                            any(x[0] == "const" and (x[1].get("int") in (32, 64, 63, 31) or "BITS" in x[1].get("txt", "")) for x in srcs):
                        ok = True
                        why = "shift amount bounded by the test at %s" % Site(f, d).loc()
            if not ok and (kind.startswith("BoundsCheck") or kind == "index"):
                # a dominating comparison with the buffer length whose failing arm leaves (cannot reach the access)
                for d in f.reachable():
                    tt = f.blocks[d]["term"]
                    if tt["k"] != "switch" or not f.dominates_block(d, b) or d == b:
                        continue
                    srcs = sl.sources(tt["on"])
                    if any(x[0] == "binop" and x[1] in ("Ge", "Gt", "Lt", "Le") for x in srcs) and \
                            (any(x[0] == "call" and callee_of(x[2]).endswith("::len") for x in srcs) or
                             any(x[0] == "other" and "PtrMetadata" in str(x[1]) for x in srcs)):
                        succs = f.succ(d)
                        if any(b not in f.reachable_from(s_) for s_ in succs):
                            ok = True
                            why = "guarded by the length test at %s" % Site(f, d).loc()
            if not ok:
                for (fs, k), reason in PANIC_TABLE.items():
                    if f.short == fs and kind.startswith(k):
                        ok = True
                        why = reason
            ctx.ob(rid, "%s:%s:%s" % (rid, f.short, kind.split("(")[0] + ("(" + kind.split("(")[1] if "(" in kind else "")), ok,
                   "%s at %s: %s" % (kind, site.loc(), why) if ok else
                   "%s at %s in a parser that runs on unverified bytes has no bound test and no reasoned table entry: corrupt "
                   "input can panic instead of being reported" % (t["msg"][:80] if t["k"] == "assert" else kind, site.loc()), site.loc())
    ctx.floor(rid, n, 5, "potential panic sites in the pre-verification parsers")


def r17f(ctx, P):
    rid = "R17.f"
    ctx.rule(rid, "GUARD (an existing index is never replaced on open): in Index::open_with_storage the choice between loading the "
                  "manifest and creating a fresh one is made by `Storage::exists(manifest path)` and `create_if_missing` alone — not by "
                  "anything read from the file. A damaged manifest (empty, truncated) must make the open fail (Manifest::load), not fall "
                  "into the create arm, which overwrites MANIFEST.json with an empty index")
    f = P.inlined("searchlite_core::index::Index::open_with_storage", depth=2,
                  keep=("searchlite_core::index::manifest::Manifest::load", "searchlite_core::index::manifest::Manifest::store",
                        "searchlite_core::index::manifest::Manifest::new"))      # a `load or create` helper is read in place
    if not ctx.anchor(rid, f, "Index::open_with_storage"):
        return
    ctx.saw(f)
    sl = Slice(f)
    loads = [b for b, t in f.calls() if callee_of(t) == "searchlite_core::index::manifest::Manifest::load"]
    creates = [b for b, t in f.calls() if callee_of(t).startswith("searchlite_core::index::manifest::Manifest::") and
               callee_of(t).rsplit("::", 1)[1] in ("store", "new")]
    ctx.floor(rid, min(len(loads), len(creates)), 1, "Manifest::load and the create arm in open_with_storage")
    bad = []
    ok_tests = 0
    for cb in creates:
        for (a, succ) in f.control_deps_transitive(cb):
            t = f.blocks[a]["term"]
            if t["k"] != "switch" or any("QuestionMark" in m for m in (t.get("macros") or [])):
                continue
            srcs = sl.sources(t["on"])
            calls = [callee_of(x[2]) for x in srcs if x[0] == "call"]
            flds = sl.fields(t["on"])
            if calls and all(c.endswith("Storage::exists") for c in calls):
                ok_tests += 1
                continue
            if not calls and flds and flds <= {"create_if_missing"}:
                continue
            if not calls and not flds:
                continue
            bad.append((Site(f, a), calls or sorted(flds)))
    ctx.ob(rid, "%s:open_with_storage:create-arm-by-exists-only" % rid, not bad and ok_tests > 0,
           "a fresh manifest is written only when Storage::exists(manifest) is false (and create_if_missing allows it)" if not bad and ok_tests else
           "the create arm of open_with_storage is selected by %s at %s rather than by Storage::exists alone: an index whose manifest is "
           "damaged can be silently replaced by an empty one" % (bad[0][1] if bad else "no exists() test", bad[0][0].loc() if bad else "?"),
           bad[0][0].loc() if bad else "%s:%s" % (f.file, f.line))


def run(ctx, progs):
    P = progs.get("default")
    r17f(ctx, P)
    r17a(ctx, P)
    r17b(ctx, P)
    r17c(ctx, P)
    r17d(ctx, P)
    r17e(ctx, P)
    if ctx.tier == "thorough":
        ctx.config = "features"
        Pf = progs.get("features")
        r17a(ctx, Pf)
        r17b(ctx, Pf)
        r17d(ctx, Pf)
        ctx.config = "default"
    ctx.assumptions += ["a whole-file CRC32 equal to the value recorded at commit is taken as 'unaltered' (strength of CRC32 not decided)",
                        "segments written by older versions without a checksum entry are not verified (verify skips a missing expected value)"]
