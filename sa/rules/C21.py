"""C21 — highlights are well-formed for any text (partial)."""
from sa import names as N
from sa.prog import Site, Slice, TERM, callee_of, op_local, op_place, op_const
from sa.rules.common import is_test_or_bench

EXPLANATION = ("Decides two structural necessary conditions for all texts: (a) every slice of the stored text in index::highlight "
               "whose bounds come from arithmetic on a regex match offset is taken only after each such bound passed a "
               "char-boundary sanitiser (an is_char_boundary-guarded adjustment loop whose exit arm dominates the slice, or "
               "floor/ceil_char_boundary): byte arithmetic lands inside a multi-byte character for some text, str::get then yields "
               "None and an empty fragment is produced; (b) a fragment is pushed only on the Some(match) branch, at most once per "
               "iteration of a loop bounded by number_of_fragments. 'Contains a tagged match' and 'substring after tag removal' "
               "are not decided.")

HL = "searchlite_core::index::highlight::"
ARITH_CALLS = ("::saturating_sub", "::saturating_add", "::min", "::max", "::checked_sub", "::checked_add", "::wrapping_sub", "::wrapping_add")


def r21a(ctx, P):
    rid = "R21.a"
    ctx.rule(rid, "FLOW: in index::highlight every str::get / str index on the text with a bound derived from arithmetic on "
                  "Match::start/end is dominated, for each such bound, by the exit arm of an is_char_boundary test on that same "
                  "bound variable (adjustment loop), or the bound comes from floor/ceil_char_boundary / char_indices")
    n = 0
    for p, f in sorted(P.fns.items()):
        if not p.startswith(HL) or is_test_or_bench(f):
            continue
        if f.kind != "closure":
            f = P.inlined(p, depth=1) or f        # a `fragment window` helper computing the bounds is read in place
        ctx.saw(f)
        sl = Slice(f, through_all_calls=True)
        for b, t in f.calls():
            cal = callee_of(t)
            if not (cal == "core::str::<impl str>::get" or (cal.endswith("::index") and "str" in cal) or cal.endswith("str>::get_unchecked")):
                continue
            # range operands
            rng = None
            for s in sl.sources(t["args"][1]):
                if s[0] == "agg" and "ops::range::Range" in s[3].get("adt", ""):
                    rng = s[3]
            if rng is None:
                continue
            site = Site(f, b)
            for which, o in zip(("start", "end"), rng["ops"]):
                src = sl.sources(o)
                from_match = any(x[0] == "call" and "regex::" in callee_of(x[2]) and callee_of(x[2]).endswith(("::start", "::end")) for x in src)
                arith = any(x[0] == "binop" for x in src) or any(x[0] == "call" and callee_of(x[2]).endswith(ARITH_CALLS) for x in src)
                if not (from_match and arith):
                    continue
                n += 1
                named = _named_root(f, o)
                san = None
                if any(x[0] == "call" and callee_of(x[2]).endswith(("floor_char_boundary", "ceil_char_boundary", "char_indices")) for x in src):
                    san = "boundary helper"
                if san is None and named is not None:
                    for b2, t2 in f.calls():
                        if callee_of(t2) != "core::str::<impl str>::is_char_boundary":
                            continue
                        if _named_root(f, t2["args"][1]) != named:
                            continue
                        res = t2["dst"]["l"]
                        for b3 in f.reachable():
                            t3 = f.blocks[b3]["term"]
                            if t3["k"] == "switch" and op_local(t3["on"]) == res:
                                vals = dict(zip(t3["values"], t3["targets"]))
                                true_succ = t3["otherwise"] if 0 in vals else vals.get(1)
                                false_succ = vals.get(0)
                                if true_succ is None or false_succ is None:
                                    continue
                                # the only way to the slice is through the boundary=true arm of this test
                                if f.dominates_block(true_succ, b) and b not in f.reachable_from(false_succ, stop=[b2]):
                                    # and the variable is not modified between the passing test and the slice
                                    mod = False
                                    for x in f.reachable_from(true_succ, stop=[b2]):
                                        if b in f.reachable_from(x, stop=[b2]):
                                            for s in f.blocks[x]["stmts"]:
                                                if s["k"] == "assign" and s["dst"]["l"] == named and not s["dst"]["p"]:
                                                    mod = True
                                    if not mod:
                                        san = "is_char_boundary loop at %s" % Site(f, b2).loc()
                ctx.ob(rid, "%s:%s:slice-%s-bound" % (rid, f.short, which), san is not None,
                       "%s bound of the text slice at %s is snapped to a char boundary (%s)" % (which, site.loc(), san) if san else
                       "%s bound of the text slice at %s derives from byte arithmetic on a regex match offset and is not snapped to a "
                       "char boundary: for multi-byte text str::get yields None and an empty fragment is returned" % (which, site.loc()),
                       site.loc())
    ctx.floor(rid, n, 2, "arithmetic slice bounds on the highlighted text")


def _named_root(f, operand):
    """the user variable an operand stands for.  A variable that merely receives what a spliced helper returned
    (`let (start, end) = window(..)`) stands for the helper's own variable: single copies and tuple elements are followed through it."""
    l = op_local(operand)
    seen = set()
    last_named = None
    while l is not None and l not in seen:
        seen.add(l)
        dfs = [d for d in f.defs().get(l, []) if not d["partial"]]
        if f.locals[l].get("name"):
            last_named = l
            if not getattr(f, "inlined", None):
                return l
        if len(dfs) != 1 or dfs[0]["k"] != "assign":
            return last_named
        rv = dfs[0]["rv"]
        if rv["k"] not in ("use", "cast"):
            return last_named
        pl = op_place(rv["a"])
        if pl is None:
            return last_named
        if pl["p"]:
            # element of a tuple that was built once from locals: `(a, b).0`
            first = next((e for e in pl["p"] if isinstance(e, dict) and "f" in e), None)
            src = pl["l"]
            hop = 0
            while hop < 4:
                sd = [d for d in f.defs().get(src, []) if not d["partial"]]
                if len(sd) == 1 and sd[0]["k"] == "assign" and sd[0]["rv"]["k"] in ("use", "cast") and op_place(sd[0]["rv"]["a"]) and \
                        not op_place(sd[0]["rv"]["a"])["p"]:
                    src = op_local(sd[0]["rv"]["a"])
                    hop += 1
                else:
                    break
            sd = [d for d in f.defs().get(src, []) if not d["partial"]]
            if first is not None and len(sd) == 1 and sd[0]["k"] == "assign" and sd[0]["rv"]["k"] == "agg" and sd[0]["rv"].get("ak") == "tuple" and \
                    len(pl["p"]) == 1 and str(first.get("f", "")).isdigit() and int(first["f"]) < len(sd[0]["rv"]["ops"]):
                l = op_local(sd[0]["rv"]["ops"][int(first["f"])])
                continue
            return last_named
        l = pl["l"]
    return last_named


def r21b(ctx, P):
    rid = "R21.b"
    ctx.rule(rid, "GUARD: in highlight_fragments the output push is dominated by the Some arm of the regex find, happens at most once "
                  "per iteration (no push reachable from a push without passing the loop's next()), and the loop iterates a Range "
                  "whose end is the number_of_fragments option; make_snippet delegates to highlight_fragments")
    f = P.inlined(HL + "highlight_fragments", depth=1)
    if not ctx.anchor(rid, f, "highlight_fragments"):
        return
    sl = Slice(f, through_all_calls=True)
    finds = [(b, t) for b, t in f.calls() if "regex::" in callee_of(t) and callee_of(t).endswith(("::find_at", "::find"))]
    out_pushes = []
    for b, t in f.calls():
        if callee_of(t).endswith("Vec::<T, A>::push") and f.local_ty(op_local(t["args"][1]) or 0) == "alloc::string::String":
            # pushes into the returned vector: after the regex is built
            if finds and any(f.dominates(Site(f, fb), Site(f, b)) for fb, _ in finds):
                out_pushes.append(Site(f, b))
    ctx.floor(rid, len(out_pushes), 1, "fragment pushes after the regex find")
    for ps in out_pushes:
        ok_some = False
        for fb, ft in finds:
            res = ft["dst"]["l"]
            for b3 in f.reachable():
                t3 = f.blocks[b3]["term"]
                if t3["k"] != "switch":
                    continue
                l = op_local(t3["on"])
                for d in f.defs().get(l, []):
                    if d["k"] == "assign" and d["rv"]["k"] == "discr" and d["rv"]["place"]["l"] == res:
                        vals = dict(zip(t3["values"], t3["targets"]))
                        some = vals.get(1)
                        if some is not None and f.dominates_block(some, ps.b):
                            ok_some = True
        nexts = [b for b, t in f.calls() if "Range" in callee_of(t) and callee_of(t).endswith("::next")]
        once = not any(ps.b in f.reachable_from(s, stop=nexts) for s in f.succ(ps.b))
        bounded = False
        for nb in nexts:
            if ps.b in f.reachable_from(nb):
                src = sl.sources(f.blocks[nb]["term"]["args"][0])
                for x in src:
                    if x[0] == "agg" and "ops::range::Range" in x[3].get("adt", ""):
                        if "number_of_fragments" in sl.fields(x[3]["ops"][1]):
                            bounded = True
        ok = ok_some and once and bounded
        ctx.ob(rid, "%s:highlight_fragments:push" % rid, ok,
               "fragment push at %s: only on Some(match), once per iteration, loop bounded by number_of_fragments" % ps.loc() if ok else
               "fragment push at %s: on-Some=%s once-per-iteration=%s bounded-by-number_of_fragments=%s" % (ps.loc(), ok_some, once, bounded),
               ps.loc())
    ms = P.fn(HL + "make_snippet")
    if ms is not None:
        dele = any(callee_of(t) == HL + "highlight_fragments" for b, t in ms.calls())
        ctx.ob(rid, "%s:make_snippet:delegates" % rid, dele, "make_snippet delegates to highlight_fragments" if dele else
               "make_snippet no longer delegates to highlight_fragments", "%s:%s" % (ms.file, ms.line))


def r21c(ctx, P):
    rid = "R21.c"
    import re
    ctx.rule(rid, "WINDOW CONTAINS ITS MATCH (abstract interpretation relative to the match, all definitions joined): in "
                  "highlight_fragments the lower bound of the fragment slice stays `<= Match::start()` — it starts from "
                  "Match::start(), may only be decreased (saturating_sub / -), min'ed, or advanced by 1 inside the "
                  "`!is_char_boundary(bound)` loop (the match start is a boundary, so the loop cannot pass it); the upper bound stays "
                  "`lower + fragment_size` capped by text.len() and moved back inside the `!is_char_boundary` loop only. Any other "
                  "definition (a max with another position, a value derived from the previous fragment or from the other bound) can "
                  "put the window past the match: the fragment then has no tagged match, or is empty")
    f = P.inlined(HL + "highlight_fragments", depth=1)
    if not ctx.anchor(rid, f, "highlight_fragments"):
        return
    sl = Slice(f, through_all_calls=True)
    sl0 = Slice(f)
    # the slice bounds
    bounds = None
    for b, t in f.calls():
        cal = callee_of(t)
        if cal == "core::str::<impl str>::get" or (cal.endswith("::index") and "str" in cal):
            for x in sl0.sources(t["args"][1]):
                if x[0] == "agg" and (x[3].get("adt") or "").endswith("ops::range::Range"):
                    bounds = (b, x[3]["ops"][0], x[3]["ops"][1])
    if not ctx.anchor(rid, bounds, "text.get(lower..upper) in highlight_fragments"):
        return
    gb, lo_op, hi_op = bounds
    lo, hi = _named_root(f, lo_op), _named_root(f, hi_op)
    if not (ctx.anchor(rid, lo, "named lower bound") and ctx.anchor(rid, hi, "named upper bound")):
        return
    defs = f.defs()

    def in_boundary_loop(d, var):
        """the definition is controlled by the `false` (not a boundary) outcome of is_char_boundary(var)"""
        for (a, succ) in f.control_deps_transitive(d["b"]):
            t = f.blocks[a]["term"]
            if t["k"] != "switch":
                continue
            for x in sl0.sources(t["on"]):
                if x[0] == "call" and callee_of(x[2]) == "core::str::<impl str>::is_char_boundary" and _named_root(f, x[2]["args"][1]) == var:
                    return True
        return False

    def classify(var, kind):
        """kind 'lo': every def keeps var <= Match::start ; kind 'hi': every def keeps var = window end"""
        bad = []
        for d in defs.get(var, []):
            if d.get("partial"):
                continue
            site = Site(f, d["b"], d.get("i", TERM))
            if d["k"] == "call":
                cal = callee_of(d["t"])
                args = d["t"]["args"]
                srcs = [sl.sources(a) for a in args]
                calls = [[callee_of(x[2]) for x in s_ if x[0] == "call"] for s_ in srcs]
                if kind == "lo":
                    from_ms = any(c.endswith("Match::<'h>::start") for c in calls[0]) if calls else False
                    if re.search(r"::(saturating_sub|wrapping_sub|checked_sub)$", cal) and from_ms:
                        continue
                    if cal.endswith(("Match::<'h>::start",)):
                        continue
                    if re.search(r"::min$", cal) and any(any(c.endswith("Match::<'h>::start") for c in cs) for cs in calls):
                        continue
                    bad.append((site, "`%s` (a %s)" % (f.locals[var].get("name"), cal.rsplit("::", 1)[1])))
                else:
                    if re.search(r"::min$", cal) and len(args) == 2:
                        a_len = any(c.endswith("::len") for c in calls[0])
                        b_len = any(c.endswith("::len") for c in calls[1])
                        other = srcs[1] if a_len else srcs[0]
                        win = (lo in sl.locals(args[1] if a_len else args[0])) and "fragment_size" in sl.fields(args[1] if a_len else args[0]) and \
                            any(x[0] == "call" and re.search(r"::(saturating_add|checked_add|wrapping_add)$", callee_of(x[2])) or
                                (x[0] == "binop" and x[1] in ("Add", "AddWithOverflow")) for x in other)
                        if (a_len or b_len) and win:
                            continue
                    if re.search(r"::(saturating_add|checked_add|wrapping_add)$", cal) and lo in sl.locals(args[0]) and "fragment_size" in sl.fields(args[1]):
                        continue
                    bad.append((site, "`%s` (a %s)" % (f.locals[var].get("name"), cal.rsplit("::", 1)[1])))
                continue
            rv = d["rv"]
            if rv["k"] in ("use", "cast"):
                src = op_local(rv["a"])
                c = op_const(rv["a"])
                # `x = move tmp.0` of a checked +1 / -1 written back inside the boundary loop
                sd = [x for x in defs.get(src, [])] if src is not None else []
                if src is not None and len(sd) == 1 and sd[0]["k"] == "assign" and sd[0]["rv"]["k"] == "binop":
                    brv = sd[0]["rv"]
                    one = (op_const(brv["b"]) or {}).get("int") == 1 and _named_root(f, brv["a"]) == var
                    if one and brv["op"] in (("Add", "AddWithOverflow") if kind == "lo" else ("Sub", "SubWithOverflow")) and in_boundary_loop(d, var):
                        continue
                    if one and kind == "lo" and brv["op"] in ("Sub", "SubWithOverflow"):
                        continue
                # a plain copy of an accepted temporary
                if src is not None and not f.locals[src].get("name"):
                    inner = [x for x in defs.get(src, [])]
                    if len(inner) == 1 and inner[0]["k"] == "call":
                        # classify the temporary as if it were the variable
                        saved = defs.get(var)
                        tmp_bad = []
                        dd = dict(inner[0])
                        cal = callee_of(dd["t"])
                        args = dd["t"]["args"]
                        srcs = [sl.sources(a) for a in args]
                        calls = [[callee_of(x[2]) for x in s_ if x[0] == "call"] for s_ in srcs]
                        if kind == "lo" and (re.search(r"::(saturating_sub|wrapping_sub|checked_sub)$", cal) and calls and
                                             any(c.endswith("Match::<'h>::start") for c in calls[0]) or cal.endswith("Match::<'h>::start")):
                            continue
                        if kind == "hi" and re.search(r"::min$", cal) and len(args) == 2:
                            a_len = any(c.endswith("::len") for c in calls[0])
                            b_len = any(c.endswith("::len") for c in calls[1])
                            w = args[1] if a_len else args[0]
                            if (a_len or b_len) and lo in sl.locals(w) and "fragment_size" in sl.fields(w):
                                continue
                        bad.append((site, "`%s` (from %s)" % (f.locals[var].get("name"), cal.rsplit("::", 1)[1])))
                        continue
                bad.append((site, "`%s` (an assignment)" % f.locals[var].get("name")))
            else:
                bad.append((site, "`%s` (a %s)" % (f.locals[var].get("name"), rv["k"])))
        return bad
    bad_lo = classify(lo, "lo")
    bad_hi = classify(hi, "hi")
    ctx.ob(rid, "%s:highlight_fragments:lower-bound-at-or-before-match" % rid, not bad_lo,
           "the window starts at or before the match on every path" if not bad_lo else
           "the definition of %s at %s can move the window start past the match start: the fragment has no tagged match or is empty"
           % (bad_lo[0][1], bad_lo[0][0].loc()), bad_lo[0][0].loc() if bad_lo else Site(f, gb).loc())
    ctx.ob(rid, "%s:highlight_fragments:upper-bound-is-window-end" % rid, not bad_hi,
           "the window ends fragment_size behind its start (capped by the text, snapped back to a boundary)" if not bad_hi else
           "the definition of %s at %s is not min(text.len(), start + fragment_size) or its boundary snap: the window can end before the "
           "match does" % (bad_hi[0][1], bad_hi[0][0].loc()), bad_hi[0][0].loc() if bad_hi else Site(f, gb).loc())


THOROUGH_FEATURES = ['r21c']


def run(ctx, progs):
    P = progs.get("default")
    r21a(ctx, P)
    r21b(ctx, P)
    r21c(ctx, P)
    ctx.assumptions += ["regex Match::start/end are char boundaries of the searched text (regex crate contract)",
                        "fragment_size is measured in bytes"]
