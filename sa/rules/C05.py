"""C05 — concurrent writer handles are serializable (partial: lock scope)."""
from sa import names as N
from sa.prog import Site, Slice, TERM, callee_of, op_local, op_place, lock_acquisitions, lock_states, place_fields
from sa.rules.common import writer_entry_points

EXPLANATION = ("Decides the lock-scope skeleton for all interleavings at once: in every writer entry point (IndexWriter::new, "
               "add_document, delete_documents, commit, rollback, Index::compact) the writer_lock mutex is acquired and every "
               "call or store with a log, storage, manifest-lock or queue/live-docs effect lies inside its region on every "
               "path; in commit the manifest snapshot and the live-doc refresh are taken inside the region and the cached map "
               "is reused only under the generation comparison; and since that comparison is the only staleness test, every segment "
               "published by commit / compact carries a generation of 1 + max over ALL manifest segments (no subset-forming "
               "adapter in the slice). Whether the queue-per-handle design is serializable at the history level is not decided.")

QUEUE_FIELDS = {"pending_ops", "live_docs", "live_generation"}


def effect_sites(P, f, verified_entries):
    """Sites in f with a shared-state effect: WAL methods, storage effects, manifest lock, queue/live-docs mutation."""
    out = []
    sl = Slice(f)
    for b, t in f.calls():
        cal = callee_of(t)
        if cal in verified_entries:
            continue
        if cal in N.LOCK_NAMES:
            if "manifest" in sl.fields(t["args"][0]):
                out.append((Site(f, b), "manifest lock"))
            continue
        if cal.startswith(N.WAL + "::") or P.call_reaches(t, lambda c: c.startswith(N.WAL + "::") or c in N.STORAGE_EFFECTS):
            out.append((Site(f, b), _short(cal)))
            continue
        # &mut borrow of a queue field passed as receiver
        if t["args"]:
            l = op_local(t["args"][0])
            if l is not None:
                for df in f.defs().get(l, []):
                    if df["k"] == "assign" and df["rv"]["k"] == "ref" and df["rv"].get("mut") and \
                            QUEUE_FIELDS & set(place_fields(df["rv"]["place"])):
                        out.append((Site(f, b), "mutation of %s" % (QUEUE_FIELDS & set(place_fields(df["rv"]["place"])))))
    for b, i, s in f.stmts():
        if s["k"] == "assign" and s["dst"]["p"] and QUEUE_FIELDS & set(place_fields(s["dst"])) and s["dst"]["l"] == 1:
            out.append((Site(f, b, i), "store to %s" % sorted(QUEUE_FIELDS & set(place_fields(s["dst"])))))
    return out


def _short(c):
    from sa.prog import short_path
    return short_path(c)


def r05a(ctx, P):
    rid = "R05.a"
    ctx.rule(rid, "PAIR/lock-scope: in each writer entry point a Mutex::lock on `writer_lock` is held (must-analysis over the CFG, "
                  "released by guard drop / move) at every call or store with a WAL, storage, manifest-lock or "
                  "pending_ops/live_docs effect; delete_document delegates to delete_documents")
    eps = writer_entry_points(P)
    comp = P.fn(N.INDEX + "::compact")
    entries = {}
    for name in ("new", "add_document", "delete_documents", "commit", "rollback"):
        if ctx.anchor(rid, eps.get(name), "IndexWriter::" + name):
            entries[eps[name].path] = eps[name]
    # every other IndexWriter method that takes the lock itself is an entry point too (e.g. add_documents)
    for name, f in sorted(eps.items()):
        if f.path not in entries and lock_acquisitions(f, field="writer_lock"):
            entries[f.path] = f
    if ctx.anchor(rid, comp, "Index::compact"):
        entries[comp.path] = comp
    verified = set()
    total = 0
    for p, f in entries.items():
        ctx.saw(f)
        acq = lock_acquisitions(f, field="writer_lock")
        if not acq:
            ctx.ob(rid, "%s:%s:acquires-writer-lock" % (rid, f.short), False,
                   "%s does not acquire writer_lock" % f.short, "%s:%s" % (f.file, f.line))
            continue
        asite, g, _ = acq[0]
        st = lock_states(f, asite, g)
        effs = effect_sites(P, f, set())
        bad = [(s, w) for (s, w) in effs if st(s) != {"L"} and s.key() != asite.key()]
        total += len(effs)
        ctx.ob(rid, "%s:%s:effects-under-writer-lock" % (rid, f.short), not bad,
               "%d effect sites of %s all lie inside the writer_lock region (acquired at %s)" % (len(effs), f.short, asite.loc())
               if not bad else "%s: %s at %s can run without writer_lock held" % (f.short, bad[0][1], bad[0][0].loc()),
               asite.loc(), {"effects": len(effs), "outside": [(s.loc(), w) for s, w in bad][:10]})
        if not bad:
            verified.add(p)
    ctx.floor(rid, total, 30, "effect sites inside writer entry points")
    # wrappers: pub IndexWriter methods not in the list may only delegate to verified entry points
    for name, f in eps.items():
        if f.path in entries or f.vis != "Public":
            continue
        effs = effect_sites(P, f, verified)
        ctx.ob(rid, "%s:%s:delegates" % (rid, f.short), not effs,
               "%s only delegates to lock-holding entry points" % f.short if not effs else
               "%s performs %s at %s without taking writer_lock" % (f.short, effs[0][1], effs[0][0].loc()),
               "%s:%s" % (f.file, f.line))
    return entries


def r05b(ctx, P):
    rid = "R05.b"
    ctx.rule(rid, "ORDER: in commit the cached live-docs map is reused only on the equal arm of the comparison between the manifest "
                  "snapshot's generation and the cached generation; otherwise it is reloaded from the snapshot (inside the region: R05.a)")
    commit = P.inlined(N.W + "::commit")
    if not ctx.anchor(rid, commit, "IndexWriter::commit"):
        return
    sl = Slice(commit)
    n = 0
    for b, t in commit.calls():
        cal = callee_of(t)
        if cal.endswith("::clone") and "live_docs" in sl.fields(t["args"][0]):
            n += 1
            ok = False
            preds = commit.preds()
            for a in commit.reachable():
                tt = commit.blocks[a]["term"]
                if tt["k"] != "switch":
                    continue
                srcs = sl.sources(tt["on"])
                is_eq = any(s[0] == "binop" and s[1] == "Eq" for s in srcs)
                cmp_gen = any(s[0] == "field" and "live_generation" in s[2] for s in srcs)
                if not (is_eq and cmp_gen):
                    continue
                vals = dict(zip(tt["values"], tt["targets"]))
                true_succ = tt["otherwise"] if 0 in vals else vals.get(1)
                # every path to the reuse passes through the equal arm
                if true_succ is not None and set(preds.get(true_succ, [])) == {a} and commit.dominates_block(true_succ, b):
                    ok = True
            ctx.ob(rid, "%s:commit:cached-live-docs-guarded" % rid, ok,
                   "the cached live-docs map is reused only when the snapshot generation equals the cached generation" if ok else
                   "the cached live-docs map is reused at %s without the generation comparison" % Site(commit, b).loc(),
                   Site(commit, b).loc())
    ctx.floor(rid, n, 1, "reuse of the cached live-docs map in commit")
    # every READ of the handle's cached table (not only a clone of it) sits on the equal arm: a table that is "refreshed" from the
    # cache and the newer segments carries stale addresses of documents another handle re-added or deleted in between
    eq_arms = []
    preds = commit.preds()
    for a in commit.reachable():
        tt = commit.blocks[a]["term"]
        if tt["k"] != "switch":
            continue
        srcs = sl.sources(tt["on"])
        if any(s_[0] == "binop" and s_[1] == "Eq" for s_ in srcs) and any(s_[0] == "field" and "live_generation" in s_[2] for s_ in srcs):
            vals = dict(zip(tt["values"], tt["targets"]))
            ts = tt["otherwise"] if 0 in vals else vals.get(1)
            if ts is not None and set(preds.get(ts, [])) == {a}:
                eq_arms.append(ts)
    reads = []
    for b, i, st in commit.stmts():
        if st["k"] != "assign":
            continue
        rv = st["rv"]
        pl = rv.get("place") if rv["k"] == "ref" and not rv.get("mut") else (op_place(rv["a"]) if rv["k"] in ("use", "cast") else None)
        if pl and pl["l"] == 1 and any(isinstance(e, dict) and e.get("f") == "live_docs" for e in pl["p"]):
            reads.append(Site(commit, b, i))
    stale = [r for r in reads if not any(commit.dominates_block(a, r.b) for a in eq_arms)]
    ctx.ob(rid, "%s:commit:cached-live-docs-read-only-when-current" % rid, bool(reads) and not stale,
           "every read of the cached live-docs map (%d) lies on the equal-generation arm" % len(reads) if reads and not stale else
           ("the cached live-docs map is read at %s outside the equal-generation arm: entries cached before another handle's commit "
            "(re-added or deleted documents) flow into the table this commit works on" % stale[0].loc() if stale else
            "no read of the cached live-docs map found"), stale[0].loc() if stale else "%s:%s" % (commit.file, commit.line))


SUBSET_ADAPTERS = ("::filter", "::filter_map", "::take", "::take_while", "::skip", "::skip_while", "::step_by", "::find",
                   "::find_map", "::min", "::min_by", "::min_by_key", "::last", "::first", "::nth", "::retain", "::position")


def r05c(ctx, P, rid="R05.c"):
    ctx.rule(rid, "FRESHNESS of the staleness token: R05.b makes the generation comparison the only guard for reusing a handle's cached "
                  "live-docs map, so every published segment must carry a generation strictly above every generation already in the "
                  "manifest. At every SegmentWriter::write_segment* call in a publisher (commit, compact) the generation argument is "
                  "1 + Iterator::max over an iteration of Manifest.segments mapped to `.generation`, with no subset-forming adapter "
                  "(filter/take/skip/...) and no other container in its backward slice")
    n = 0
    for path in (N.W + "::commit", "searchlite_core::index::Index::compact"):
        f = P.inlined(path)
        if not ctx.anchor(rid, f, path):
            continue
        ctx.saw(f)
        sl = Slice(f, through_all_calls=True)
        for b, t in f.calls():
            cal = callee_of(t)
            if not (cal.startswith("searchlite_core::index::segment::SegmentWriter") and "::write_segment" in cal):
                continue
            n += 1
            gen_arg = t["args"][-1]
            srcs = sl.sources(gen_arg)
            callees = {callee_of(x[2]) for x in srcs if x[0] == "call"}
            has_max = any(c.endswith("Iterator::max") for c in callees)
            plus_one = any(x[0] == "binop" and x[1] in ("Add", "AddWithOverflow") for x in srcs) and \
                any(x[0] == "const" and str(x[1].get("int", x[1].get("txt", ""))).startswith("1") for x in srcs)
            seg_fields = [x for x in srcs if x[0] == "field" and "segments" in x[2]]
            owners = {e.get("of") for x in seg_fields for e in x[3]["p"] if isinstance(e, dict) and e.get("f") == "segments"}
            from_manifest = owners == {"searchlite_core::index::manifest::Manifest"}
            subset = sorted(c for c in callees if any(c.endswith(a) or (a + "::") in c for a in SUBSET_ADAPTERS))
            # the mapped closure projects `.generation`
            proj = False
            for x in srcs:
                if x[0] == "agg" and x[3].get("closure"):
                    g = P.fn(x[3]["closure"])
                    if g is not None and any("generation" in place_fields(pl) for pl in _read_places(g)):
                        proj = True
            ok = has_max and plus_one and from_manifest and not subset and proj
            why = []
            if not has_max:
                why.append("no Iterator::max in its slice")
            if not plus_one:
                why.append("not incremented by 1")
            if not from_manifest:
                why.append("iterates %s instead of only Manifest.segments" % (sorted(o for o in owners if o) or "nothing"))
            if subset:
                why.append("considers only a subset of the segments (%s)" % ", ".join(_short(c) for c in subset))
            if not proj:
                why.append("the mapped closure does not read `.generation`")
            ctx.ob(rid, "%s:%s:published-generation-fresh" % (rid, f.short), ok,
                   "the generation given to %s is 1 + max over all manifest segments" % _short(cal) if ok else
                   "the generation given to %s at %s %s: a published segment can reuse a generation, so a writer handle that cached its "
                   "live-docs map before the publish passes the staleness comparison and keeps the stale map" % (
                       _short(cal), Site(f, b).loc(), "; ".join(why)), Site(f, b).loc())
    ctx.floor(rid, n, 2, "write_segment* calls in commit and compact")


SHRINKERS = ("::retain", "::retain_mut", "::remove", "::swap_remove", "::drain", "::truncate", "::pop", "::clear", "::split_off",
             "::dedup", "::dedup_by", "::dedup_by_key")
MANIFEST = "searchlite_core::index::manifest::Manifest"


def _segments_of_manifest(place):
    return any(isinstance(e, dict) and e.get("f") == "segments" and e.get("of") == MANIFEST for e in place["p"])


def shrink_sites(P, f):
    """Sites in f that can make a Manifest's segment list shorter: shrinking Vec methods on `<manifest>.segments`, and whole
    stores to that field.  Returns [(Site, description, stored operand or None)]."""
    out = []
    defs = f.defs()
    for b, t in f.calls():
        cal = callee_of(t)
        if not cal.endswith(SHRINKERS) or "Vec" not in cal or not t["args"]:
            continue
        l = op_local(t["args"][0])
        seen = set()
        hit = False
        while l is not None and l not in seen and not hit:
            seen.add(l)
            nxt = None
            for d in defs.get(l, []):
                if d["k"] == "assign" and d["rv"]["k"] == "ref":
                    if _segments_of_manifest(d["rv"]["place"]):
                        hit = True
                    nxt = d["rv"]["place"]["l"] if not d["rv"]["place"]["p"] or d["rv"]["place"]["p"] == ["deref"] else nxt
                elif d["k"] == "assign" and d["rv"]["k"] in ("use", "cast"):
                    nxt = op_local(d["rv"]["a"])
                elif d["k"] == "call" and callee_of(d["t"]).endswith(("deref_mut", "deref", "as_mut")) and d["t"]["args"]:
                    nxt = op_local(d["t"]["args"][0])
            l = nxt
        if hit:
            out.append((Site(f, b), "%s on the manifest's segment list" % cal.rsplit("::", 1)[1], None))
    for b, i, st in f.stmts():
        if st["k"] == "assign" and st["dst"]["p"] and _segments_of_manifest(st["dst"]) and \
                isinstance(st["dst"]["p"][-1], dict) and st["dst"]["p"][-1].get("f") == "segments":
            out.append((Site(f, b, i), "assignment to the manifest's segment list", st["rv"]))
    return out


def r05d(ctx, P, rid="R05.d"):
    ctx.rule(rid, "MONOTONE staleness token: the manifest's maximum generation must never go down or be re-used, or an idle handle's "
                  "remembered generation can match again after other writers changed the index (ABA) and R05.b lets it keep a stale "
                  "map. In the publishers (commit, compact): (i) no operation that can shorten a Manifest's segment list can reach the "
                  "SegmentWriter::write_segment* call whose generation argument is computed from such a list (R05.c would then see "
                  "`max over all` of an already shortened list); (ii) every such shortening is itself the installation of a freshly "
                  "written segment: the stored value derives from a write_segment* result")
    n = 0
    for path in (N.W + "::commit", "searchlite_core::index::Index::compact"):
        f = P.inlined(path)
        if not ctx.anchor(rid, f, path):
            continue
        ctx.saw(f)
        sl = Slice(f, through_all_calls=True)
        writes = [b for b, t in f.calls() if callee_of(t).startswith("searchlite_core::index::segment::SegmentWriter") and "::write_segment" in callee_of(t)]
        n += len(writes)
        bad = []
        for site, what, rv in shrink_sites(P, f):
            reach = f.reachable_from(site.b)
            if any(w in reach and w != site.b for w in writes):
                bad.append((site, "%s at %s happens before the new segment's generation is computed: the new segment can re-use the "
                                  "generation of a segment that was just dropped" % (what, site.loc())))
                continue
            fresh = False
            if rv is not None:
                ops = [rv["a"]] if rv["k"] in ("use", "cast") else rv.get("ops", [])
                for o in ops:
                    if isinstance(o, dict) and op_local(o) is not None and \
                            any("::write_segment" in c for c in sl.callees(o)):
                        fresh = True
            if not fresh:
                bad.append((site, "%s at %s drops segments without installing a freshly written one: the manifest's maximum generation "
                                  "can decrease, and a later commit re-creates a generation an idle handle still remembers" % (what, site.loc())))
        ctx.ob(rid, "%s:%s:generation-monotone" % (rid, f.short), not bad,
               "the segment list is only ever shortened by installing a freshly written segment, after its generation was computed" if not bad else
               bad[0][1], bad[0][0].loc() if bad else "%s:%s" % (f.file, f.line))
    ctx.floor(rid, n, 2, "write_segment* calls in commit and compact")


def _read_places(g):
    for b, i, s in g.stmts():
        if s["k"] == "assign":
            rv = s["rv"]
            if rv["k"] in ("ref", "discr"):
                yield rv["place"]
            elif rv["k"] in ("use", "cast"):
                pl = op_place(rv["a"])
                if pl:
                    yield pl


THOROUGH_FEATURES = ['r05c', 'r05d']


def run(ctx, progs):
    P = progs.get("default")
    r05a(ctx, P)
    r05b(ctx, P)
    r05c(ctx, P)
    r05d(ctx, P)
    ctx.assumptions += ["parking_lot Mutex/RwLock provide mutual exclusion; a guard protects until it is dropped or moved",
                        "all writer handles of one index share one InnerIndex (Arc), hence one writer_lock"]
