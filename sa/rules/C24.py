"""C24 — HTTP requests always get a well-formed response (partial)."""
import re
from sa import names as N
from sa.prog import Site, Slice, TERM, callee_of, op_local, op_const
from sa.rules.common import is_test_or_bench
from sa.rules.http_common import routes, handler_fns, const_str, join_mappers

EXPLANATION = ("Decides the structural part: every registered handler (and the fallbacks) returns Result<_, HttpError> or a type "
               "that is a response by construction; HttpError's IntoResponse builds the {error:{type,reason}} envelope with the "
               "error's own status; every heavy, request-driven core call made by a handler runs inside a closure handed to "
               "tokio::task::spawn_blocking whose JoinError (panic) is mapped to an HttpError; the constant statuses at the HttpError "
               "construction sites follow the documented table and none is 2xx; unknown paths and unsupported methods are routed to "
               "fallbacks that produce the envelope; the code that runs on the async runtime while a request is answered (handlers, "
               "fallbacks, middleware error mappers, IntoResponse impls and their callees in the crate, minus spawn_blocking "
               "closures) has no undischarged unwrap/expect/panic!/assert! and no byte-offset string operation whose offset is not a "
               "char boundary by construction. That the server survives arbitrary bodies depends on C16's undecided part; "
               "chunked over-limit bodies depend on tower-http's runtime behaviour.")

HTTPERR = "searchlite_http::HttpError"
HEAVY = (N.READER + "::search", N.W + "::commit", N.INDEX + "::compact", N.W + "::add_documents", N.W + "::add_document",
         "searchlite_core::api::builder::IndexBuilder::create", N.INDEX + "::create", N.INDEX + "::reader")
STATUS = {"OK": 200, "CREATED": 201, "ACCEPTED": 202, "NO_CONTENT": 204, "BAD_REQUEST": 400, "NOT_FOUND": 404, "CONFLICT": 409,
          "METHOD_NOT_ALLOWED": 405, "PAYLOAD_TOO_LARGE": 413, "UNPROCESSABLE_ENTITY": 422, "INTERNAL_SERVER_ERROR": 500,
          "GATEWAY_TIMEOUT": 504, "SERVICE_UNAVAILABLE": 503, "REQUEST_TIMEOUT": 408, "TOO_MANY_REQUESTS": 429}
EXPECT = {"index_missing": 404, "index_exists": 409, "body_too_large": 413, "timeout": 504, "unknown_route": 404, "method_not_allowed": 405}
LIGHT_EXCEPTIONS = {
    "delete_documents": "/delete opens a writer and appends O(ids) small records in the async context; failure modes do not depend on request content beyond validated ids",
    "require_index": "opening the index on first use; request-independent",
}


def body_ret_ty(P, h):
    hf = P.fn(h)
    if hf is None:
        return None
    for c in P.closures_of(hf, recursive=False):
        if c.coroutine:
            return c.ret_ty
    return hf.ret_ty


def status_of(c):
    if c is None:
        return None
    d = c.get("def", "") or c.get("txt", "")
    m = re.search(r"StatusCode::([A-Z_]+)", d)
    return STATUS.get(m.group(1)) if m else None


def r24a(ctx, P, rts, fbs):
    rid = "R24.a"
    ctx.rule(rid, "TYPE: every registered handler and fallback returns Result<_, HttpError>, HttpError, or an infallible response "
                  "tuple; <HttpError as IntoResponse>::into_response builds ErrorResponse{error: ErrorResponseBody{type, reason}} and "
                  "pairs it with self.status")
    for (path, method, h, site) in sorted(rts) + [("<fallback:%s>" % k, "any", v[0], v[1]) for k, v in sorted(fbs.items())]:
        ty = body_ret_ty(P, h)
        ok = ty is not None and (
            (ty.startswith("core::result::Result<") and ty.rstrip(">").endswith(HTTPERR)) or ty == HTTPERR or
            ty.startswith("(http::status::StatusCode, axum::json::Json<") or "impl axum::response::IntoResponse" in ty or ty == "axum::response::Response")
        ctx.ob(rid, "%s:%s:return-type" % (rid, path), ok,
               "%s returns %s" % (h.split("::")[-1], (ty or "?")[:90]) if ok else
               "handler %s of %s returns %s, which is not Result<_, HttpError> / a response type" % (h, path, ty), site.loc())
    ir = P.fn("<searchlite_http::HttpError as axum_core::response::into_response::IntoResponse>::into_response")
    if ctx.anchor(rid, ir, "<HttpError as IntoResponse>::into_response"):
        ctx.saw(ir)
        sl = Slice(ir, through_all_calls=True)
        env = any(s["k"] == "assign" and s["rv"]["k"] == "agg" and s["rv"].get("adt", "").endswith("ErrorResponse") for b, i, s in ir.stmts())
        body = None
        for b, i, s in ir.stmts():
            if s["k"] == "assign" and s["rv"]["k"] == "agg" and s["rv"].get("adt", "").endswith("ErrorResponseBody"):
                body = s["rv"]["fields"]
        tup = False
        for b, i, s in ir.stmts():
            if s["k"] == "assign" and s["rv"]["k"] == "agg" and s["rv"].get("ak") == "tuple" and len(s["rv"]["ops"]) == 2:
                if "status" in sl.fields(s["rv"]["ops"][0]):
                    tup = True
        ok = env and body is not None and set(body) == {"type", "reason"} or (env and body is not None and {"r#type", "reason"} == set(body))
        ctx.ob(rid, "%s:HttpError::into_response:envelope" % rid, bool(ok) and tup,
               "HttpError renders as (self.status, Json{error:{type,reason}})" if ok and tup else
               "HttpError::into_response: envelope=%s fields=%s status-from-self=%s" % (env, body, tup), "%s:%s" % (ir.file, ir.line))


def r24b(ctx, P, rts):
    rid = "R24.b"
    ctx.rule(rid, "GUARD: every call from a handler into a heavy core entry point (IndexReader::search, IndexWriter::commit / "
                  "add_documents, Index::compact / reader, index creation) is made inside a closure that is passed to "
                  "tokio::task::spawn_blocking, and the handler maps the JoinError to an HttpError (kind *_join, status 500)")
    n = 0
    for (path, method, h, site) in sorted(rts):
        fns = handler_fns(P, h)
        for f in fns:
            for b, t in f.calls():
                cal = callee_of(t)
                if cal not in HEAVY:
                    continue
                n += 1
                # f must run inside a closure that is passed to spawn_blocking: it is that closure, a closure nested in it, or a
                # helper function all of whose callers (within this handler's code) run inside one
                memo_in = {}

                def runs_blocking(g, depth=0):
                    if g.path in memo_in:
                        return memo_in[g.path]
                    memo_in[g.path] = (False, None)
                    res = (False, None)
                    par_ = P.fn(g.parent) if g.parent else None
                    if g.kind == "closure" and par_ is not None:
                        sl_ = Slice(par_, through_all_calls=True)
                        for pb, pt in par_.calls():
                            if callee_of(pt) == "tokio::task::blocking::spawn_blocking":
                                for a in pt["args"]:
                                    if any(y[0] == "agg" and y[3].get("closure") == g.path for y in sl_.sources(a)):
                                        res = (True, par_)
                        if not res[0] and depth < 6:
                            res = runs_blocking(par_, depth + 1)
                    elif g.kind != "closure" and depth < 6:
                        callers = [c_ for c_ in fns if any(callee_of(t_) == g.path for b_, t_ in c_.calls())]
                        if callers and all(runs_blocking(c_, depth + 1)[0] for c_ in callers):
                            res = (True, runs_blocking(callers[0], depth + 1)[1])
                    memo_in[g.path] = res
                    return res
                inside, par = runs_blocking(f)
                # join error mapped
                mapped = False
                if inside:
                    mappers = join_mappers(P)
                    for g in fns:
                        for gb, gt in g.calls():
                            mp = mappers.get(callee_of(gt))
                            if mp is None or len(gt["args"]) <= mp[0]:
                                continue
                            k = const_str(op_const(gt["args"][mp[0]]))
                            st_ok = mp[1] == 500 or status_of(op_const(gt["args"][1])) == 500
                            if k and k.endswith("_join") and st_ok:
                                mapped = True
                hname = h.split("::")[-1]
                if not inside and hname in LIGHT_EXCEPTIONS:
                    ctx.ob(rid, "%s:%s:%s:listed" % (rid, path, cal.rsplit("::", 1)[1]), True,
                           "listed exception: %s" % LIGHT_EXCEPTIONS[hname], Site(f, b).loc())
                    continue
                ctx.ob(rid, "%s:%s:%s" % (rid, path, cal.rsplit("::", 2)[-2] + "::" + cal.rsplit("::", 1)[1]), inside and mapped,
                       "%s is called inside spawn_blocking and a panic surfaces as a 500 *_join error" % cal.rsplit("::", 1)[1] if inside and mapped else
                       "%s is called at %s %s: a panic in request-driven core code ends the connection without a response"
                       % (cal, Site(f, b).loc(), "outside spawn_blocking" if not inside else "without mapping the JoinError to an HttpError"),
                       Site(f, b).loc())
    ctx.floor(rid, n, 6, "heavy core calls made by handlers")


def r24c(ctx, P):
    rid = "R24.c"
    ctx.rule(rid, "AGREE: constant statuses at HttpError construction sites — bad_request=400, not_found=404, conflict=409; "
                  "from_anyhow(kind, status): index_missing→404, index_exists→409, body_too_large→413, timeout→504, *_join→500, "
                  "unknown_route→404, method_not_allowed→405; no 2xx status flows into an HttpError")
    n = 0
    for name, want in (("bad_request", 400), ("not_found", 404), ("conflict", 409)):
        f = P.fn(HTTPERR + "::" + name)
        if not ctx.anchor(rid, f, "HttpError::" + name):
            continue
        got = None
        for b, i, s in f.stmts():
            if s["k"] == "assign" and s["rv"]["k"] == "agg" and s["rv"].get("adt") == HTTPERR:
                idx = s["rv"]["fields"].index("status")
                got = status_of(op_const(s["rv"]["ops"][idx])) or got
                for c in Slice(f).consts(s["rv"]["ops"][idx]):
                    got = status_of(c) or got
        n += 1
        ctx.ob(rid, "%s:HttpError::%s:status" % (rid, name), got == want, "HttpError::%s -> %s" % (name, got) if got == want else
               "HttpError::%s builds status %s, expected %s" % (name, got, want), "%s:%s" % (f.file, f.line))
    for p, f in sorted(P.fns.items()):
        if f.crate != "searchlite_http" or is_test_or_bench(f) or p.startswith("bin:"):
            continue
        for b, t in f.calls():
            cal = callee_of(t)
            kind = status = None
            if cal == HTTPERR + "::from_anyhow":
                kind = const_str(op_const(t["args"][0]))
                status = status_of(op_const(t["args"][1]))
            elif cal in (HTTPERR + "::bad_request", HTTPERR + "::not_found", HTTPERR + "::conflict"):
                kind = const_str(op_const(t["args"][0]))
                status = {"bad_request": 400, "not_found": 404, "conflict": 409}[cal.rsplit("::", 1)[1]]
            else:
                continue
            n += 1
            want = EXPECT.get(kind) or (500 if kind and kind.endswith("_join") else None)
            ok = status is not None and status >= 400 and (want is None or status == want)
            ctx.ob(rid, "%s:%s:%s" % (rid, f.short.split("::{")[0], kind), ok,
                   "error '%s' -> %s" % (kind, status) if ok else
                   "error '%s' is constructed with status %s%s" % (kind, status, (" (documented: %s)" % want) if want else " (must be a non-2xx constant)"),
                   Site(f, b).loc())
        for b, i, s in f.stmts():
            if s["k"] == "assign" and s["rv"]["k"] == "agg" and s["rv"].get("adt") == HTTPERR and not p.startswith(HTTPERR + "::"):
                idx = s["rv"]["fields"].index("status")
                kidx = s["rv"]["fields"].index("kind")
                st = status_of(op_const(s["rv"]["ops"][idx]))
                kind = const_str(op_const(s["rv"]["ops"][kidx]))
                n += 1
                want = EXPECT.get(kind)
                ok = st is not None and st >= 400 and (want is None or st == want)
                ctx.ob(rid, "%s:%s:%s" % (rid, f.short.split("::{")[0], kind), ok, "error '%s' -> %s" % (kind, st) if ok else
                       "error '%s' is constructed with status %s" % (kind, st), Site(f, b, i).loc())
    ctx.floor(rid, n, 25, "HttpError construction sites")


def r24d(ctx, P, r, fbs):
    rid = "R24.d"
    ctx.rule(rid, "WHO: the Router built in `router` has a `fallback` and a `method_not_allowed_fallback`, both of which return the "
                  "HttpError envelope with a non-2xx status")
    for kind in ("fallback", "method_not_allowed_fallback"):
        v = fbs.get(kind)
        ok = v is not None and (body_ret_ty(P, v[0]) or "").endswith(HTTPERR)
        ctx.ob(rid, "%s:router:%s" % (rid, kind), ok,
               "router.%s(%s) returns the JSON error envelope" % (kind, v[0].split("::")[-1]) if ok else
               "the router has no %s returning HttpError: %s get axum's empty-bodied response instead of {error:{type,reason}}"
               % (kind, "unknown paths" if kind == "fallback" else "known paths with an unsupported method"),
               v[1].loc() if v else "%s:%s" % (r.file, r.line))


def request_context(P, r, rts, fbs):
    """Functions of searchlite-http that run on the async runtime while a request is being answered: handlers, fallbacks,
    middleware error mappers named in `router`, IntoResponse impls — and what they reach inside the crate — minus the closures
    handed to spawn_blocking (a panic there becomes a JoinError, R24.b)."""
    roots = set()
    for (_p, _m, h, _s) in rts:
        roots.add(h)
    for k, (h, _s) in (fbs or {}).items():
        roots.add(h)
    for b, i, st in r.stmts():
        pass
    for b, t in r.calls():
        for a in t["args"]:
            c = op_const(a)
            if c and "fn" in c:
                roots.add(c.get("resolved", c["fn"]))
    for q, f in P.fns.items():
        if f.crate == "searchlite_http" and "IntoResponse" in (f.impl_trait or "") and not is_test_or_bench(f):
            roots.add(q)
    blocking = set()
    for q, f in P.fns.items():
        if f.crate != "searchlite_http":
            continue
        sl = None
        for b, t in f.calls():
            if callee_of(t) == "tokio::task::blocking::spawn_blocking":
                sl = sl or Slice(f, through_all_calls=True)
                for a in t["args"]:
                    for y in sl.sources(a):
                        if y[0] == "agg" and y[3].get("closure"):
                            blocking.add(y[3]["closure"])
    for q in list(blocking):
        g = P.fn(q)
        if g is not None:
            blocking |= {c.path for c in P.closures_of(g)}
    ctxt = set()
    work = [q for q in roots if q in P.fns and P.fns[q].crate == "searchlite_http"]
    while work:
        q = work.pop()
        if q in ctxt or q in blocking:
            continue
        f = P.fns[q]
        if is_test_or_bench(f):
            continue
        ctxt.add(q)
        for c in P.closures_of(f, recursive=False) if "recursive" in P.closures_of.__code__.co_varnames else P.closures_of(f):
            work.append(c.path)
        for b, t in f.calls():
            cal = callee_of(t)
            if cal in P.fns and P.fns[cal].crate == "searchlite_http":
                work.append(cal)
            for a in t["args"]:
                c = op_const(a)
                if c and "fn" in c:
                    g = c.get("resolved", c["fn"])
                    if g in P.fns and P.fns[g].crate == "searchlite_http":
                        work.append(g)
    return ctxt, blocking


def r24e(ctx, P, r, rts, fbs):
    rid = "R24.e"
    from sa.rules.C16 import panic_sites, discharge, UNWRAPS
    from sa.rules import strsafe
    ctx.rule(rid, "PANIC-FREE request context: a panic on the async runtime (outside spawn_blocking) drops the connection without a "
                  "response. In every searchlite-http function that runs while a request is answered (handlers, fallbacks, middleware "
                  "error mappers, IntoResponse impls and what they reach in the crate, minus spawn_blocking closures) there is no "
                  "unwrap/expect/panic!/assert! that is not discharged by a local pattern, and every byte-offset string operation "
                  "(String::truncate/insert/remove/drain/split_off/replace_range, str::split_at, str range index) has an offset that "
                  "is a char boundary by construction (0, len/find/char_indices/Match offsets and their sums, or an "
                  "is_char_boundary-guarded variable)")
    C, blocking = request_context(P, r, rts, fbs)
    ctx.floor(rid + ".context", len(C), 20, "functions in the request context of searchlite-http")
    ctx.floor(rid + ".blocking", len(blocking), 6, "spawn_blocking closures excluded from the context")
    # detector sanity: the same detector finds the start-up panics outside the context
    outside = 0
    for q, f in P.fns.items():
        if f.crate == "searchlite_http" and q not in C and not is_test_or_bench(f):
            outside += len(panic_sites(P, f))
    ctx.floor(rid + ".detector", outside, 1, "explicit panic sites the detector finds in start-up code (main/router/shutdown_signal)")
    nfun = 0
    for q in sorted(C):
        f = P.fns[q]
        ctx.saw(f)
        nfun += 1
        for (site, tail, mac, t) in panic_sites(P, f):
            reason = discharge(P, f, site, t) if callee_of(t) in UNWRAPS else None
            ctx.ob(rid, "%s:%s:%s%s" % (rid, re_closure(f.short), tail, (":" + mac) if mac else ""), reason is not None,
                   "%s at %s discharged (%s)" % (tail, site.loc(), reason) if reason else
                   "%s%s at %s runs on the async runtime while a request is answered: if it fires the client gets no response"
                   % (tail, ("!" + mac) if mac else "", site.loc()), site.loc())
        for (b, t, idxs) in strsafe.byte_offset_calls(f):
            cal = callee_of(t)
            why = None
            ok = True
            for ix in idxs:
                w = strsafe.char_boundary_safe(f, b, t["args"][ix])
                if w is None:
                    ok = False
                else:
                    why = w
            ctx.ob(rid, "%s:%s:%s" % (rid, re_closure(f.short), cal.rsplit("::", 1)[1]), ok,
                   "%s at %s: offset is a char boundary (%s)" % (cal.rsplit("::", 1)[1], Site(f, b).loc(), why) if ok else
                   "%s at %s takes a byte offset that is not a char boundary by construction: on multi-byte text it panics on the async "
                   "runtime and the client gets no response" % (cal.rsplit("::", 1)[1], Site(f, b).loc()), Site(f, b).loc())
    ctx.ob(rid, "%s:request-context-enumerated" % rid, nfun > 0, "%d request-context functions examined, %d spawn_blocking closures excluded" % (nfun, len(blocking)),
           "%s:%s" % (r.file, r.line))


def re_closure(s):
    import re
    return re.sub(r"\{closure#\d+\}", "{closure}", s)


def run(ctx, progs):
    P = progs.get("default")
    r, rts, fbs = routes(P)
    if not ctx.anchor("R24", r, "searchlite_http::router") or rts is None:
        return
    ctx.saw(r)
    ctx.floor("R24.routes", len(rts), 11, "registered routes")
    for (_p, _m, h, _s) in rts:
        for f in handler_fns(P, h):
            ctx.saw(f)
    r24a(ctx, P, rts, fbs)
    r24b(ctx, P, rts)
    r24c(ctx, P)
    r24d(ctx, P, r, fbs)
    r24e(ctx, P, r, rts, fbs)
    ctx.assumptions += ["axum turns a handler's Err(HttpError) into a response via IntoResponse, and a JoinError from spawn_blocking reports a panic of the closure",
                        "middleware errors (timeout, body limit) are converted by handle_middleware_error / map_413 (their statuses are checked in R24.c)"]
