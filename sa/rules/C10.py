"""C10 — hit order and scores follow the sort spec and BM25 (partial: the comparator tables and parameter provenance)."""
from sa import names as N
from sa import boolpaths
import re
from sa.prog import Site, Slice, TERM, callee_of, op_local, op_place, op_const, place_fields
from sa.rules.common import is_test_or_bench

EXPLANATION = ("The numerical value of a BM25 score and the order of a concrete hit list are runtime results and are NOT decided. What is "
               "decided are the finite tables the ordering is built from — values that the code touches only through comparisons: "
               "(a) SortKeyPart::cmp puts a missing value after a present one in BOTH sort orders (table over the two discriminants, "
               "the order field not consulted on those paths); (b) the three direction helpers (compare_ord / compare_f32 / "
               "compare_f64) compare (a, b) in that argument order and map (natural ordering, sort order) to Less/Greater/Equal by "
               "the table 'Asc keeps, Desc flips, Equal stays'; (c) SortKey::cmp breaks ties of all parts by segment_ord and then "
               "doc_id, each compared as (self, other); (d) ascending order selects the minimum and descending the maximum of a "
               "multi-valued field (From<SortOrder> for ValueSelector, and each selector arm calls min / max respectively); (e) every "
               "ScoredTerm handed to the executors takes k1 from IndexOptions.bm25_k1 and b from IndexOptions.bm25_b, and bm25() "
               "receives them in those parameter positions.")

SORT = "searchlite_core::query::sort::"
ORDERING = {255: "Less", 0: "Equal", 1: "Greater"}


def _variants(P, adt_path):
    a = P.adts.get(adt_path)
    return [v["name"] for v in a["variants"]] if a else None


def r10a(ctx, P):
    rid = "R10.a"
    ctx.rule(rid, "TABLE (missing values last): SortKeyPart::cmp, as a decision table over discr(self.value) x discr(other.value): "
                  "(Missing, Missing) = Equal, (Missing, present) = Greater, (present, Missing) = Less — in both sort orders: no path to "
                  "those results reads `order`; a pair of present values of the same kind is delegated to a direction helper with "
                  "(self's value, other's value, self.order)")
    f = P.fn(SORT + "SortKeyPart::cmp")
    sv = _variants(P, SORT + "SortValue")
    if not (ctx.anchor(rid, f, "SortKeyPart::cmp") and ctx.anchor(rid, sv, "SortValue")):
        return
    ctx.saw(f)

    def atom_of_place(pl):
        fl = [e["f"] for e in pl["p"] if isinstance(e, dict) and "f" in e]
        if fl and fl[-1] in ("value", "order"):
            return ("flag", ("self" if pl["l"] == 1 else "other" if pl["l"] == 2 else "_%d" % pl["l"]) + "." + fl[-1])
        return None
    ps = boolpaths.paths(f, 0, lambda b: None, atom_of_place, discr_variants=lambda a: sv, track_return=True)
    ctx.floor(rid, len(ps), 4, "paths through SortKeyPart::cmp")
    A, B = ("discr", "self.value"), ("discr", "other.value")
    bad = []
    n = 0
    for x in sv:
        for y in sv:
            rets = set()
            reads_order = False
            for p_ in ps:
                if p_.cons.get(A, x) == x and p_.cons.get(B, y) == y:
                    rets.add(p_.ret[1] if p_.ret and p_.ret[0] == "const" else ("call:" + p_.ret[1].rsplit("::", 1)[1] if p_.ret and p_.ret[0] == "call" else "?"))
                    if any(a[1].endswith(".order") for a in p_.cons):
                        reads_order = True
            if x == "Missing" or y == "Missing":
                n += 1
                want = "Equal" if (x == y) else ("Greater" if x == "Missing" else "Less")
                if rets != {want} or reads_order:
                    bad.append("(%s, %s) -> %s%s, expected %s in both orders" % (x, y, sorted(rets), " depending on order" if reads_order else "", want))
            elif x == y:
                n += 1
                if not (len(rets) == 1 and list(rets)[0].startswith("call:compare_")):
                    bad.append("(%s, %s) -> %s, expected a direction helper" % (x, y, sorted(rets)))
    ctx.ob(rid, "%s:SortKeyPart::cmp:missing-last" % rid, not bad,
           "missing values sort after present ones in both orders; same-kind pairs go to a direction helper (%d table rows)" % n if not bad else
           "SortKeyPart::cmp deviates: %s" % "; ".join(bad), "%s:%s" % (f.file, f.line))
    # delegation passes (self value, other value, self.order)
    sl = Slice(f, through_all_calls=True)
    for b, t in f.calls():
        cal = callee_of(t)
        if not cal.startswith(SORT + "compare_"):
            continue
        a0 = {x[1] for x in sl.sources(t["args"][0]) if x[0] == "arg"}
        a1 = {x[1] for x in sl.sources(t["args"][1]) if x[0] == "arg"}
        o = sl.sources(t["args"][2])
        ok = a0 == {1} and a1 == {2} and any(x[0] == "field" and "order" in x[2] and x[1] == 1 for x in o)
        ctx.ob(rid, "%s:SortKeyPart::cmp:%s:argument-order" % (rid, cal.rsplit("::", 1)[1]), ok,
               "%s receives (self's value, other's value, self.order)" % cal.rsplit("::", 1)[1] if ok else
               "%s at %s does not receive (self's value, other's value, self.order): the comparison is reversed or uses the wrong order"
               % (cal.rsplit("::", 1)[1], Site(f, b).loc()), Site(f, b).loc())


def r10b(ctx, P):
    rid = "R10.b"
    ctx.rule(rid, "TABLE (direction): each of compare_ord / compare_f32 / compare_f64 computes the natural ordering of (a, b) in that "
                  "argument order and returns it unchanged for Asc, reversed for Desc, Equal for Equal (6 rows each)")
    so = _variants(P, "searchlite_core::api::types::SortOrder")
    if not ctx.anchor(rid, so, "SortOrder"):
        return
    n = 0
    for name in ("compare_ord", "compare_f32", "compare_f64"):
        f = P.inlined(SORT + name, depth=1, small=30)     # a shared `apply_order(natural, order)` helper is read in place
        if not ctx.anchor(rid, f, name):
            continue
        ctx.saw(f)
        n += 1
        order_arg = [i for i in range(1, f.arg_count + 1) if "SortOrder" in f.arg_ty(i)]
        env0 = {order_arg[0]: ("atom", ("arg", "order"), False)} if order_arg else {}
        nat = {}

        def call_atom(t, val, f=f, nat=nat):
            cal = callee_of(t)
            if "Ordering" in t.get("dst_ty", "") and len(t["args"]) == 2 and cal.endswith(("::cmp", "::total_cmp", "::partial_cmp")):
                sl = Slice(f, through_all_calls=True)
                a0 = {x[1] for x in sl.sources(t["args"][0]) if x[0] == "arg"}
                a1 = {x[1] for x in sl.sources(t["args"][1]) if x[0] == "arg"}
                nat["args"] = (a0, a1)
                nat["callee"] = cal
                return ("atom", ("call", "natural"), False)
            if cal.endswith("Ordering::reverse") and t["args"]:
                v = val(t["args"][0])
                if v is not None and v[0] == "atom" and v[1] == ("call", "natural"):
                    return ("atom", v[1], not v[2])
            return None

        def eval_ret(ret, natv):
            flip = {"Less": "Greater", "Greater": "Less", "Equal": "Equal"}
            if ret is None:
                return "?"
            if ret[0] == "const":
                return ret[1]
            if ret[0] == "atom" and ret[1] == ("call", "natural"):
                return flip[natv] if ret[2] else natv
            return "?"
        ps = boolpaths.paths(f, 0, lambda b: None, lambda pl: None, env0=env0, call_atom=call_atom, track_return=True,
                             discr_variants=lambda a: ORDERING if a == ("discr", "natural") else so)
        bad = []
        for natv in ("Less", "Equal", "Greater"):
            for o in so:
                rets = {eval_ret(p_.ret, natv) for p_ in ps
                        if p_.cons.get(("discr", "natural"), natv) == natv and p_.cons.get(("discr", "order"), o) == o}
                flip = {"Less": "Greater", "Greater": "Less", "Equal": "Equal"}
                want = natv if o == "Asc" else flip[natv]
                if rets != {want}:
                    bad.append("(%s, %s) -> %s, expected %s" % (natv, o, sorted(rets), want))
        arg_ok = nat.get("args") == ({1}, {2})
        if not arg_ok:
            bad.append("the natural comparison %s does not compare (a, b) in parameter order" % nat.get("callee", "<none found>"))
        ctx.ob(rid, "%s:%s:direction-table" % (rid, name), not bad,
               "%s: Asc keeps, Desc flips, Equal stays; natural ordering via %s(a, b)" % (name, (nat.get("callee") or "").rsplit("::", 1)[-1]) if not bad else
               "%s deviates: %s" % (name, "; ".join(bad)), "%s:%s" % (f.file, f.line))
    ctx.floor(rid, n, 3, "direction helpers")


def _r10c_chain_form(ctx, P, rid, f):
    sl = Slice(f, through_all_calls=True)
    ret = [d for d in f.defs().get(0, [])]
    if len(ret) != 1 or ret[0]["k"] != "call" or not callee_of(ret[0]["t"]).endswith(("Option::<T>::unwrap_or_else", "Option::<T>::map_or_else")):
        return None
    t = ret[0]["t"]

    def closure_of(o):
        for y in sl.sources(o):
            if y[0] == "agg" and y[3].get("closure") and P.fn(y[3]["closure"]) is not None:
                return P.fn(y[3]["closure"])
        return None
    src = sl.sources(t["args"][0])
    finds = [x[2] for x in src if x[0] == "call" and callee_of(x[2]).endswith(("Iterator::find", "Iterator::find_map"))]
    maps = [x[2] for x in src if x[0] == "call" and callee_of(x[2]).endswith("Iterator::map")]
    zips = [x[2] for x in src if x[0] == "call" and callee_of(x[2]).endswith("Iterator::zip")]
    celse = closure_of(t["args"][1])
    if not (finds and maps and zips and celse is not None):
        return None
    ctx.floor(rid, 1, 1, "then_with producing the return value of SortKey::cmp")
    # (1) tie-break in the fallback closure
    ok1 = ok2 = False
    ctx.saw(celse)
    es = Slice(celse, through_all_calls=True)
    for b, tt in celse.calls():
        if callee_of(tt).endswith("Ordering::then_with") and tt["dst"]["l"] == 0:
            for x in Slice(celse).sources(tt["args"][0]):
                if x[0] == "call" and callee_of(x[2]).endswith("::cmp"):
                    f0 = [z[2] for z in es.sources(x[2]["args"][0]) if z[0] == "field"]
                    f1 = [z[2] for z in es.sources(x[2]["args"][1]) if z[0] == "field"]
                    if any("segment_ord" in z and any("self" in q for q in z) for z in f0) and any("segment_ord" in z and any("other" in q for q in z) for z in f1):
                        ok1 = True
            for y in es.sources(tt["args"][1]):
                if y[0] == "agg" and y[3].get("closure") and P.fn(y[3]["closure"]) is not None:
                    g = P.fn(y[3]["closure"])
                    gsl = Slice(g, through_all_calls=True)
                    for gb, gt in g.calls():
                        if callee_of(gt).endswith("::cmp") and gt["dst"]["l"] == 0:
                            f0 = [z[2] for z in gsl.sources(gt["args"][0]) if z[0] == "field"]
                            f1 = [z[2] for z in gsl.sources(gt["args"][1]) if z[0] == "field"]
                            if any("doc_id" in z and any("self" in q for q in z) for z in f0) and any("doc_id" in z and any("other" in q for q in z) for z in f1):
                                ok2 = True
    ctx.ob(rid, "%s:SortKey::cmp:tie-break" % rid, ok1 and ok2,
           "ties of all sort parts are broken by segment_ord and then doc_id, compared as (self, other)" if ok1 and ok2 else
           "SortKey::cmp does not break ties by (self.segment_ord vs other.segment_ord) then (self.doc_id vs other.doc_id): %s" % (
               "segment comparison missing or reversed" if not ok1 else "document comparison missing or reversed"), "%s:%s" % (f.file, f.line))
    # (2) parts first: zip(self.parts, other.parts), map = SortKeyPart::cmp(pair.0, pair.1), find = first non-equal
    z = zips[0]
    z0 = {(y[1], tuple(y[2])) for y in sl.sources(z["args"][0]) if y[0] == "field"}
    z1 = {(y[1], tuple(y[2])) for y in sl.sources(z["args"][1]) if y[0] == "field"}
    zip_ok = any(l == 1 and "parts" in fl for l, fl in z0) and any(l == 2 and "parts" in fl for l, fl in z1) and \
        not any(l == 2 for l, fl in z0) and not any(l == 1 for l, fl in z1)
    cm = closure_of(maps[0]["args"][1])
    map_ok = False
    if cm is not None:
        ctx.saw(cm)
        for b, tt in cm.calls():
            if callee_of(tt) == SORT + "SortKeyPart::cmp" and tt["dst"]["l"] == 0:
                e0, e1 = _tuple_elem(cm, tt["args"][0]), _tuple_elem(cm, tt["args"][1])
                map_ok = e0 is not None and e1 is not None and e0[0] == e1[0] and e0[1] == 0 and e1[1] == 1
    cf = closure_of(finds[0]["args"][1])
    find_ok = False
    if cf is not None:
        ctx.saw(cf)
        # returns true exactly when the ordering is not Equal: `!o.is_eq()`, `o.is_ne()`, `*o != Equal`
        calls = [callee_of(tt) for b, tt in cf.calls()]
        neg = any(st["k"] == "assign" and st["rv"]["k"] == "unop" and st["rv"].get("op") == "Not" and st["dst"]["l"] == 0 for b, i, st in cf.stmts())
        if any(c.endswith("Ordering::is_eq") for c in calls) and neg and len(calls) == 1:
            find_ok = True
        elif any(c.endswith("Ordering::is_ne") for c in calls) and not neg and len(calls) == 1:
            find_ok = True
        elif any(re.search(r"PartialEq(<[^>]*>)?>?::ne$", c) for c in calls) and len(calls) == 1:
            find_ok = any((op_const(a) or {}).get("txt", "").endswith("Equal") or "Equal" in str(op_const(a) or "") for b, tt in cf.calls() for a in tt["args"]) or \
                any(st["k"] == "assign" and st["rv"]["k"] == "agg" and st["rv"].get("variant") == "Equal" for b, i, st in cf.stmts())
    ok3 = zip_ok and map_ok and find_ok
    ctx.ob(rid, "%s:SortKey::cmp:parts-first" % rid, ok3,
           "the first non-equal SortKeyPart::cmp(self part, other part) is returned as it is" if ok3 else
           "SortKey::cmp (iterator form): %s" % ("the zip is not (self.parts, other.parts)" if not zip_ok else
                                                  "the mapped comparison is not SortKeyPart::cmp(pair.0, pair.1)" if not map_ok else
                                                  "the element picked is not the first non-equal comparison"), "%s:%s" % (f.file, f.line))
    return True


def r10c(ctx, P):
    rid = "R10.c"
    ctx.rule(rid, "ORDER (tie-break): in <SortKey as Ord>::cmp a non-equal part comparison is returned as it is, and the value returned "
                  "after the loop over the parts is segment_ord.cmp(other.segment_ord).then_with(|| doc_id.cmp(other.doc_id)), each "
                  "comparing (self, other) in that order")
    f = P.fn("<searchlite_core::query::sort::SortKey as core::cmp::Ord>::cmp")
    if not ctx.anchor(rid, f, "<SortKey as Ord>::cmp"):
        return
    ctx.saw(f)
    sl = Slice(f, through_all_calls=True)
    sl0 = Slice(f)
    thens = [(b, t) for b, t in f.calls() if callee_of(t).endswith("Ordering::then_with") and t["dst"]["l"] == 0]
    chain = None
    if not thens:
        # iterator form: zip(self.parts, other.parts).map(|(l, r)| l.cmp(r)).find(|o| o != Equal).unwrap_or_else(|| tie-break)
        chain = _r10c_chain_form(ctx, P, rid, f)
        if chain is not None:
            return
    ctx.floor(rid, len(thens), 1, "then_with producing the return value of SortKey::cmp")
    for b, t in thens:
        first = [x for x in sl0.sources(t["args"][0]) if x[0] == "call" and callee_of(x[2]).endswith("::cmp")]
        ok1 = False
        for x in first:
            c = x[2]
            s0, s1 = sl.sources(c["args"][0]), sl.sources(c["args"][1])
            if any(y[0] == "field" and "segment_ord" in y[2] and y[1] == 1 for y in s0) and any(y[0] == "field" and "segment_ord" in y[2] and y[1] == 2 for y in s1):
                ok1 = True
        ok2 = False
        for y in sl.sources(t["args"][1]):
            if y[0] == "agg" and y[3].get("closure"):
                g = P.fn(y[3]["closure"])
                if g is None:
                    continue
                ctx.saw(g)
                gsl = Slice(g, through_all_calls=True)
                for gb, gt in g.calls():
                    if callee_of(gt).endswith("::cmp") and gt["dst"]["l"] == 0:
                        f0 = [z[2] for z in gsl.sources(gt["args"][0]) if z[0] == "field"]
                        f1 = [z[2] for z in gsl.sources(gt["args"][1]) if z[0] == "field"]
                        if any("doc_id" in z and any("self" in q for q in z) for z in f0) and any("doc_id" in z and any("other" in q for q in z) for z in f1):
                            ok2 = True
        ctx.ob(rid, "%s:SortKey::cmp:tie-break" % rid, ok1 and ok2,
               "ties of all sort parts are broken by segment_ord and then doc_id, compared as (self, other)" if ok1 and ok2 else
               "SortKey::cmp does not break ties by (self.segment_ord vs other.segment_ord) then (self.doc_id vs other.doc_id): %s" % (
                   "segment comparison missing or reversed" if not ok1 else "document comparison missing or reversed"), Site(f, b).loc())
    # a non-equal part comparison is returned unchanged, and it compares (self's part, other's part)
    ok3 = False
    why3 = "no `return <SortKeyPart::cmp result>` found"
    for d in f.defs().get(0, []):
        if d["k"] != "assign" or d["rv"]["k"] != "use":
            continue
        for x in sl0.sources(d["rv"]["a"]):
            if not (x[0] == "call" and callee_of(x[2]) == SORT + "SortKeyPart::cmp"):
                continue
            c = x[2]
            e0, e1 = _tuple_elem(f, c["args"][0]), _tuple_elem(f, c["args"][1])
            if e0 is None or e1 is None or e0[0] != e1[0]:
                why3 = "the compared parts are not the two elements of one zipped pair"
                continue
            zips = [y[2] for y in sl.sources(e0[0]) if y[0] == "call" and callee_of(y[2]).endswith("Iterator::zip")]
            zip_ok = False
            for z in zips:
                z0 = {(y[1], y[2]) for y in sl.sources(z["args"][0]) if y[0] == "field"}
                z1 = {(y[1], y[2]) for y in sl.sources(z["args"][1]) if y[0] == "field"}
                if any(l == 1 and "parts" in fl for l, fl in z0) and any(l == 2 and "parts" in fl for l, fl in z1) and \
                        not any(l == 2 for l, fl in z0) and not any(l == 1 for l, fl in z1):
                    zip_ok = True
            if e0[1] == 0 and e1[1] == 1 and zip_ok:
                ok3 = True
            else:
                why3 = "SortKeyPart::cmp is not called as (self's part, other's part) (elements %s/%s of zip(%s))" % (
                    e0[1], e1[1], "self.parts, other.parts" if zip_ok else "not self.parts, other.parts")
    ctx.ob(rid, "%s:SortKey::cmp:parts-first" % rid, ok3,
           "the first non-equal SortKeyPart::cmp(self part, other part) is returned as it is" if ok3 else
           "SortKey::cmp: %s" % why3, "%s:%s" % (f.file, f.line))


def _tuple_elem(f, operand):
    """(base local, last tuple index) of the place an operand is copied / borrowed from."""
    l = op_local(operand)
    seen = set()
    while l is not None and l not in seen:
        seen.add(l)
        dfs = [d for d in f.defs().get(l, []) if not d["partial"]]
        if len(dfs) != 1 or dfs[0]["k"] != "assign":
            return None
        rv = dfs[0]["rv"]
        pl = rv["place"] if rv["k"] == "ref" else (op_place(rv["a"]) if rv["k"] in ("use", "cast") else None)
        if pl is None:
            return None
        idx = [e["i"] for e in pl["p"] if isinstance(e, dict) and "i" in e]
        if idx:
            return (pl["l"], idx[-1])
        l = pl["l"]
    return None


def r10d(ctx, P):
    rid = "R10.d"
    ctx.rule(rid, "TABLE (multi-valued fields): From<SortOrder> for ValueSelector maps Asc -> Min and Desc -> Max; in every function that "
                  "switches on a ValueSelector, the Min arm's result comes from a minimum operation (min / min_by / min_by_key) and "
                  "the Max arm's from a maximum operation, never the other way round")
    so = _variants(P, "searchlite_core::api::types::SortOrder")
    vs = _variants(P, SORT + "ValueSelector")
    if not (ctx.anchor(rid, so, "SortOrder") and ctx.anchor(rid, vs, "ValueSelector")):
        return
    conv = [f for q, f in P.fns.items() if q.startswith("<searchlite_core::query::sort::ValueSelector as core::convert::From<") and q.endswith("::from")]
    if ctx.anchor(rid, conv, "From<SortOrder> for ValueSelector"):
        f = conv[0]
        ctx.saw(f)
        ps = boolpaths.paths(f, 0, lambda b: None, lambda pl: None, env0={1: ("atom", ("arg", "order"), False)}, track_return=True,
                             discr_variants=lambda a: so)
        got = {}
        for p_ in ps:
            got.setdefault(p_.cons.get(("discr", "order")), set()).add(p_.ret[1] if p_.ret and p_.ret[0] == "const" else "?")
        ok = got.get("Asc") == {"Min"} and got.get("Desc") == {"Max"}
        ctx.ob(rid, "%s:ValueSelector::from" % rid, ok, "ascending selects the minimum, descending the maximum" if ok else
               "ValueSelector::from maps %s (expected Asc -> Min, Desc -> Max)" % {k: sorted(v) for k, v in got.items()}, "%s:%s" % (f.file, f.line))
    n = 0
    for q, f in sorted(P.fns.items()):
        if not q.startswith(SORT) or is_test_or_bench(f) or f in conv:
            continue
        for b in sorted(f.reachable()):
            t = f.blocks[b]["term"]
            if t["k"] != "switch":
                continue
            is_sel = False
            for d in f.defs().get(op_local(t["on"]), []):
                if d["k"] == "assign" and d["rv"]["k"] == "discr":
                    pl = d["rv"]["place"]
                    ty = f.local_ty(pl["l"])
                    fl = [e for e in pl["p"] if isinstance(e, dict) and "f" in e]
                    if ("ValueSelector" in ty and not fl) or (fl and fl[-1]["f"] == "selector"):
                        is_sel = True
            if not is_sel:
                continue
            n += 1
            ctx.saw(f)
            vals = dict(zip(t["values"], t["targets"]))
            arms = {}
            for v, tg in vals.items():
                arms[vs[v]] = tg
            if t.get("otherwise") is not None and len(arms) < len(vs):
                for nm in vs:
                    if nm not in arms and f.blocks[t["otherwise"]]["term"]["k"] != "unreachable":
                        arms[nm] = t["otherwise"]
            bad = []
            for nm, tg in arms.items():
                region = f.dominated_region(tg)
                ops = set()
                for rb in region:
                    tt = f.blocks[rb]["term"]
                    if tt["k"] == "call":
                        tail = callee_of(tt).rsplit("::", 1)[1]
                        if tail in ("min", "min_by", "min_by_key", "max", "max_by", "max_by_key", "first", "last"):
                            ops.add(tail)
                want = "min" if nm == "Min" else "max"
                wrong = [o for o in ops if not o.startswith(want)]
                if wrong or not ops:
                    bad.append("%s arm uses %s" % (nm, sorted(ops) or "no min/max operation"))
            ctx.ob(rid, "%s:%s:selector-arms" % (rid, f.short), not bad,
                   "Min arm takes a minimum, Max arm a maximum" if not bad else "selector arms in %s: %s" % (f.short, "; ".join(bad)),
                   Site(f, b).loc())
    ctx.floor(rid, n, 2, "switches on a ValueSelector (keyword values, pick_numeric)")


def r10e(ctx, P):
    rid = "R10.e"
    ctx.rule(rid, "FLOW (BM25 parameters): every construction of wand::ScoredTerm outside tests takes `k1` from a read of "
                  "IndexOptions.bm25_k1 and `b` from IndexOptions.bm25_b (not swapped, not constants); wand::score_tf passes its k1 / b "
                  "parameters to bm25() in the k1 / b positions")
    adt = P.adts.get("searchlite_core::query::wand::ScoredTerm")
    if not ctx.anchor(rid, adt, "wand::ScoredTerm"):
        return
    names = [x[0] for x in adt["variants"][0]["fields"]]
    if not (ctx.anchor(rid, "k1" in names, "ScoredTerm.k1") and ctx.anchor(rid, "b" in names, "ScoredTerm.b")):
        return
    ik, ib = names.index("k1"), names.index("b")
    n = 0
    for q, f in sorted(P.fns.items()):
        if f.crate != "searchlite_core" or is_test_or_bench(f) or any("derive" in m or m in ("Clone", "Default") for m in f.macros):
            continue
        sl = None
        for b, i, st in f.stmts():
            if st["k"] == "assign" and st["rv"]["k"] == "agg" and (st["rv"].get("adt") or "") == "searchlite_core::query::wand::ScoredTerm":
                sl = sl or Slice(f, through_all_calls=False)
                n += 1
                ctx.saw(f)
                fk = sl.fields(st["rv"]["ops"][ik])
                fb = sl.fields(st["rv"]["ops"][ib])
                ok = "bm25_k1" in fk and "bm25_b" not in fk and "bm25_b" in fb and "bm25_k1" not in fb
                ctx.ob(rid, "%s:%s:ScoredTerm" % (rid, f.short), ok,
                       "k1 <- options.bm25_k1, b <- options.bm25_b" if ok else
                       "ScoredTerm built at %s takes k1 from %s and b from %s instead of the index's bm25_k1 / bm25_b" % (
                           Site(f, b, i).loc(), sorted(fk) or "a constant", sorted(fb) or "a constant"), Site(f, b, i).loc())
    ctx.floor(rid, n, 2, "ScoredTerm constructions outside tests")
    g = P.fn("searchlite_core::query::wand::score_tf")
    bm = P.fn("searchlite_core::query::bm25::bm25")
    if ctx.anchor(rid, g, "wand::score_tf") and ctx.anchor(rid, bm, "bm25::bm25"):
        pn = {(bm.locals[i].get("name")): i for i in range(1, bm.arg_count + 1)}
        gn = {(g.locals[i].get("name")): i for i in range(1, g.arg_count + 1)}
        gsl = Slice(g)
        for b, t in g.calls():
            if callee_of(t) != "searchlite_core::query::bm25::bm25":
                continue
            bad = []
            for nm in ("tf", "df", "avgdl", "docs", "k1", "b"):
                if nm in pn and nm in gn:
                    got = gsl.args(t["args"][pn[nm] - 1])
                    if got != {gn[nm]}:
                        bad.append("%s <- %s" % (nm, sorted(g.locals[x].get("name") or x for x in got)))
            ctx.ob(rid, "%s:score_tf:bm25-argument-positions" % rid, not bad,
                   "score_tf hands tf, df, avgdl, docs, k1, b to bm25() in the matching positions" if not bad else
                   "score_tf passes the wrong value to bm25(): %s" % "; ".join(bad), Site(g, b).loc())


def r10f(ctx, P):
    rid = "R10.f"
    from sa.rules.C25 import natural_loops
    ctx.rule(rid, "ACCUMULATE (BM25's document length): the per-document field length the segment build writes to the `_len:<field>` "
                  "column (the value given to FastFieldsWriter::set together with a key from doc_length_key) is assigned inside the "
                  "loop over the field's values; every such in-loop definition must depend on the variable's previous value — a sum "
                  "over all values of a multi-valued field, as the term frequencies are — and not overwrite it with the current "
                  "value's count")
    f = P.fn("searchlite_core::index::segment::SegmentWriter::<'a>::write_segment_stream")
    if not ctx.anchor(rid, f, "SegmentWriter::write_segment_stream"):
        return
    ctx.saw(f)
    sl = Slice(f, through_all_calls=True)
    loops = natural_loops(f)
    n = 0
    for b, t in f.calls():
        if not callee_of(t).endswith("FastFieldsWriter::set") or len(t["args"]) < 4:
            continue
        if not any(x[0] == "call" and callee_of(x[2]).endswith("fastfields::doc_length_key") for x in sl.sources(t["args"][1])):
            continue
        # the variable behind the value
        var = None
        for x in Slice(f).sources(t["args"][3]):
            if x[0] == "agg" and (x[3].get("adt") or "").endswith("FastValue"):
                for o in x[3]["ops"]:
                    l = op_local(o)
                    seen = set()
                    while l is not None and l not in seen:
                        seen.add(l)
                        if f.locals[l].get("name"):
                            var = l
                            break
                        dfs = [d for d in f.defs().get(l, []) if not d.get("partial")]
                        if len(dfs) != 1 or dfs[0]["k"] != "assign" or dfs[0]["rv"]["k"] not in ("use", "cast"):
                            break
                        l = op_local(dfs[0]["rv"]["a"])
        if var is None:
            continue
        n += 1
        name = f.locals[var].get("name")
        in_loop_defs = []
        for d in f.defs().get(var, []):
            # loops that contain the definition but not the write to the column: the loop over the values
            for h, body in loops:
                if d["b"] in body and b not in body:
                    in_loop_defs.append(d)
                    break
        bad = []
        for d in in_loop_defs:
            if d["k"] == "call":
                reads = set()
                for a in d["t"]["args"]:
                    reads |= sl.locals(a)
            else:
                rv = d["rv"]
                ops = [rv["a"]] if rv["k"] in ("use", "cast", "unop") else ([rv["a"], rv["b"]] if rv["k"] == "binop" else rv.get("ops", []))
                reads = set()
                for a in ops:
                    if isinstance(a, dict) and op_local(a) is not None:
                        reads |= sl.locals(a)
            if var not in reads:
                bad.append(Site(f, d["b"], d.get("i", TERM)))
        ctx.ob(rid, "%s:write_segment_stream:%s-accumulates" % (rid, name), bool(in_loop_defs) and not bad,
               "`%s` is summed over the values of the field (%d in-loop definition(s))" % (name, len(in_loop_defs)) if in_loop_defs and not bad else
               ("`%s` is overwritten at %s inside the loop over the field's values: the stored document length counts only the last value, "
                "so BM25's length normalisation (doc_len and avgdl) is wrong for multi-valued text" % (name, bad[0].loc())) if bad else
               "`%s` is not accumulated inside a loop over the field's values" % name, bad[0].loc() if bad else Site(f, b).loc())
    ctx.floor(rid, n, 1, "document-length write (_len:<field>) in the segment build")


THOROUGH_FEATURES = ['r10a', 'r10b', 'r10c', 'r10d', 'r10e', 'r10f']


def run(ctx, progs):
    P = progs.get("default")
    r10f(ctx, P)
    r10a(ctx, P)
    r10b(ctx, P)
    r10c(ctx, P)
    r10d(ctx, P)
    r10e(ctx, P)
    ctx.assumptions += ["Ord::cmp / f32::total_cmp / f64::total_cmp return the natural ordering of their arguments",
                        "numerical values of scores, and the order of concrete hit lists, are not decided"]
