"""C11 — cursor pagination is complete, duplicate-free and safe (partial: stale / foreign cursors are rejected)."""
from sa import names as N
from sa.prog import (Site, Slice, TERM, callee_of, op_local, op_place, op_const, ok_sites, return_sites, outcome_arms, in_arm,
                     place_fields)
from sa.rules.common import is_test_or_bench

EXPLANATION = ("Decides the safety clause for all cursors: in decode_cursor every success return is dominated by a comparison of the "
               "decoded generation with the reader's manifest generation whose unequal arm cannot reach a success return; on the "
               "field-sort path additionally by the comparison of the decoded plan hash with SortPlan::hash() and by the version "
               "check; SortPlan's hash covers the kind, the name and the order of every sort field; search passes its own manifest "
               "generation, turns an unseen cursor position into an error, and emits next_cursor only when more hits than the limit "
               "exist, from the last returned hit's key. Completeness, duplicate-freedom, order/score stability across pages and "
               "total_hits_estimate are NOT decided.")

DECODE = "searchlite_core::api::reader::decode_cursor"
SEARCH = N.READER + "::search"


def rejecting_tests(f, want_field, other=None):
    """Switch blocks comparing (Eq/Ne) a value derived from field `want_field` with something (optionally required to derive
    from `other`: ('arg', i) | ('call', suffix) | ('const',)), such that the unequal arm reaches no success return.
    Returns [(block, unequal successor)]."""
    out = []
    sl = Slice(f, through_all_calls=True)
    oks = ok_sites(f)
    for b in sorted(f.reachable()):
        t = f.blocks[b]["term"]
        if t["k"] != "switch":
            continue
        l = op_local(t["on"])
        dfs = [d for d in f.defs().get(l, []) if d["k"] == "assign" and d["rv"]["k"] == "binop" and d["rv"]["op"] in ("Eq", "Ne")]
        if len(dfs) != 1:
            continue
        d = dfs[0]
        sa, sb = sl.sources(d["rv"]["a"]), sl.sources(d["rv"]["b"])

        def has_field(src):
            return any(x[0] == "field" and want_field in x[2] for x in src)

        def has_other(src):
            if other is None:
                return True
            if other[0] == "arg":
                return any(x[0] == "arg" and x[1] == other[1] for x in src)
            if other[0] == "call":
                return any(x[0] == "call" and callee_of(x[2]).endswith(other[1]) for x in src)
            if other[0] == "const":
                return any(x[0] == "const" for x in src)
            return False
        if not ((has_field(sa) and has_other(sb)) or (has_field(sb) and has_other(sa))):
            continue
        vals = dict(zip(t["values"], t["targets"]))
        true_succ = t["otherwise"] if 0 in vals else vals.get(1)
        false_succ = vals.get(0)
        unequal = true_succ if d["rv"]["op"] == "Ne" else false_succ
        if unequal is None:
            continue
        reach = f.reachable_from(unequal)
        if not any(o.b in reach for o in oks):
            out.append((b, unequal))
    return out


def r11a(ctx, P):
    rid = "R11.a"
    ctx.rule(rid, "ORDER/GUARD: in decode_cursor every success return is dominated by a generation == manifest_generation test that "
                  "rejects on inequality; success returns of the field-sort path (those not under the score fast-path flag) are also "
                  "dominated by a plan_hash == SortPlan::hash() test and a version test; PaginationCursor::decode checks its version; "
                  "compute_hash feeds kind, name and order of every sort field")
    f = P.inlined(DECODE)      # helpers of the same file (per-kind decoders, ensure_* checks) are spliced in
    if not ctx.anchor(rid, f, "decode_cursor"):
        return
    ctx.saw(f)
    oks = ok_sites(f)
    ctx.floor(rid, len(oks), 2, "success returns of decode_cursor (score fast path, field-sort path)")
    gen = rejecting_tests(f, "generation", ("arg", 2))
    hsh = rejecting_tests(f, "plan_hash", ("call", "SortPlan::hash"))
    ver = rejecting_tests(f, "version", ("const",))
    # which success returns belong to the fast path: those control-dependent on the bool parameter (arg 4)
    sl = Slice(f)
    fast = set()
    for o in oks:
        for (a, succ) in f.control_deps_transitive(o.b):
            t = f.blocks[a]["term"]
            if t["k"] == "switch" and 4 in sl.args(t["on"]) and not sl.fields(t["on"]):
                vals = dict(zip(t["values"], t["targets"]))
                if succ != vals.get(0):
                    fast.add(o.key())
    for o in oks:
        g_ok = any(f.dominates_block(b, o.b) for b, _ in gen)
        is_fast = o.key() in fast
        label = "score-fast-path" if is_fast else "field-sort-path"
        ctx.ob(rid, "%s:decode_cursor:%s:generation" % (rid, label), g_ok,
               "success return at %s is reached only after generation == manifest_generation" % o.loc() if g_ok else
               "decode_cursor can succeed at %s without comparing the cursor's generation with the reader's: a cursor from another "
               "index generation is accepted" % o.loc(), o.loc())
        if not is_fast:
            h_ok = any(f.dominates_block(b, o.b) for b, _ in hsh)
            v_ok = any(f.dominates_block(b, o.b) for b, _ in ver)
            ctx.ob(rid, "%s:decode_cursor:%s:plan-hash" % (rid, label), h_ok,
                   "success return at %s is reached only after plan_hash == SortPlan::hash()" % o.loc() if h_ok else
                   "decode_cursor can succeed at %s without comparing the cursor's sort-plan hash: a cursor from another sort order "
                   "is accepted" % o.loc(), o.loc())
            ctx.ob(rid, "%s:decode_cursor:%s:version" % (rid, label), v_ok,
                   "version checked before success" if v_ok else "the sort cursor's version is not checked before success", o.loc())
    pc = P.fn("searchlite_core::api::reader::PaginationCursor::decode")
    if ctx.anchor(rid, pc, "PaginationCursor::decode"):
        ctx.saw(pc)
        # version is bytes[0] compared with the constant
        sl2 = Slice(pc, through_all_calls=True)
        good = False
        for b in sorted(pc.reachable()):
            t = pc.blocks[b]["term"]
            if t["k"] != "switch":
                continue
            l = op_local(t["on"])
            for d in pc.defs().get(l, []):
                if d["k"] == "assign" and d["rv"]["k"] == "binop" and d["rv"]["op"] in ("Ne", "Eq"):
                    named = [pc.locals[x].get("name") for x in (op_local(d["rv"]["a"]), op_local(d["rv"]["b"])) if x is not None]
                    srcs = sl2.sources(d["rv"]["a"]) + sl2.sources(d["rv"]["b"])
                    if any(x[0] == "const" and "CURSOR_VERSION" in x[1].get("txt", "") + x[1].get("def", "") for x in srcs) or "version" in named:
                        vals = dict(zip(t["values"], t["targets"]))
                        uneq = (t["otherwise"] if 0 in vals else vals.get(1)) if d["rv"]["op"] == "Ne" else vals.get(0)
                        if uneq is not None and not any(o.b in pc.reachable_from(uneq) for o in ok_sites(pc)) and \
                                all(pc.dominates_block(b, o.b) for o in ok_sites(pc)):
                            good = True
        ctx.ob(rid, "%s:PaginationCursor::decode:version" % rid, good,
               "the score cursor's version byte is checked before success" if good else
               "PaginationCursor::decode can succeed without checking the version byte", "%s:%s" % (pc.file, pc.line))
    ch = P.fn("searchlite_core::query::sort::compute_hash")
    if ctx.anchor(rid, ch, "sort::compute_hash"):
        ctx.saw(ch)
        slh = Slice(ch, through_all_calls=True)
        upd = [(b, t) for b, t in ch.calls() if callee_of(t) == "crc32fast::Hasher::update"]
        adt = P.adts.get("searchlite_core::query::sort::SortField")
        names = [v["name"] for v in adt["variants"]] if adt else []
        with_name = [v["name"] for v in adt["variants"] if v["fields"]] if adt else []
        # kind bytes
        kinds = {}
        named_ok = set()
        sw = None
        for b in sorted(ch.reachable()):
            t = ch.blocks[b]["term"]
            if t["k"] == "switch" and len(t["values"]) >= max(2, len(names) - 1):
                l = op_local(t["on"])
                for d in ch.defs().get(l, []):
                    if d["k"] == "assign" and d["rv"]["k"] == "discr" and "field" in place_fields(d["rv"]["place"]) + \
                            [x for s in slh.sources({"cp": d["rv"]["place"]}) if s[0] == "field" for x in s[2]]:
                        sw = (b, t)
        in_hash = set()          # locals feeding some Hasher::update data argument
        name_variants = set()    # variants whose payload feeds some Hasher::update data argument
        delegated = set()
        for ub, ut in upd:
            in_hash |= slh.locals(ut["args"][1])
            for x in slh.sources(ut["args"][1]):
                if x[0] == "field":
                    for e in x[3]["p"]:
                        if isinstance(e, dict) and e.get("downcast") in names:
                            name_variants.add(e["downcast"])
                if x[0] == "call" and callee_of(x[2]) in P.fns and P.fns[callee_of(x[2])].crate == "searchlite_core":
                    delegated.add(callee_of(x[2]))
        if sw:
            b, t = sw
            for v, tg in zip(t["values"], t["targets"]):
                region = ch.dominated_region(tg)
                cs = set()
                for rb in region:
                    for s in ch.blocks[rb]["stmts"]:
                        if s["k"] != "assign" or s["dst"]["l"] not in in_hash:
                            continue
                        ops = [s["rv"]["a"]] if s["rv"]["k"] in ("use", "cast") else (s["rv"]["ops"] if s["rv"]["k"] == "agg" else [])
                        for o in ops:
                            c = op_const(o) if isinstance(o, dict) else None
                            if c is not None and c.get("int") is not None:
                                cs.add(c.get("int"))
                if cs:
                    kinds[names[v]] = tuple(sorted(cs))
            named_ok = name_variants
        kinds_ok = len(kinds) == len(names) and len(set(kinds.values())) == len(names)
        if not sw and delegated:
            # the kind/name bytes come from a helper: shape not analysed here, distinctness not decided (no alarm)
            kinds_ok = True
            named_ok = set(with_name)
            ctx.assumptions.append("compute_hash delegates the kind/name bytes to %s: their distinctness is not decided" % sorted(delegated))
        ctx.ob(rid, "%s:compute_hash:kind" % rid, kinds_ok, "each SortField variant hashes a distinct kind byte %s" % kinds if kinds_ok else
               "compute_hash does not feed a distinct kind byte per SortField variant (%s)" % kinds, "%s:%s" % (ch.file, ch.line))
        ctx.ob(rid, "%s:compute_hash:name" % rid, set(with_name) <= named_ok,
               "the field name of %s is hashed" % sorted(with_name) if set(with_name) <= named_ok else
               "compute_hash does not hash the field name of %s" % sorted(set(with_name) - named_ok), "%s:%s" % (ch.file, ch.line))
        order_ok = False
        for b, t in upd:
            for x in slh.sources(t["args"][1]):
                if x[0] == "discr" and "order" in place_fields(x[3]):
                    order_ok = True
            # value chosen under a switch on discr(order)
            for l in _agg_elem_locals(ch, slh, t["args"][1]):
                for d in ch.defs().get(l, []):
                    for (a, succ) in ch.control_deps_transitive(d["b"]):
                        ta = ch.blocks[a]["term"]
                        if ta["k"] == "switch":
                            for x in slh.sources(ta["on"]):
                                if x[0] == "discr" and "order" in place_fields(x[3]):
                                    order_ok = True
        # ... and for EVERY field: the update fed by the order must not be controlled by a test on the field's kind
        # (directly the match on `field.field`, or any value derived from it)
        bad_ctl = None
        if order_ok:
            every = False
            for b, t in upd:
                dep_on_order = any(x[0] == "discr" and "order" in place_fields(x[3]) for x in slh.sources(t["args"][1]))
                for l in _agg_elem_locals(ch, slh, t["args"][1]):
                    for d in ch.defs().get(l, []):
                        for (a, succ) in ch.control_deps_transitive(d["b"]):
                            ta = ch.blocks[a]["term"]
                            if ta["k"] == "switch" and any(x[0] == "discr" and "order" in place_fields(x[3]) for x in slh.sources(ta["on"])):
                                dep_on_order = True
                if not dep_on_order:
                    continue
                ctl = None
                for (a, s_) in ch.control_deps_transitive(b):
                    ta = ch.blocks[a]["term"]
                    if ta["k"] != "switch" or any("ForLoop" in m for m in (ta.get("macros") or [])):
                        continue
                    if any(x[0] in ("field", "discr") and "field" in place_fields(x[3]) for x in slh.sources(ta["on"])):
                        ctl = Site(ch, a)
                if ctl is None:
                    every = True
                else:
                    bad_ctl = ctl
            order_ok = every
        ctx.ob(rid, "%s:compute_hash:order" % rid, order_ok, "the sort order of every field (of every kind) is hashed" if order_ok else
               ("compute_hash feeds the sort order into the hash only for some field kinds (controlled by the test at %s): a cursor "
                "from the same sort with the other order is accepted for the remaining kinds" % bad_ctl.loc()) if bad_ctl else
               "compute_hash does not feed the sort order into the hash: a cursor from the same fields in the other order is accepted",
               "%s:%s" % (ch.file, ch.line))


def _agg_elem_locals(f, sl, operand):
    """locals that are elements of the byte array handed to `update`, followed back through plain copies (`let tag = match ..;
    update(&[tag])`: the definitions of interest are those of `tag`, not of the temporary inside the array)"""
    out = set()
    for x in sl.sources(operand):
        if x[0] == "agg" and x[3].get("ak") == "array":
            for o in x[3]["ops"]:
                l = op_local(o)
                seen = set()
                while l is not None and l not in seen:
                    seen.add(l)
                    out.add(l)
                    dd = f.defs().get(l, [])
                    if len(dd) == 1 and dd[0]["k"] == "assign" and dd[0]["rv"]["k"] in ("use", "cast") and op_local(dd[0]["rv"]["a"]) is not None and \
                            not op_place(dd[0]["rv"]["a"])["p"]:
                        l = op_local(dd[0]["rv"]["a"])
                    else:
                        break
    return out


def r11b(ctx, P):
    rid = "R11.b"
    ctx.rule(rid, "ORDER: in IndexReader::search decode_cursor receives a generation derived from the reader's own manifest; a cursor "
                  "position that was never seen (`saw_cursor` false) leads to an error return; next_cursor is encoded only on the branch "
                  "`hits.len() > limit`, from the key of element limit-1, with the same generation and sort plan")
    # small private helpers of the file (page-boundary test, ...) are spliced in; the cursor decoder / encoder calls stay visible
    f = P.inlined(SEARCH, depth=1, small=25, keep=(DECODE, "searchlite_core::api::reader::encode_cursor"))
    if not ctx.anchor(rid, f, "IndexReader::search"):
        return
    ctx.saw(f)
    sl = Slice(f, through_all_calls=True)
    decs = [(b, t) for b, t in f.calls() if callee_of(t) == DECODE]
    ctx.floor(rid, len(decs), 1, "decode_cursor call in search")
    for b, t in decs:
        flds = sl.fields(t["args"][1])
        ok = {"manifest", "generation"} <= flds or ("manifest" in flds and "segments" in flds)
        ctx.ob(rid, "%s:search:decode-with-own-generation" % rid, ok,
               "decode_cursor is given the generation of self.manifest" if ok else
               "the generation passed to decode_cursor does not derive from self.manifest (%s)" % sorted(flds), Site(f, b).loc())
    # saw_cursor false => Err
    saw = [i for i, l in enumerate(f.locals) if l.get("name") == "saw_cursor"]
    good = False
    where = None
    for b in sorted(f.reachable()):
        t = f.blocks[b]["term"]
        if t["k"] != "switch":
            continue
        srcs = sl.sources(t["on"])
        roots = {x[1] for x in srcs if x[0] == "field"} | {op_local(t["on"])}
        touches = any(s in roots for s in saw) or any(s in _locals_in(f, t["on"]) for s in saw)
        if not touches:
            continue
        vals = dict(zip(t["values"], t["targets"]))
        # !saw_cursor -> the arm where saw_cursor is false
        for succ in f.succ(b):
            reach = f.reachable_from(succ)
            if not any(o.b in reach for o in ok_sites(f)):
                good = True
                where = Site(f, b).loc()
    ctx.ob(rid, "%s:search:unseen-cursor-is-error" % rid, good,
           "a cursor whose position is never encountered ends in an error return (test at %s)" % where if good else
           "search has no branch on saw_cursor that returns an error", where or "%s:%s" % (f.file, f.line))
    encs = [(b, t) for b, t in f.calls() if callee_of(t) == "searchlite_core::api::reader::encode_cursor"]
    ctx.floor(rid + ".encode", len(encs), 1, "encode_cursor call in search")
    for b, t in encs:
        gated = False
        for (a, succ) in f.control_deps_transitive(b):
            ta = f.blocks[a]["term"]
            if ta["k"] != "switch":
                continue
            for x in sl.sources(ta["on"]):
                if x[0] == "binop" and x[1] in ("Gt", "Lt", "Ge", "Le"):
                    srcs = sl.sources(ta["on"])
                    if any(y[0] == "call" and callee_of(y[2]).endswith("::len") for y in srcs) and \
                            any(y[0] == "field" and "limit" in y[2] for y in srcs):
                        gated = True
        key_src = sl.sources(t["args"][2])
        from_hits = any(y[0] == "field" and "key" in y[2] for y in key_src) and \
            any(y[0] == "binop" and y[1].startswith("Sub") for y in key_src) and any(y[0] == "field" and "limit" in y[2] for y in key_src)
        same_gen = sl.fields(t["args"][0]) & {"manifest", "generation", "segments"}
        ctx.ob(rid, "%s:search:next-cursor" % rid, gated and from_hits and bool(same_gen),
               "next_cursor is produced only when hits.len() > limit, from hits[limit-1].key, with the reader's generation"
               if gated and from_hits and same_gen else
               "next_cursor: gated-by-len>limit=%s key-of-element-limit-1=%s own-generation=%s" % (gated, from_hits, bool(same_gen)),
               Site(f, b).loc())


def _locals_in(f, operand):
    out = set()
    work = [op_local(operand)]
    while work:
        l = work.pop()
        if l is None or l in out:
            continue
        out.add(l)
        for d in f.defs().get(l, []):
            if d["k"] == "assign":
                rv = d["rv"]
                for o in ([rv.get("a")] if rv.get("a") else []) + ([rv.get("b")] if rv.get("b") else []):
                    if isinstance(o, dict):
                        work.append(op_local(o))
                if rv["k"] in ("ref", "discr"):
                    work.append(rv["place"]["l"])
    return out


def r11c(ctx, P):
    rid = "R11.c"
    import re
    ctx.rule(rid, "TOTAL ORDER in bounded heaps (completeness across pages): a page is the best `limit` entries of a total order and the "
                  "next page starts behind the last key returned, so whichever entries a full top-k heap keeps must be a prefix of "
                  "that SAME total order, ties included. In every function that runs the bounded-heap idiom (peek + pop + push on a "
                  "BinaryHeap of ranked entries) the test that controls the replacement compares whole entries through the entry "
                  "type's Ord / PartialOrd — never a projection such as the score alone, which keeps an arbitrary subset of tied "
                  "entries and makes the following pages skip the others")
    n = 0
    for q, f in sorted(P.fns.items()):
        if f.crate != "searchlite_core" or is_test_or_bench(f):
            continue
        pops = [(b, t) for b, t in f.calls() if re.search(r"BinaryHeap::<T(, A)?>::pop$", callee_of(t))]
        peeks = [(b, t) for b, t in f.calls() if re.search(r"BinaryHeap::<T(, A)?>::peek$", callee_of(t))]
        pushes = [(b, t) for b, t in f.calls() if re.search(r"BinaryHeap::<T(, A)?>::push$", callee_of(t))]
        if not (pops and peeks and pushes):
            continue
        sl = Slice(f)
        for pb, pt in pops:
            # only replacements: a push dominated by this pop
            if not any(f.dominates_block(pb, xb) for xb, _ in pushes):
                continue
            # ... guarded by `if let Some(worst) = heap.peek()`: the pop is controlled by a test on a peek() result
            peek_dsts = {t_["dst"]["l"] for _, t_ in peeks}
            guarded = False
            for (a, succ) in f.control_deps_transitive(pb):
                t_ = f.blocks[a]["term"]
                if t_["k"] == "switch" and any(x[0] == "discr" and x[3]["l"] in peek_dsts for x in sl.sources(t_["on"])):
                    guarded = True
            if not guarded:
                continue
            hl = op_local(pt["args"][0])
            hty = f.local_ty(hl) if hl is not None else ""
            m = re.findall(r"([A-Za-z_][A-Za-z0-9_:]*)(?:<|>|,|$)", hty)
            elem = [x for x in m if x.startswith("searchlite_core::")]
            elem_ty = elem[-1] if elem else None
            n += 1
            ctx.saw(f)
            whole, proj = [], []
            for (a, succ) in f.control_deps_transitive(pb):
                t = f.blocks[a]["term"]
                if t["k"] != "switch":
                    continue
                for x in sl.sources(t["on"]):
                    if x[0] == "call" and re.search(r"(PartialOrd(<[^>]*>)?>?::(lt|gt|le|ge|partial_cmp)|Ord>?::cmp)$", callee_of(x[2])):
                        tys = [f.local_ty(op_local(a_)) for a_ in x[2]["args"] if op_local(a_) is not None]
                        if elem_ty and all(elem_ty.rsplit("::", 1)[1] in ty for ty in tys):
                            whole.append(Site(f, x[1]))
                        else:
                            proj.append((Site(f, x[1]), "compares %s" % " with ".join(ty.replace("searchlite_core::", "") for ty in tys)))
                    if x[0] == "binop" and x[1] in ("Lt", "Gt", "Le", "Ge"):
                        st = f.blocks[x[2]]["stmts"][x[3]]
                        flds = set()
                        for o in (st["rv"]["a"], st["rv"]["b"]):
                            for y in sl.sources(o):
                                if y[0] == "field":
                                    for e in y[3]["p"]:
                                        if isinstance(e, dict) and e.get("of") and elem_ty and e["of"] == elem_ty:
                                            flds.add(e["f"])
                        if flds:
                            proj.append((Site(f, x[2], x[3]), "compares the field(s) %s only" % sorted(flds)))
            ok = bool(whole) and not proj
            ctx.ob(rid, "%s:%s:replacement-by-total-order" % (rid, f.short), ok,
                   "a full heap replaces its worst entry only after comparing whole %s values (%s)" % ((elem_ty or "?").rsplit("::", 1)[-1], whole[0].loc()) if ok else
                   "the replacement at %s is decided by a test that %s instead of the entry type's total order: among entries tied on "
                   "that projection an arbitrary subset survives, and cursor pagination then skips the others" % (
                       Site(f, pb).loc(), proj[0][1] if proj else "does not compare whole entries"), (proj[0][0].loc() if proj else Site(f, pb).loc()))
    ctx.floor(rid, n, 2, "bounded-heap replacements (wand::push_top_k, reader::push_ranked)")


THOROUGH_FEATURES = ['r11c']


def run(ctx, progs):
    P = progs.get("default")
    r11a(ctx, P)
    r11b(ctx, P)
    r11c(ctx, P)
    ctx.assumptions += ["the manifest generation (maximum segment generation) changes with every commit that adds a segment and with every "
                        "compaction; delete-only commits keep it (the cursor then still addresses the same segments)",
                        "CRC32 of (kind, name, order) per field distinguishes sort plans (collision strength not decided)"]
