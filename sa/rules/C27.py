"""C27 — browser persistence: every commit whose promise resolved is fully present (partial; `wasmhost` configuration).

searchlite-wasm/src/wasm.rs is cfg(target_arch = "wasm32"); it is type-checked on the host through a generated harness crate that
includes the repository's file by #[path] (sa/facts.py, configuration `wasmhost`), so the rules below read its MIR — coroutine
bodies of the async fns included — like any other crate's.  Nothing is executed, no browser API is modelled."""
import re
from sa.prog import Site, Slice, TERM, callee_of, op_local, op_place, op_const, ok_sites, lock_acquisitions, lock_states
from sa import facts

EXPLANATION = ("NOT decided: anything that depends on the ORDER in which the browser runs the spawned persistence tasks and completes "
               "IndexedDB requests ('however the browser orders the pending storage writes') — in particular whether a reload can see a "
               "manifest without its segment files ('never a partial commit'): every file is persisted by its own task in its own "
               "transaction and no rule over the source can enumerate those schedules. Decided (each a necessary condition of 'every "
               "commit whose promise resolved is fully present'): (a) Searchlite::commit / create reach their Ok return only through "
               "the Ready arm of StorageBackend::flush's future, after the core commit, and a flush error cannot reach the Ok return; "
               "(b) the await chain StorageBackend::flush -> JsStorage::flush -> PendingWrites::flush is unbroken and forwards the "
               "result; (c) PendingWrites::flush takes the whole receiver list, polls every receiver to Ready in a loop that only ends "
               "by exhaustion, records every failure and returns Ok only if none was recorded; (d) every mutation of the in-memory file "
               "map schedules a whole-file snapshot (or a delete), JsFile::{flush, sync_all, drop} schedule on their dirty arm and every "
               "mutator sets dirty; (e) PendingWrites::schedule registers receiver, data and sender on every path before it can "
               "return, and starts a worker unless one is in flight, all inside one critical section; (f) the worker persist_queue "
               "stops only on 'no entry' / 'no pending data' seen under the queue lock, clears `inflight` in that same critical "
               "section, and after every persist notifies every waiter it took (Err when the persist failed).")

CR = "searchlite_wasm_host::wasm::"
COMMIT = CR + "Searchlite::commit::{closure#0}"
CREATE = CR + "Searchlite::create::{closure#0}"
SB_FLUSH = CR + "StorageBackend::flush"
JS_FLUSH = CR + "JsStorage::flush"
PW_FLUSH = CR + "PendingWrites::flush"
SCHEDULE = CR + "PendingWrites::schedule"
SCHEDULE_DELETE = CR + "PendingWrites::schedule_delete"
PERSIST_QUEUE = CR + "persist_queue"
PERSIST_FILE = CR + "persist_file"
CORE_COMMIT = "searchlite_core::api::writer::IndexWriter::commit"
CORE_CREATE = "searchlite_core::index::Index::create_with_storage"
RECV_POLL = "<futures_channel::oneshot::Receiver<T> as core::future::future::Future>::poll"
AWAIT_PLUMBING = ("Pin::<Ptr>::new_unchecked", "future::get_context", "IntoFuture>::into_future")


def _loc(f, line=None):
    fl = f.file
    if fl.startswith(facts.REPO.rstrip("/") + "/"):
        fl = fl[len(facts.REPO.rstrip("/")) + 1:]
    return "%s:%s" % (fl, line if line is not None else f.line)


def _sloc(site):
    return _loc(site.fn, site.line)


class Await:
    def __init__(self, f, poll_b, callee, ready_b, origins, payload):
        self.f, self.poll_b, self.callee, self.ready_b, self.origins, self.payload = f, poll_b, callee, ready_b, origins, payload


def awaits(f):
    """The `.await`s of a coroutine body: poll call, the block entered on Poll::Ready, the calls the awaited future comes from,
    and the locals that hold the Ready payload."""
    out = []
    sl = Slice(f, through_all_calls=True)
    for b, t in f.calls():
        if "desugar:Await" not in (t.get("macros") or []):
            continue
        cal = callee_of(t)
        if cal.endswith(AWAIT_PLUMBING):
            continue
        nb = t.get("target")
        if nb is None:
            continue
        sw = f.blocks[nb]["term"]
        if sw["k"] != "switch":
            continue
        vals = dict(zip(sw["values"], sw["targets"]))
        ready = vals.get(0)
        if ready is None:
            continue
        origins = [callee_of(x[2]) for x in sl.sources(t["args"][0]) if x[0] == "call" and not callee_of(x[2]).endswith(AWAIT_PLUMBING)]
        # payload carriers: `_x = move (dst as Ready).0`, then plain moves
        carriers = set()
        dst = t["dst"]["l"]
        ch = True
        while ch:
            ch = False
            for bb, i, st in f.stmts():
                if st["k"] != "assign" or st["dst"]["p"] or st["rv"]["k"] != "use":
                    continue
                pl = op_place(st["rv"]["a"])
                if pl is None or st["dst"]["l"] in carriers:
                    continue
                if (pl["l"] == dst and pl["p"]) or (pl["l"] in carriers and not pl["p"]):
                    carriers.add(st["dst"]["l"])
                    ch = True
        out.append(Await(f, b, cal, ready, origins, carriers))
    return out


def _reach_without(f, start, edges=(), blocks=()):
    seen, st = set(), [start]
    edges = set(edges)
    blocks = set(blocks)
    while st:
        x = st.pop()
        if x in seen or x in blocks:
            continue
        seen.add(x)
        for y in f.succ(x):
            if (x, y) not in edges:
                st.append(y)
    return seen


def _return_blocks(f):
    return [b for b in f.reachable() if f.blocks[b]["term"]["k"] == "return"]


def _continue_arms(f, aw):
    """Continue-arm blocks of `?` applied to the awaited output (possibly through map_err)."""
    sl = Slice(f, through_all_calls=True)
    out = []
    for b, t in f.calls():
        if not callee_of(t).endswith("core::ops::try_trait::Try>::branch"):
            continue
        if not any(x[0] == "call" and x[1] == aw.poll_b for x in sl.sources(t["args"][0])):
            continue
        nb = t.get("target")
        sw = f.blocks[nb]["term"] if nb is not None else None
        if sw and sw["k"] == "switch":
            vals = dict(zip(sw["values"], sw["targets"]))
            if 0 in vals:
                out.append(vals[0])
    # `match fut.await { Ok(..) => .., Err(..) => .. }`: the Ok arm of a switch on the payload's own discriminant
    sl0 = Slice(f)
    for b in f.reachable():
        sw = f.blocks[b]["term"]
        if sw["k"] != "switch":
            continue
        for x in sl0.sources(sw["on"]):
            if x[0] == "discr":
                pl = f.blocks[x[1]]["stmts"][x[2]]["rv"]["place"]
                if pl["l"] in aw.payload and not pl["p"] and f.local_ty(pl["l"]).startswith("core::result::Result<"):
                    vals = dict(zip(sw["values"], sw["targets"]))
                    if 0 in vals:
                        out.append(vals[0])
    return out


def r27a(ctx, P):
    rid = "R27.a"
    ctx.rule(rid, "ORDER + PROPAGATE (a resolved commit has been persisted): in the coroutine bodies of Searchlite::commit and "
                  "Searchlite::create every Ok return is dominated by the Ready arm of the poll of StorageBackend::flush's future and by "
                  "the Continue arm of the `?` applied to its output; the core write (IndexWriter::commit / Index::create_with_storage) "
                  "precedes the poll and cannot follow it")
    n = 0
    for path, core, label in ((COMMIT, CORE_COMMIT, "Searchlite::commit"), (CREATE, CORE_CREATE, "Searchlite::create")):
        f = P.fn(path)
        if not ctx.anchor(rid, f, "coroutine body of " + label):
            continue
        ctx.saw(f)
        aws = [a for a in awaits(f) if a.callee == SB_FLUSH + "::{closure#0}" and SB_FLUSH in a.origins]
        writes = [b for b, t in f.calls() if callee_of(t) == core]
        oks = ok_sites(f)
        if not (ctx.anchor(rid, writes, "call of %s in %s" % (core.rsplit("::", 2)[-2] + "::" + core.rsplit("::", 1)[-1], label)) and
                ctx.anchor(rid, oks, "Ok return of " + label)):
            continue
        if not aws:
            ctx.ob(rid, "%s:%s:awaits-flush" % (rid, label), False,
                   "%s does not await StorageBackend::flush: its promise resolves while the files of the commit may not be in IndexedDB" % label,
                   _loc(f))
            continue
        n += 1
        bad = []
        for s in oks:
            good = False
            for a in aws:
                conts = _continue_arms(f, a)
                if f.dominates_block(a.ready_b, s.b) and any(f.dominates_block(c, s.b) for c in conts):
                    good = True
            if not good:
                bad.append(s)
        ctx.ob(rid, "%s:%s:ok-only-after-flush-ready" % (rid, label), not bad,
               "every Ok return of %s lies behind Poll::Ready(Ok) of StorageBackend::flush" % label if not bad else
               "%s can return Ok at %s without having seen StorageBackend::flush complete successfully" % (label, _sloc(bad[0])),
               _sloc(bad[0]) if bad else _loc(f))
        order_ok = all(any(a.poll_b in f.reachable_from(w) for a in aws) and not any(w in f.reachable_from(a.ready_b) for a in aws) for w in writes)
        ctx.ob(rid, "%s:%s:write-before-flush" % (rid, label), order_ok,
               "the core write precedes the awaited flush" if order_ok else
               "the core write of %s is not (only) before the awaited flush: what it writes afterwards is not waited for" % label, _loc(f))
    ctx.floor(rid, n, 2, "exported async entry points that write (commit, create)")


def r27b(ctx, P):
    rid = "R27.b"
    ctx.rule(rid, "CHAIN (awaiting the backend means awaiting every pending write): StorageBackend::flush polls JsStorage::flush's "
                  "future, JsStorage::flush polls PendingWrites::flush's; each returns a value that is data-dependent on the polled "
                  "output on every path through the await; the only return of StorageBackend::flush outside the await is the arm of "
                  "the `Memory` variant")
    n = 0
    for outer, inner, label in ((SB_FLUSH, JS_FLUSH, "StorageBackend::flush"), (JS_FLUSH, PW_FLUSH, "JsStorage::flush")):
        f = P.fn(outer + "::{closure#0}")
        if not ctx.anchor(rid, f, "coroutine body of " + label):
            continue
        ctx.saw(f)
        aws = [a for a in awaits(f) if a.callee == inner + "::{closure#0}" and inner in a.origins]
        if not aws:
            ctx.ob(rid, "%s:%s:polls-next" % (rid, label), False,
                   "%s does not await %s: flushing the backend no longer waits for the scheduled IndexedDB writes" % (label, inner.rsplit("::", 2)[-2] + "::flush"),
                   _loc(f))
            continue
        n += 1
        sl = Slice(f, through_all_calls=True)
        # definitions of the return place
        defs0 = [d for d in f.defs().get(0, [])]
        bad = []
        for d in defs0:
            b = d["b"]
            via = [a for a in aws if f.dominates_block(a.ready_b, b)]
            if via:
                src = d["t"]["args"] if d["k"] == "call" else [d["rv"].get("a")] if d["rv"]["k"] in ("use", "cast") else d["rv"].get("ops", [])
                dep = any(x[0] == "call" and x[1] == a.poll_b for o in src if o is not None for x in sl.sources(o) for a in via)
                if not dep:
                    bad.append((d, "the value returned after the await does not come from the awaited output (its error is dropped)"))
            else:
                # allowed only in the arm of the Memory variant of self
                arm_ok = False
                for (a_, succ) in f.control_deps_transitive(b):
                    t = f.blocks[a_]["term"]
                    if t["k"] != "switch":
                        continue
                    for x in Slice(f).sources(t["on"]):
                        if x[0] == "discr":
                            adt = P.adts.get(CR + "StorageBackend")
                            if adt:
                                vals = dict(zip(t["values"], t["targets"]))
                                names = [v["name"] for v in adt["variants"]]
                                for v_, tg in vals.items():
                                    if tg == succ and v_ < len(names) and names[v_] == "Memory":
                                        arm_ok = True
                                if succ == t.get("otherwise"):
                                    rest = [names[i] for i in range(len(names)) if i not in vals]
                                    if rest == ["Memory"]:
                                        arm_ok = True
                if not (arm_ok and outer == SB_FLUSH):
                    bad.append((d, "a return that does not pass the await"))
        ctx.ob(rid, "%s:%s:forwards-awaited-result" % (rid, label), not bad,
               "%s returns what %s's future produced (Memory backend: nothing to persist)" % (label, inner.rsplit("::", 2)[-2] + "::flush") if not bad else
               "%s: %s" % (label, bad[0][1]), _loc(f, None))
    ctx.floor(rid, n, 2, "links of the flush chain")


def _loops(f):
    from sa.rules.C25 import natural_loops
    return natural_loops(f)


def _loop_exits(f, body):
    return [(a, s) for a in body for s in f.succ(a) if s not in body]


def _for_loop_over(f, P, item_pred):
    """[(header, body, next_block, some_block)] natural loops driven by Iterator::next (ForLoop desugaring)"""
    out = []
    for h, body in _loops(f):
        for b in body:
            t = f.blocks[b]["term"]
            if t["k"] == "call" and callee_of(t).endswith("Iterator>::next") and any("ForLoop" in m for m in (t.get("macros") or [])):
                nb = t.get("target")
                sw = f.blocks[nb]["term"] if nb is not None else None
                if sw and sw["k"] == "switch":
                    vals = dict(zip(sw["values"], sw["targets"]))
                    if item_pred(t):
                        out.append((h, body, b, nb, vals.get(1), vals.get(0)))
    return out


def r27c(ctx, P):
    rid = "R27.c"
    ctx.rule(rid, "ALL + REPORT (flush waits for every scheduled write and reports any failure): in PendingWrites::flush the list "
                  "iterated is mem::take of the locked `pending` vector; the loop over it exits only when the iterator is exhausted; "
                  "each element is polled (oneshot::Receiver) to Ready; from the Ready arm, the loop header is reachable only through "
                  "the Ok(Ok(())) arm, an assignment of first_error, or the `false` edge of first_error.is_none(); the Ok return is "
                  "reachable only through the None arm of the final test of first_error")
    f = P.fn(PW_FLUSH + "::{closure#0}")
    if not ctx.anchor(rid, f, "coroutine body of PendingWrites::flush"):
        return
    ctx.saw(f)
    sl = Slice(f, through_all_calls=True)
    loops = _for_loop_over(f, P, lambda t: "oneshot::Receiver" in t.get("dst_ty", "") or True)
    aws = [a for a in awaits(f) if a.callee == RECV_POLL]
    if not (ctx.anchor(rid, aws, "await of a oneshot::Receiver in PendingWrites::flush") and
            ctx.anchor(rid, loops, "for loop in PendingWrites::flush")):
        return
    aw = aws[0]
    lp = [l for l in loops if aw.poll_b in l[1]]
    if not ctx.anchor(rid, lp, "the receiver await lies inside the for loop"):
        return
    h, body, next_b, sw_b, some_b, none_b = lp[0]
    # (1) the iterated list is the whole pending vector
    it_src = sl.sources(f.blocks[next_b]["term"]["args"][0])
    takes = [x for x in it_src if x[0] == "call" and callee_of(x[2]) == "core::mem::take"]
    whole = False
    for x in takes:
        flds = Slice(f, through_all_calls=True).fields(x[2]["args"][0])
        if "pending" in flds and any(callee_of(y[2]) in ("lock_api::mutex::Mutex::<R, T>::lock",) for y in sl.sources(x[2]["args"][0]) if y[0] == "call"):
            whole = True
    ctx.ob(rid, rid + ":flush:takes-whole-pending-list", whole,
           "the receivers awaited are mem::take of the locked `pending` list" if whole else
           "the list PendingWrites::flush iterates is not mem::take(&mut *self.pending.lock()): receivers of scheduled writes can be left out",
           _loc(f, f.blocks[next_b]["term"].get("line")))
    # (2) loop exits only by exhaustion
    exits = [(a, s) for (a, s) in _loop_exits(f, body) if not f.blocks[s].get("cleanup")]
    extra = [(a, s) for (a, s) in exits if not (a == sw_b and s == none_b) and f.blocks[a]["term"]["k"] != "yield"]
    # a yield's successor is inside the loop (resume); a coroutine_drop edge is not a normal exit
    extra = [(a, s) for (a, s) in extra if f.blocks[s]["term"]["k"] not in ("coroutine_drop",) and not _only_drop_path(f, s)]
    ctx.ob(rid, rid + ":flush:loop-ends-by-exhaustion-only", not extra,
           "the loop over the receivers has no exit but the end of the list" if not extra else
           "the loop over the receivers can be left early at %s: later receivers are not awaited" % _loc(f, f.blocks[extra[0][0]]["term"].get("line")),
           _loc(f, f.blocks[extra[0][0]]["term"].get("line")) if extra else _loc(f))
    # (3) the item polled is the loop's element
    item_ok = any(x[0] == "call" and x[1] == next_b for x in sl.sources(f.blocks[aw.poll_b]["term"]["args"][0]))
    ctx.ob(rid, rid + ":flush:polls-each-element", item_ok and aw.ready_b in body,
           "each receiver taken from the list is polled to Ready" if item_ok else "the future polled in the loop is not the loop's element", _loc(f, f.blocks[aw.poll_b]["term"].get("line")))
    # (4) failures are recorded
    # first_error: the Option<anyhow::Error> local that is written inside the loop
    oks = ok_sites(f)
    cands = [l for l in range(len(f.locals)) if f.local_ty(l).startswith("core::option::Option<anyhow::Error") and
             (any(d["b"] in body for d in f.defs().get(l, [])) or any(b in body for b, t in f.mut_writes().get(l, [])))]
    fe = cands[0] if cands else None
    if not (ctx.anchor(rid, fe, "an Option<anyhow::Error> written inside the loop of PendingWrites::flush (first_error)") and
            ctx.anchor(rid, oks, "Ok return of PendingWrites::flush")):
        return
    none_edges = set()
    for b in f.reachable():
        t = f.blocks[b]["term"]
        if t["k"] != "switch" or b in body:
            continue
        for x in Slice(f).sources(t["on"]):
            if x[0] == "discr":
                pl = f.blocks[x[1]]["stmts"][x[2]]["rv"]["place"]
                if pl["l"] == fe and not pl["p"]:
                    vals = dict(zip(t["values"], t["targets"]))
                    tgt = vals.get(0, t.get("otherwise") if 0 not in vals else None)
                    if tgt is not None:
                        none_edges.add((b, tgt))
            if x[0] == "call" and callee_of(x[2]).endswith(("Option::<T>::is_none", "Option::<T>::is_some")) and \
                    fe in (Slice(f).locals(x[2]["args"][0]) | {op_local(x[2]["args"][0])}):
                vals = dict(zip(t["values"], t["targets"]))
                want = 0 if callee_of(x[2]).endswith("is_some") else None
                tgt = vals.get(0) if want == 0 else (t.get("otherwise") if 0 in vals else vals.get(1))
                if tgt is not None:
                    none_edges.add((b, tgt))
    ok_guard = bool(none_edges) and all(s.b not in _reach_without(f, 0, edges=none_edges) for s in oks)
    ctx.ob(rid, rid + ":flush:ok-only-if-no-error-recorded", ok_guard,
           "Ok is returned only when first_error is None" if ok_guard else "PendingWrites::flush can return Ok although an error was recorded",
           _sloc(oks[0]))
    # recording: blocks assigning first_error (whole local) inside the loop, false edges of is_none(&first_error)
    rec_blocks = {d["b"] for d in f.defs().get(fe, []) if d["b"] in body and d["k"] == "assign" and not d.get("partial")}
    # ... or handed as `&mut first_error` to a call inside the loop (get_or_insert, Option::insert, a recording helper)
    rec_blocks |= {b for b, t in f.mut_writes().get(fe, []) if b in body}
    false_edges = set()
    for b in body:
        tt = f.blocks[b]["term"]
        if tt["k"] == "switch":
            for x in Slice(f).sources(tt["on"]):
                if x[0] == "call" and callee_of(x[2]).endswith("Option::<T>::is_none") and fe in Slice(f).locals(x[2]["args"][0]) | {op_local(x[2]["args"][0])}:
                    v2 = dict(zip(tt["values"], tt["targets"]))
                    if 0 in v2:
                        false_edges.add((b, v2[0]))
    # success edges: discr of the payload == Ok(0), and of its Ok payload == Ok(0)
    succ_edges = set()
    outer_ok_targets = set()
    for b in body:
        tt = f.blocks[b]["term"]
        if tt["k"] != "switch":
            continue
        for x in Slice(f).sources(tt["on"]):
            if x[0] == "discr":
                st = f.blocks[x[1]]["stmts"][x[2]]
                pl = st["rv"]["place"]
                if pl["l"] in aw.payload:
                    v2 = dict(zip(tt["values"], tt["targets"]))
                    if pl["p"]:
                        if 0 in v2:
                            succ_edges.add((b, v2[0]))
                    else:
                        outer_ok_targets.add((b, v2.get(0)))
    recorded = bool(succ_edges) and bool(rec_blocks)
    if recorded:
        r = _reach_without(f, aw.ready_b, edges=succ_edges | false_edges, blocks=rec_blocks)
        recorded = h not in r and not any(rb in r for rb in _return_blocks(f))
    ctx.ob(rid, rid + ":flush:every-failure-recorded", recorded,
           "from Poll::Ready the loop continues only through Ok(Ok(())), an assignment of first_error, or first_error already set" if recorded else
           "a receiver that yields Err (failed persist) or is cancelled can be passed over without recording an error: flush returns Ok "
           "although a write of the commit failed", _loc(f, f.blocks[aw.poll_b]["term"].get("line")))


def _only_drop_path(f, b, limit=40):
    """the block leads, through drops / gotos only, to a coroutine_drop / resume (unwinding or cancellation), never to a return"""
    seen, st = set(), [b]
    while st:
        x = st.pop()
        if x in seen:
            continue
        seen.add(x)
        if len(seen) > limit:
            return False
        t = f.blocks[x]["term"]
        if t["k"] in ("coroutine_drop", "resume", "unreachable"):
            continue
        if t["k"] in ("drop", "goto") and not any(s["k"] == "assign" for s in f.blocks[x]["stmts"]):
            st.extend(f.succ(x))
            continue
        return False
    return True


def _must_reach_call(P, f, pred, from_block=0, ok_only=True, _depth=0):
    """every path from `from_block` to a return passes a call satisfying pred (directly or in a callee that must)"""
    blocks = set()
    for b, t in f.calls():
        cal = callee_of(t)
        if pred(cal):
            blocks.add(b)
        elif cal in P.fns and cal != f.path and P.fns[cal].crate == f.crate and _depth < 4 and \
                _must_reach_call(P, P.fns[cal], pred, _depth=_depth + 1)[0]:
            blocks.add(b)
    r = _reach_without(f, from_block, blocks=blocks)
    return not any(rb in r for rb in _return_blocks(f)), blocks


def r27d(ctx, P):
    rid = "R27.d"
    ctx.rule(rid, "SCHEDULE (nothing is changed in memory only): JsStorage::write_all / atomic_write reach PendingWrites::schedule on "
                  "every path to their return; remove / remove_dir_all reach schedule_delete (remove_dir_all: in the block chain of "
                  "every HashMap::remove of its loop); JsFile::{flush, sync_all, drop} call schedule on the `dirty` arm with self.path and "
                  "a clone of the whole buffer (no slice / index between the lock guard and the clone); JsFile::write (success path), "
                  "set_len and a truncating open store dirty = true")
    n = 0
    ST = "<" + CR + "JsStorage as searchlite_core::storage::Storage>::"
    for name, target in (("write_all", SCHEDULE), ("atomic_write", SCHEDULE), ("remove", SCHEDULE_DELETE)):
        f = P.fn(ST + name)
        if not ctx.anchor(rid, f, "JsStorage::" + name):
            continue
        ctx.saw(f)
        n += 1
        ok, _ = _must_reach_call(P, f, lambda c: c == target)
        # error exits before the mutation are fine: only Ok returns count
        if not ok:
            oks = ok_sites(f)
            _, blocks = _must_reach_call(P, f, lambda c: c == target)
            ok = bool(oks) and all(s.b not in _reach_without(f, 0, blocks=blocks) for s in oks) and bool(blocks)
        ctx.ob(rid, "%s:JsStorage::%s:schedules" % (rid, name), ok,
               "JsStorage::%s always reaches %s" % (name, target.rsplit("::", 1)[1]) if ok else
               "JsStorage::%s can return without %s: the change exists in memory only and is lost on reload" % (name, target.rsplit("::", 1)[1]), _loc(f))
    f = P.fn(ST + "remove_dir_all")
    if ctx.anchor(rid, f, "JsStorage::remove_dir_all"):
        ctx.saw(f)
        n += 1
        rem = [b for b, t in f.calls() if re.search(r"HashMap::<K, V, S, A>::remove$", callee_of(t))]
        sd = {b for b, t in f.calls() if callee_of(t) == SCHEDULE_DELETE}
        ok = bool(rem) and bool(sd)
        for rb in rem:
            # from the remove, the loop header / return is reachable only through a schedule_delete
            r = _reach_without(f, f.blocks[rb]["term"].get("target"), blocks=sd)
            hdrs = [h for h, body in _loops(f) if rb in body]
            if any(h in r for h in hdrs) or any(x in r for x in _return_blocks(f)):
                ok = False
        ctx.ob(rid, rid + ":JsStorage::remove_dir_all:schedules", ok,
               "every path dropped by remove_dir_all gets a schedule_delete" if ok else
               "remove_dir_all drops a file from memory without scheduling its deletion", _loc(f))
    # JsFile
    for q, label in (("<" + CR + "JsFile as std::io::Write>::flush", "JsFile::flush"),
                     ("<" + CR + "JsFile as searchlite_core::storage::StorageFile>::sync_all", "JsFile::sync_all"),
                     ("<" + CR + "JsFile as core::ops::drop::Drop>::drop", "JsFile::drop")):
        f = P.fn(q)
        if not ctx.anchor(rid, f, label):
            continue
        ctx.saw(f)
        n += 1
        sl0 = Slice(f)
        sl = Slice(f, through_all_calls=True)
        dirty_sw = None
        for b in sorted(f.reachable()):
            t = f.blocks[b]["term"]
            if t["k"] == "switch" and "dirty" in sl0.fields(t["on"]) and not any(x[0] == "call" for x in sl0.sources(t["on"])):
                dirty_sw = (b, t)
                break
        sched = [(b, t) for b, t in f.calls() if callee_of(t) == SCHEDULE]
        ok = dirty_sw is not None and bool(sched)
        why = "no test of self.dirty / no schedule call"
        if ok:
            b, t = dirty_sw
            vals = dict(zip(t["values"], t["targets"]))
            true_succ = t.get("otherwise") if 0 in vals else vals.get(1)
            r = _reach_without(f, true_succ, blocks={sb for sb, _ in sched})
            if any(x in r for x in _return_blocks(f)):
                ok, why = False, "the dirty arm can return without calling schedule"
        if ok:
            for sb, st in sched:
                a_path, a_data = st["args"][1], st["args"][2]
                if "path" not in sl.fields(a_path):
                    ok, why = False, "the path scheduled is not self.path"
                srcs = sl.sources(a_data)
                cl = [x for x in srcs if x[0] == "call" and callee_of(x[2]).endswith("as core::clone::Clone>::clone")]
                lk = [x for x in srcs if x[0] == "call" and callee_of(x[2]) in ("lock_api::rwlock::RwLock::<R, T>::read", "lock_api::rwlock::RwLock::<R, T>::write")]
                partial = [callee_of(x[2]) for x in srcs if x[0] == "call" and re.search(
                    r"Index(Mut)?<.*>>::index(_mut)?$|::to_vec$|::split_at|::get$|::truncate$|::drain$|::split_off$|::first$|::last$|::iter$|::into_iter$|::chunks|::windows|::take$|::skip$",
                    callee_of(x[2]))]
                if not (cl and lk and "data" in sl.fields(a_data)):
                    ok, why = False, "the data scheduled is not a clone of the locked buffer self.data"
                elif partial:
                    ok, why = False, "the data scheduled passes through %s: not the whole buffer" % partial[0].rsplit("::", 1)[1]
        ctx.ob(rid, "%s:%s:dirty-arm-schedules-whole-buffer" % (rid, label), ok,
               "%s schedules (self.path, clone of the whole buffer) whenever the file is dirty" % label if ok else "%s: %s" % (label, why), _loc(f))
    # mutators set dirty
    for q, label, succ_only in (("<" + CR + "JsFile as std::io::Write>::write", "JsFile::write", True),
                                ("<" + CR + "JsFile as searchlite_core::storage::StorageFile>::set_len", "JsFile::set_len", True)):
        f = P.fn(q)
        if not ctx.anchor(rid, f, label):
            continue
        ctx.saw(f)
        n += 1
        stores = {b for b, i, st in f.stmts() if st["k"] == "assign" and st["dst"]["p"] and
                  any(isinstance(e, dict) and e.get("f") == "dirty" for e in st["dst"]["p"]) and (op_const(st["rv"].get("a") or {}) or {}).get("int") == 1}
        oks = ok_sites(f)
        ok = bool(stores) and bool(oks) and all(s.b not in _reach_without(f, 0, blocks=stores) for s in oks)
        ctx.ob(rid, "%s:%s:sets-dirty" % (rid, label), ok,
               "%s marks the file dirty on every successful return" % label if ok else
               "%s can succeed without marking the file dirty: the bytes are never scheduled for persistence" % label, _loc(f))
    f = P.fn(CR + "JsStorage::open_with_mode")
    if ctx.anchor(rid, f, "JsStorage::open_with_mode"):
        ctx.saw(f)
        n += 1
        sl0 = Slice(f)
        # the JsFile literal's dirty operand is true on every path on which the buffer was cleared
        clears = [b for b, t in f.calls() if callee_of(t).endswith("Vec::<T, A>::clear")]
        lit = [(b, i, st) for b, i, st in f.stmts() if st["k"] == "assign" and st["rv"]["k"] == "agg" and (st["rv"].get("adt") or "").endswith("wasm::JsFile")]
        ok = bool(clears) and bool(lit)
        if ok:
            adt = P.adts.get(CR + "JsFile")
            names = [x[0] for x in adt["variants"][0]["fields"]] if adt else []
            b, i, st = lit[0]
            o = st["rv"]["ops"][names.index("dirty")] if "dirty" in names else None
            dl = op_local(o) if o else None
            for _ in range(6):      # follow plain copies to the `dirty` local
                dd = f.defs().get(dl, []) if dl is not None else []
                if len(dd) == 1 and dd[0]["k"] == "assign" and dd[0]["rv"]["k"] == "use" and op_local(dd[0]["rv"]["a"]) is not None and \
                        not op_place(dd[0]["rv"]["a"])["p"]:
                    dl = op_local(dd[0]["rv"]["a"])
                else:
                    break
            if dl is None:
                ok = False
            else:
                true_defs = {d["b"] for d in f.defs().get(dl, []) if d["k"] == "assign" and (op_const(d["rv"].get("a") or {}) or {}).get("int") == 1}
                for cb in clears:
                    r = _reach_without(f, f.blocks[cb]["term"].get("target"), blocks=true_defs)
                    if b in r:
                        ok = False
        ctx.ob(rid, rid + ":JsStorage::open_with_mode:truncate-sets-dirty", ok,
               "a truncating open hands out a file that is already dirty" if ok else
               "a truncating open clears the buffer but the JsFile is not marked dirty: the truncation is never persisted", _loc(f))
    ctx.floor(rid, n, 10, "mutation entry points of JsStorage / JsFile")


def r27e(ctx, P):
    rid = "R27.e"
    ctx.rule(rid, "REGISTER (a scheduled write is visible to flush and to the worker before schedule returns): in PendingWrites::schedule "
                  "(1) the oneshot receiver is pushed to self.pending, (2) entry.pending = Some(data) is stored, (3) the sender is pushed "
                  "to entry.waiters — each on every path to the return; (4) on the `inflight == false` arm inflight = true is stored and "
                  "spawn_local is reached on every path, its future polling persist_queue with this path and queue; (5) stores (2)-(4) and "
                  "the test of inflight all happen while the queue lock taken in schedule is held")
    f = P.fn(SCHEDULE)
    if not ctx.anchor(rid, f, "PendingWrites::schedule"):
        return
    ctx.saw(f)
    sl = Slice(f, through_all_calls=True)
    rets = _return_blocks(f)

    def on_every_path(blocks):
        r = _reach_without(f, 0, blocks=blocks)
        return bool(blocks) and not any(x in r for x in rets)
    chan = [b for b, t in f.calls() if callee_of(t) == "futures_channel::oneshot::channel"]
    if not ctx.anchor(rid, chan, "oneshot::channel() in schedule"):
        return
    push_rx = {b for b, t in f.calls() if callee_of(t).endswith("Vec::<T, A>::push") and "pending" in sl.fields(t["args"][0]) and
               "Receiver" in f.local_ty(op_local(t["args"][1]) or 0) and any(x[0] == "call" and x[1] == chan[0] for x in sl.sources(t["args"][1]))}
    ok1 = on_every_path(push_rx)
    ctx.ob(rid, rid + ":schedule:receiver-registered", ok1, "the receiver is pushed to `pending` on every path" if ok1 else
           "schedule can return without pushing the channel's receiver to `pending`: flush does not wait for this write", _loc(f))
    store_data = set()
    for b, i, st in f.stmts():
        if st["k"] == "assign" and st["dst"]["p"] and any(isinstance(e, dict) and e.get("f") == "pending" and "PendingEntry" in str(e.get("of", "")) for e in st["dst"]["p"]):
            src = sl.sources(st["rv"].get("a")) if st["rv"]["k"] == "use" else []
            if any(x[0] == "arg" and f.locals[x[1]].get("name") == "data" for x in src) and any(x[0] == "agg" and x[3].get("variant") == "Some" for x in src):
                store_data.add(b)
    ok2 = on_every_path(store_data)
    ctx.ob(rid, rid + ":schedule:data-stored", ok2, "entry.pending = Some(data) on every path" if ok2 else
           "schedule can return without storing the data in the queue entry: the worker has nothing to persist for this write", _loc(f))
    push_tx = {b for b, t in f.calls() if callee_of(t).endswith("Vec::<T, A>::push") and "waiters" in sl.fields(t["args"][0]) and
               "Sender" in f.local_ty(op_local(t["args"][1]) or 0) and any(x[0] == "call" and x[1] == chan[0] for x in sl.sources(t["args"][1]))}
    ok3 = on_every_path(push_tx)
    ctx.ob(rid, rid + ":schedule:sender-registered", ok3, "the sender is pushed to entry.waiters on every path" if ok3 else
           "schedule can return without handing the sender to the queue entry: the receiver is never completed (or reports 'dropped')", _loc(f))
    # inflight decision
    sl0 = Slice(f)
    sw = None
    # `mem::replace(&mut entry.inflight, true)` reads the old value and stores true at once
    swaps = {b for b, t in f.calls() if callee_of(t) == "core::mem::replace" and "inflight" in sl0.fields(t["args"][0]) and
             (op_const(t["args"][1]) or {}).get("int") == 1}
    for b in sorted(f.reachable()):
        t = f.blocks[b]["term"]
        if t["k"] == "switch" and ("inflight" in sl0.fields(t["on"]) or any(x[0] == "call" and x[1] in swaps for x in sl0.sources(t["on"]))):
            sw = (b, t)
    spawn = {b for b, t in f.calls() if callee_of(t) == "wasm_bindgen_futures::spawn_local"}
    set_true = {b for b, i, st in f.stmts() if st["k"] == "assign" and st["dst"]["p"] and
                any(isinstance(e, dict) and e.get("f") == "inflight" for e in st["dst"]["p"]) and (op_const(st["rv"].get("a") or {}) or {}).get("int") == 1}
    swap_form = bool(swaps) and not set_true
    ok4 = sw is not None and bool(spawn) and (bool(set_true) or swap_form)
    why = "no test of entry.inflight / no spawn_local / no store of inflight = true"
    if ok4:
        b, t = sw
        vals = dict(zip(t["values"], t["targets"]))
        false_succ = vals.get(0)
        if false_succ is None:
            ok4, why = False, "unrecognised test of entry.inflight"
        else:
            r1 = _reach_without(f, false_succ, blocks=spawn)
            r2 = _reach_without(f, false_succ, blocks=set_true) if not swap_form else set()
            if swap_form and not all(f.dominates_block(sb_, b) for sb_ in swaps):
                ok4, why = False, "the test of the previous inflight value is not behind the swap"
            elif any(x in r1 for x in rets):
                ok4, why = False, "with no worker in flight schedule can return without spawn_local: nobody persists the write"
            elif any(x in r2 for x in rets):
                ok4, why = False, "a worker is spawned without storing inflight = true: a second schedule spawns a second worker for the same file"
    if ok4:
        # the spawned future polls persist_queue with the function's path and queue
        good = False
        for sb in spawn:
            for x in sl.sources(f.blocks[sb]["term"]["args"][0]):
                if x[0] == "agg" and x[3].get("closure"):
                    g = P.fn(x[3]["closure"])
                    if g is not None and any(a.callee == PERSIST_QUEUE + "::{closure#0}" for a in awaits(g)):
                        caps = set()
                        for o in x[3]["ops"]:
                            for y in sl.sources(o):
                                if y[0] == "arg":
                                    caps.add(f.locals[y[1]].get("name"))
                                if y[0] == "field":
                                    caps |= set(str(z) for z in y[2])
                        if "path" in caps and "queue" in caps:
                            good = True
        if not good:
            ok4, why = False, "the spawned task does not run persist_queue on this path and queue"
    ctx.ob(rid, rid + ":schedule:worker-started-unless-in-flight", ok4,
           "inflight false -> inflight = true and spawn_local(persist_queue(db, path, queue))" if ok4 else "schedule: " + why, _loc(f))
    # critical section
    acq = lock_acquisitions(f, field="queue")
    ok5 = bool(acq)
    if ok5:
        site, gl, _ = acq[0]
        at = lock_states(f, site, gl)
        pts = [Site(f, b, 0) for b in store_data | set_true] + [Site(f, b, TERM) for b in push_tx | swaps] + ([Site(f, sw[0], TERM)] if sw else [])
        ok5 = bool(pts) and all(at(p) == {"L"} for p in pts) and len(acq) == 1
    ctx.ob(rid, rid + ":schedule:one-critical-section", ok5,
           "data store, sender push, inflight test and inflight store happen under one acquisition of the queue lock" if ok5 else
           "schedule updates the queue entry outside (or across two acquisitions of) the queue lock: the worker can decide to stop between "
           "the store of the data and the test of inflight", _loc(f))


def r27f(ctx, P):
    rid = "R27.f"
    ctx.rule(rid, "WORKER (persist_queue cannot strand a write): (1) every return of its coroutine lies behind the None arm of "
                  "queue.get_mut(path) or of entry.pending.take(), both evaluated while the queue lock is held; (2) inflight = false is "
                  "stored under that same acquisition, behind the None arm of take(); (3) the persist_file future is polled to Ready and "
                  "then every waiter taken (mem::take of entry.waiters under the lock) is sent to, in a loop that ends only by "
                  "exhaustion; (4) the value sent is Ok only on the arm on which the persist result has no error")
    f = P.fn(PERSIST_QUEUE + "::{closure#0}")
    if not ctx.anchor(rid, f, "coroutine body of persist_queue"):
        return
    ctx.saw(f)
    sl = Slice(f, through_all_calls=True)
    sl0 = Slice(f)
    acq = [a for a in lock_acquisitions(f) if "queue" in sl.fields(f.blocks[a[0].b]["term"]["args"][0]) or
           any(x[0] == "field" and any("queue" in str(z) for z in x[2]) for x in sl.sources(f.blocks[a[0].b]["term"]["args"][0]))]
    get_mut = [(b, t) for b, t in f.calls() if re.search(r"HashMap::<K, V, S, A>::get_mut$", callee_of(t))]
    take = [(b, t) for b, t in f.calls() if callee_of(t).endswith("Option::<T>::take") and "pending" in sl.fields(t["args"][0])]
    if not (ctx.anchor(rid, acq, "queue.lock() in persist_queue") and ctx.anchor(rid, get_mut, "queue.get_mut(path)") and
            ctx.anchor(rid, take, "entry.pending.take()")):
        return
    site, gl, _ = acq[0]
    at = lock_states(f, site, gl)

    def none_edge(b, t):
        nb = t.get("target")
        sw = f.blocks[nb]["term"]
        if sw["k"] != "switch":
            return None
        vals = dict(zip(sw["values"], sw["targets"]))
        tgt = vals.get(0, sw.get("otherwise") if 0 not in vals else None)
        return (nb, tgt)
    ne = [none_edge(*get_mut[0]), none_edge(*take[0])]
    rets = _return_blocks(f)
    ok1 = None not in ne and all(at(Site(f, b, TERM)) == {"L"} for b, _ in (get_mut[0], take[0])) and len(acq) == 1
    if ok1:
        r = _reach_without(f, 0, edges=set(ne))
        ok1 = not any(x in r for x in rets)
    ctx.ob(rid, rid + ":persist_queue:stops-only-when-nothing-pending", ok1,
           "the worker returns only after seeing, under the queue lock, that the entry is gone or has no pending data" if ok1 else
           "persist_queue can return without having checked (under the queue lock) that nothing is pending: a write scheduled while the "
           "previous one was being persisted stays in the queue with inflight set and is never persisted", _loc(f))
    clr = [(b, i) for b, i, st in f.stmts() if st["k"] == "assign" and st["dst"]["p"] and
           any(isinstance(e, dict) and e.get("f") == "inflight" for e in st["dst"]["p"]) and (op_const(st["rv"].get("a") or {}) or {}).get("int") == 0]
    ok2 = bool(clr) and ne[1] is not None
    if ok2:
        for b, i in clr:
            if at(Site(f, b, i)) != {"L"} or not f.dominates_block(ne[1][1], b):
                ok2 = False
        # and every return through the take-None arm clears it
        r = _reach_without(f, ne[1][1], blocks={b for b, _ in clr})
        if any(x in r for x in rets):
            ok2 = False
    ctx.ob(rid, rid + ":persist_queue:inflight-cleared-under-the-lock", ok2,
           "inflight = false is stored in the critical section in which take() found nothing" if ok2 else
           "inflight is not cleared (or not under the lock acquisition that found nothing pending): schedule can see inflight = true after "
           "the worker decided to stop, or inflight stays true for ever", _loc(f))
    aws = [a for a in awaits(f) if a.callee == PERSIST_FILE + "::{closure#0}"]
    sends = [(b, t) for b, t in f.calls() if callee_of(t) == "futures_channel::oneshot::Sender::<T>::send"]
    if not (ctx.anchor(rid, aws, "await of persist_file in persist_queue") and ctx.anchor(rid, sends, "Sender::send in persist_queue")):
        return
    aw = aws[0]
    loops = [l for l in _for_loop_over(f, P, lambda t: True) if sends[0][0] in l[1] and aw.poll_b not in l[1]]
    ok3 = bool(loops)
    why = "no loop over the waiters behind the await"
    if ok3:
        h, body, next_b, sw_b, some_b, none_b = loops[0]
        it_src = sl.sources(f.blocks[next_b]["term"]["args"][0])
        tk = [x for x in it_src if x[0] == "call" and callee_of(x[2]) == "core::mem::take" and "waiters" in sl.fields(x[2]["args"][0])]
        if not tk:
            ok3, why = False, "the senders notified are not mem::take(&mut entry.waiters)"
        elif not all(at(Site(f, x[1], TERM)) == {"L"} for x in tk):
            ok3, why = False, "entry.waiters is taken outside the queue lock"
        elif not f.dominates_block(aw.ready_b, h):
            ok3, why = False, "the waiters are notified before the persist completed"
        else:
            exits = [(a, s) for (a, s) in _loop_exits(f, body) if not f.blocks[s].get("cleanup") and not (a == sw_b and s == none_b)
                     and not _only_drop_path(f, s)]
            if exits:
                ok3, why = False, "the notification loop can be left early at %s" % _loc(f, f.blocks[exits[0][0]]["term"].get("line"))
            elif not any(x[0] == "call" and x[1] == next_b for x in sl.sources(sends[0][1]["args"][0])):
                ok3, why = False, "the sender used is not the loop's element"
            else:
                r = _reach_without(f, some_b, blocks={sends[0][0]})
                if h in r:
                    ok3, why = False, "an iteration can skip the send"
    ctx.ob(rid, rid + ":persist_queue:every-waiter-notified-after-persist", ok3,
           "after Poll::Ready of persist_file every sender taken under the lock is sent to" if ok3 else "persist_queue: " + why, _loc(f))
    # (4) Ok only when the result has no error
    ok4 = False
    why = "the value sent does not depend on the persist result"
    val = sends[0][1]["args"][1]
    vl = None
    for x in sl0.sources(val):
        pass
    root = op_local(val)
    seen = set()
    work = [root]
    okdefs, errdefs = [], []
    while work:
        l = work.pop()
        if l is None or l in seen:
            continue
        seen.add(l)
        for d in f.defs().get(l, []):
            if d["k"] == "assign" and d["rv"]["k"] == "use" and op_local(d["rv"]["a"]) is not None and not op_place(d["rv"]["a"])["p"]:
                work.append(op_local(d["rv"]["a"]))
            elif d["k"] == "assign" and d["rv"]["k"] == "agg" and d["rv"].get("variant") == "Ok":
                okdefs.append(d)
            elif d["k"] == "assign" and d["rv"]["k"] == "agg" and d["rv"].get("variant") == "Err":
                errdefs.append(d)
            else:
                errdefs.append(d)
    if okdefs:
        ok4 = True
        for d in okdefs:
            good = False
            for (a_, succ) in f.control_deps_transitive(d["b"]):
                t = f.blocks[a_]["term"]
                if t["k"] != "switch":
                    continue
                vals = dict(zip(t["values"], t["targets"]))
                srcs = sl.sources(t["on"])
                from_err = any(x[0] == "call" and callee_of(x[2]).endswith("Result::<T, E>::err") for x in srcs) and \
                    any(x[0] == "call" and x[1] == aw.poll_b for x in srcs)
                direct = any(x[0] == "discr" for x in sl0.sources(t["on"])) and any(x[0] == "call" and x[1] == aw.poll_b for x in srcs)
                if from_err and succ == vals.get(0, t.get("otherwise") if 0 not in vals else None):
                    good = True      # Option<err> is None
                elif direct and not from_err and succ == vals.get(0):
                    good = True      # Result is Ok
            if not good:
                ok4 = False
                why = "Ok(()) is sent on a path that is not the no-error arm of the persist result"
    ctx.ob(rid, rid + ":persist_queue:failure-is-reported", ok4,
           "waiters get Ok only when persist_file returned Ok" if ok4 else "persist_queue: " + why, _loc(f, sends[0][1].get("line")))


def run(ctx, progs):
    P = progs.get("wasmhost")
    ctx.config = "wasmhost"
    try:
        for r in (r27a, r27b, r27c, r27d, r27e, r27f):
            r(ctx, P)
    finally:
        ctx.config = "default"
    ctx.assumptions += ["wasm.rs is analysed as type-checked for the HOST target through the generated harness crate (same source file, "
                        "dependency versions of the workspace lock file); cfg(target_arch = \"wasm32\")-only differences inside the "
                        "dependencies are not visible",
                        "IndexedDB semantics (a completed put is durable; transactions on one store run in creation order) are assumed, "
                        "not checked",
                        "ordering between the persistence of different files of one commit is NOT decided (see explanation)"]
