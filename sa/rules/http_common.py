"""Route table of searchlite-http extracted from `router` (handlers are the fn items passed to get/post)."""
import re
from sa.prog import Site, Slice, callee_of, op_const

ROUTER = "searchlite_http::router"


def const_str(c):
    if c is None:
        return None
    m = re.match(r'^(?:const )?"(.*)"$', c.get("txt", ""))
    return m.group(1) if m else None


def routes(P):
    """[(path, method, handler fn path, Site)] and the fallback handlers {kind: handler}."""
    r = P.fn(ROUTER)
    if r is None:
        return None, None, None
    sl = Slice(r, through_all_calls=True)
    out = []
    fallbacks = {}
    for b, t in r.calls():
        cal = callee_of(t)
        if cal == "axum::routing::Router::<S>::route":
            path = None
            for c in sl.consts(t["args"][1]):
                path = path or const_str(c)
            for x in sl.sources(t["args"][2]):
                if x[0] == "call" and callee_of(x[2]).startswith("axum::routing::method_routing::"):
                    method = callee_of(x[2]).rsplit("::", 1)[1]
                    for a in x[2]["args"]:
                        c = op_const(a)
                        if c and "fn" in c:
                            out.append((path, method, c.get("resolved", c["fn"]), Site(r, b)))
        elif cal in ("axum::routing::Router::<S>::fallback", "axum::routing::Router::<S>::method_not_allowed_fallback"):
            for a in t["args"][1:]:
                c = op_const(a)
                if c and "fn" in c:
                    fallbacks[cal.rsplit("::", 1)[1]] = (c.get("resolved", c["fn"]), Site(r, b))
    return r, out, fallbacks


def handler_fns(P, handler):
    """The handler fn, its coroutine body and every closure nested in it."""
    h = P.fn(handler)
    if h is None:
        return []
    return [h] + P.closures_of(h)
