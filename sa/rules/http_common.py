"""Route table of searchlite-http extracted from `router` (handlers are the fn items passed to get/post)."""
import re
from sa.prog import Site, Slice, callee_of, op_const

ROUTER = "searchlite_http::router"


def const_str(c):
    if c is None:
        return None
    m = re.match(r'^(?:const )?"(.*)"$', c.get("txt", ""))
    return m.group(1) if m else None


def routes(P):
    """[(path, method, handler fn path, Site)] and the fallback handlers {kind: handler}."""
    r = P.fn(ROUTER)
    if r is None:
        return None, None, None
    sl = Slice(r, through_all_calls=True)
    out = []
    fallbacks = {}
    for b, t in r.calls():
        cal = callee_of(t)
        if cal == "axum::routing::Router::<S>::route":
            path = None
            for c in sl.consts(t["args"][1]):
                path = path or const_str(c)
            for x in sl.sources(t["args"][2]):
                if x[0] == "call" and callee_of(x[2]).startswith("axum::routing::method_routing::"):
                    method = callee_of(x[2]).rsplit("::", 1)[1]
                    for a in x[2]["args"]:
                        c = op_const(a)
                        if c and "fn" in c:
                            out.append((path, method, c.get("resolved", c["fn"]), Site(r, b)))
        elif cal in ("axum::routing::Router::<S>::fallback", "axum::routing::Router::<S>::method_not_allowed_fallback"):
            for a in t["args"][1:]:
                c = op_const(a)
                if c and "fn" in c:
                    fallbacks[cal.rsplit("::", 1)[1]] = (c.get("resolved", c["fn"]), Site(r, b))
    return r, out, fallbacks


def handler_fns(P, handler):
    """The handler fn, its coroutine body, every closure nested in it, and — transitively — the non-public helper functions of the
    front-end crate it calls (with their closures): a step shared by two handlers may live in a helper."""
    h = P.fn(handler)
    if h is None:
        return []
    out = []
    seen = set()
    work = [h]
    while work:
        f = work.pop()
        if f.path in seen:
            continue
        seen.add(f.path)
        out.append(f)
        for c in P.closures_of(f):
            if c.path not in seen:
                work.append(c)
        for b, t in f.calls():
            g = P.fns.get(callee_of(t))
            if g is not None and g.crate == h.crate and g.kind != "closure" and g.vis != "Public" and g.path not in seen and \
                    "HttpError" not in g.path:
                work.append(g)
    return out


def join_mappers(P, crate="searchlite_http", httperr="searchlite_http::HttpError"):
    """{callee path: index of the `kind` argument} of functions that turn something into a 500 HttpError of a given kind:
    HttpError::from_anyhow itself (status checked at the call site) and helpers that call it with status 500 and their own parameter
    as the kind (e.g. a `join_failure(kind, err)` constructor)."""
    out = {httperr + "::from_anyhow": (0, None)}
    for q, f in P.fns.items():
        if f.crate != crate or f.kind == "closure":
            continue
        for b, t in f.calls():
            if callee_of(t) == httperr + "::from_anyhow" and len(t["args"]) >= 2:
                sl = Slice(f)
                ks = [x[1] for x in sl.sources(t["args"][0]) if x[0] == "arg"]
                c = op_const(t["args"][1])
                st = sl.consts(t["args"][1]) if c is None else [c]
                if ks and any("INTERNAL_SERVER_ERROR" in (x.get("txt", "") if x else "") or (x or {}).get("int") == 500 for x in st):
                    out[q] = (ks[0] - 1, 500)
    return out
