"""C09 — pruned top-k equals exhaustive top-k (partial: structural preconditions of pruning)."""
from sa import names as N
from sa.prog import Site, Slice, TERM, callee_of, op_local, op_place, op_const, err_sites, return_sites
from sa.rules.common import is_test_or_bench

EXPLANATION = ("Decides the structural preconditions under which comparing the top-k heap threshold with a sum of BM25 term upper "
               "bounds is meaningful: (a) the score algebra evaluated over the leaves is sub-additive — the expression type has "
               "exactly the variants Leaf/Sum/DisMax and every DisMax tie breaker comes out of a validator that rejects <0 and >1; "
               "(b) wherever an accumulator of TermState::upper_bound / block_upper_bound results is compared with a threshold, "
               "every definition of that threshold other than -inf is reachable only when both the document collector and the "
               "score-adjust hook are None; (c) collection is not gated by the heap. Whether the bounds themselves are upper bounds "
               "is algorithmic and is NOT decided, with one exception that is structural: (e) a block maximum holds for one block only, so "
               "no block-level bound may influence a test that ENDS the search, and a skip decided from block maxima stays within the "
               "end of those blocks and the next cursor (found violated on the pinned tree: bmw stopped on the current blocks' bounds).")

WAND = "searchlite_core::query::wand::"
SCOREEXPR = "searchlite_core::query::planner::ScoreExpr"


def r09a(ctx, P):
    rid = "R09.a"
    ctx.rule(rid, "AGREE: ScoreExpr (evaluated by ScorePlan::evaluate) has exactly the variants {Leaf, Sum, DisMax}; every "
                  "construction of ScoreExpr::DisMax takes its tie_breaker from validate_tie_breaker, which returns Err for value<0 "
                  "and for value>1 — hence plan.evaluate(leaves) <= sum(leaves) for non-negative leaves")
    adt = P.adts.get(SCOREEXPR)
    if not ctx.anchor(rid, adt, "ScoreExpr enum"):
        return
    names = sorted(v["name"] for v in adt["variants"])
    ctx.ob(rid, "%s:ScoreExpr:variants" % rid, names == ["DisMax", "Leaf", "Sum"],
           "ScoreExpr = {Leaf, Sum, DisMax}" if names == ["DisMax", "Leaf", "Sum"] else
           "ScoreExpr has variants %s: a node that is not sub-additive over its leaves invalidates WAND's pivot test" % names,
           "%s:%s" % (adt["file"], adt["line"]))
    n = 0
    for p, f in sorted(P.fns.items()):
        if f.crate != "searchlite_core" or is_test_or_bench(f) or any("derive" in m or "Clone" in m for m in f.macros):
            continue
        sl = None
        for b, i, s in f.stmts():
            if s["k"] == "assign" and s["rv"]["k"] == "agg" and s["rv"].get("adt") == SCOREEXPR and s["rv"]["variant"] == "DisMax":
                if any("Clone" in m or "derive" in m for m in s.get("macros", [])):
                    continue
                n += 1
                ctx.saw(f)
                sl = sl or Slice(f)
                idx = s["rv"]["fields"].index("tie_breaker")
                cs = sl.callees(s["rv"]["ops"][idx])
                ok = any(c.endswith("planner::validate_tie_breaker") for c in cs)
                ctx.ob(rid, "%s:%s:DisMax-tie-breaker" % (rid, f.short), ok,
                       "tie_breaker of the DisMax built at %s comes from validate_tie_breaker" % Site(f, b, i).loc() if ok else
                       "DisMax built at %s takes an unvalidated tie_breaker" % Site(f, b, i).loc(), Site(f, b, i).loc())
    ctx.floor(rid, n, 2, "ScoreExpr::DisMax construction sites")
    v = P.fn("searchlite_core::query::planner::validate_tie_breaker")
    if ctx.anchor(rid, v, "validate_tie_breaker"):
        ctx.saw(v)
        sl = Slice(v)
        lo = hi = False
        for b in sorted(v.reachable()):
            t = v.blocks[b]["term"]
            if t["k"] != "switch":
                continue
            l = op_local(t["on"])
            for d in v.defs().get(l, []):
                if d["k"] == "assign" and d["rv"]["k"] == "binop" and d["rv"]["op"] in ("Lt", "Gt", "Le", "Ge"):
                    cb = op_const(d["rv"]["b"])
                    vals = dict(zip(t["values"], t["targets"]))
                    true_succ = t["otherwise"] if 0 in vals else vals.get(1)
                    rej = any(s.b in v.reachable_from(true_succ) for s, k in return_sites(v) if k == "err") and \
                        not any(s.b in v.reachable_from(true_succ) for s, k in return_sites(v) if k == "ok")
                    if cb is not None and rej:
                        fl = cb.get("float")
                        if d["rv"]["op"] == "Lt" and fl in ("0.0", "-0.0"):
                            lo = True
                        if d["rv"]["op"] == "Gt" and fl == "1.0":
                            hi = True
        ctx.ob(rid, "%s:validate_tie_breaker:range" % rid, lo and hi,
               "validate_tie_breaker rejects value < 0 and value > 1" if lo and hi else
               "validate_tie_breaker no longer rejects %s" % ("value < 0" if not lo else "value > 1"), "%s:%s" % (v.file, v.line))


def hook_params(f):
    """(collector param locals, score-adjust param locals) identified by type."""
    coll, adj = [], []
    for i in range(1, f.arg_count + 1):
        ty = f.arg_ty(i)
        if ty.startswith("core::option::Option<&mut ") and "FnMut(u32, f32, &" in ty:
            adj.append(i)
        elif ty == "core::option::Option<&mut C>":
            coll.append(i)
    return coll, adj


def none_arms(f, param):
    """Blocks entered only when Option parameter `param` is None (false arm of is_some / true arm of is_none / None
    discriminant arm)."""
    out = []
    preds = f.preds()
    sl = Slice(f)
    for b in f.reachable():
        t = f.blocks[b]["term"]
        if t["k"] != "switch":
            continue
        l = op_local(t["on"])
        for d in f.defs().get(l, []):
            vals = dict(zip(t["values"], t["targets"]))
            arm = None
            if d["k"] == "call" and callee_of(d["t"]).endswith(("Option::<T>::is_some", "Option::<T>::is_none")):
                if param in sl.args(d["t"]["args"][0]) or _is_param(f, d["t"]["args"][0], param):
                    arm = vals.get(0) if callee_of(d["t"]).endswith("is_some") else (t["otherwise"] if 0 in vals else vals.get(1))
            elif d["k"] == "assign" and d["rv"]["k"] == "discr":
                src = Slice(f, through_all_calls=True).sources({"cp": d["rv"]["place"]})
                if d["rv"]["place"]["l"] == param or any(x[0] == "arg" and x[1] == param for x in src):
                    arm = vals.get(0)
            if arm is not None and set(preds.get(arm, [])) == {b}:
                out.append(arm)
    return out


def _is_param(f, operand, param):
    l = op_local(operand)
    seen = set()
    while l is not None and l not in seen:
        seen.add(l)
        if l == param:
            return True
        dfs = f.defs().get(l, [])
        if len(dfs) != 1 or dfs[0]["k"] != "assign":
            return False
        rv = dfs[0]["rv"]
        if rv["k"] == "ref":
            l = rv["place"]["l"]
        elif rv["k"] == "use":
            l = op_local(rv["a"])
        else:
            return False
    return False


BOUND_FNS = ("TermState::upper_bound", "TermState::block_upper_bound", "TermState::block_bound_at")


def block_bound_fns(P):
    """Methods of TermState whose result is a BLOCK-level bound: they read the per-block maxima (field block_max_tfs)."""
    out = set()
    for q, g in P.fns.items():
        if not q.startswith(WAND + "TermState::") or g.kind == "closure":
            continue
        for b, i, st in g.stmts():
            if st["k"] != "assign":
                continue
            rv = st["rv"]
            pl = rv.get("place") if rv["k"] in ("ref", "discr") else (op_place(rv["a"]) if rv["k"] in ("use", "cast") else None)
            if pl and any(isinstance(e, dict) and e.get("f") == "block_max_tfs" for e in pl["p"]):
                out.add(q)
    return out


def derives_from_bounds(P, f, sl, operand):
    """Does the operand's value derive from a term upper-bound method — directly, through an accumulator, or through an
    iterator pipeline whose closure calls one?"""
    for x in sl.sources(operand):
        if x[0] == "call" and callee_of(x[2]).endswith(BOUND_FNS):
            return True
        if x[0] == "agg" and x[3].get("ak") == "closure":
            c = x[3]["closure"]
            if any(q.endswith(BOUND_FNS) for q in P.reach(c)):
                return True
        if x[0] == "const" and "closure" in x[1]:
            if any(q.endswith(BOUND_FNS) for q in P.reach(x[1]["closure"])):
                return True
    return False


def pruning_sites(P, f):
    """Comparisons between a value derived from TermState::{upper_bound, block_upper_bound} and a threshold
    -> [(Site, threshold operand)]"""
    out = []
    has_bounds = any(q.endswith(BOUND_FNS) for q in P.reach(f.path))
    if not has_bounds:
        return out
    sl = Slice(f, through_all_calls=True)
    for b, i, s in f.stmts():
        if s["k"] == "assign" and s["rv"]["k"] == "binop" and s["rv"]["op"] in ("Ge", "Gt", "Le", "Lt"):
            a, bb = s["rv"]["a"], s["rv"]["b"]
            # scores are f32: a comparison of document ids that happen to come out of a block lookup is not a pruning test
            tys = [f.local_ty(op_local(o)) if op_local(o) is not None else "f32" for o in (a, bb)]
            if not all(t_ == "f32" for t_ in tys):
                continue
            da, db = derives_from_bounds(P, f, sl, a), derives_from_bounds(P, f, sl, bb)
            if da and not db:
                out.append((Site(f, b, i), bb))
            elif db and not da:
                out.append((Site(f, b, i), a))
    return out


def _root(f, operand):
    l = op_local(operand)
    seen = set()
    while l is not None and l not in seen:
        seen.add(l)
        dfs = [d for d in f.defs().get(l, []) if not d["partial"]]
        if f.locals[l].get("name") or len(dfs) != 1 or dfs[0]["k"] != "assign" or dfs[0]["rv"]["k"] != "use":
            return l
        l = op_local(dfs[0]["rv"]["a"])
    return l


def r09b(ctx, P):
    rid = "R09.b"
    ctx.rule(rid, "GUARD: at every comparison of an accumulator of TermState::{upper_bound,block_upper_bound} results with a "
                  "threshold, each definition of the threshold that is not the constant -inf lies in a block that is entered only "
                  "when the collector parameter (Option<&mut C>) is None AND the score-adjust parameter "
                  "(Option<&mut dyn FnMut(u32,f32,&[f32])->Option<f32>>) is None")
    n = 0
    for p, f in sorted(P.fns.items()):
        if not p.startswith(WAND) or is_test_or_bench(f):
            continue
        ps = pruning_sites(P, f)
        if not ps:
            continue
        ctx.saw(f)
        coll, adj = hook_params(f)
        for site, thr in ps:
            n += 1
            tl = _root(f, thr)
            defs = [d for d in f.defs().get(tl, []) if not d["partial"]]
            bad = []
            for d in defs:
                if d["k"] == "assign" and d["rv"]["k"] == "use":
                    c = op_const(d["rv"]["a"])
                    if c is not None and ("NEG_INFINITY" in c.get("txt", "") or c.get("float") == "-inf"):
                        continue
                dsite = Site(f, d["b"], d["i"])
                for kind, params in (("collector", coll), ("score-adjust hook", adj)):
                    if not params:
                        bad.append((dsite, "%s parameter not found by type" % kind))
                        continue
                    for prm in params:
                        arms = none_arms(f, prm)
                        if not any(f.dominates_block(a, d["b"]) for a in arms):
                            bad.append((dsite, "a %s is attached" % kind))
            ctx.ob(rid, "%s:%s:pruning-threshold" % (rid, f.short), not bad,
                   "pruning comparison at %s: the heap threshold is used only when no collector and no score hook is attached" % site.loc()
                   if not bad else
                   "pruning comparison at %s uses the threshold defined at %s although %s: documents are skipped on a BM25 bound "
                   "that says nothing about the collected set / the adjusted score" % (site.loc(), bad[0][0].loc(), bad[0][1]),
                   site.loc(), {"threshold_defs": [Site(f, d["b"], d["i"]).loc() for d in defs]})
    ctx.floor(rid, n, 1, "pruning comparisons (accumulated upper bounds vs threshold)")


def r09c(ctx, P):
    rid = "R09.c"
    ctx.rule(rid, "GUARD: in every executor loop DocCollector::collect is reached from the accept call's true arm without passing a "
                  "test on the top-k heap or on k (the rank-insert test must not gate collection)")
    n = 0
    for p, f in sorted(P.fns.items()):
        if not p.startswith(WAND) or is_test_or_bench(f) or f.kind == "closure":
            continue
        cols = [b for b, t in f.calls() if t["callee"].endswith("DocCollector::collect")]
        if not cols:
            continue
        ctx.saw(f)
        sl = Slice(f, through_all_calls=True)
        for cb in cols:
            n += 1
            deps = f.control_deps_transitive(cb)
            bad = None
            for (a, succ) in deps:
                t = f.blocks[a]["term"]
                if t["k"] != "switch":
                    continue
                srcs = sl.sources(t["on"])
                uses_heap = any(x[0] == "call" and "binary_heap::BinaryHeap" in callee_of(x[2]) and x[2]["args"] and
                                "RankedDoc" in f.local_ty(op_local(x[2]["args"][0]) or 0) + str(_heap_ty(f, x[2])) for x in srcs)
                # direct dependence only: the branch lies after the accept call
                accepts = [b for b, t2 in f.calls() if t2["callee"] == "<indirect>" or "FnMut" in callee_of(t2) and "call_mut" in callee_of(t2)]
                after_accept = any(f.dominates_block(x, a) for x in accepts)
                if uses_heap and after_accept:
                    bad = Site(f, a)
            ctx.ob(rid, "%s:%s:collect-not-gated-by-heap" % (rid, f.short), bad is None,
                   "collect at %s is not gated by a heap/k test after accept" % Site(f, cb).loc() if bad is None else
                   "collect at %s is control-dependent on the heap test at %s: aggregations would depend on k" % (Site(f, cb).loc(), bad.loc()),
                   Site(f, cb).loc())
    ctx.floor(rid, n, 3, "DocCollector::collect sites in the executors")


def _heap_ty(f, t):
    l = op_local(t["args"][0]) if t["args"] else None
    out = ""
    seen = set()
    while l is not None and l not in seen:
        seen.add(l)
        out += f.local_ty(l)
        dfs = f.defs().get(l, [])
        if len(dfs) == 1 and dfs[0]["k"] == "assign" and dfs[0]["rv"]["k"] == "ref":
            l = dfs[0]["rv"]["place"]["l"]
        else:
            break
    return out


CHAIN_OK = ("::as_ref", "::as_deref", "Deref>::deref", "::iter", "::into_iter", "::copied", "::cloned", "::filter", "::as_slice",
            "::rev", "::clone", "::borrow")


def _value_defs(f, operand, depth=0, seen=None):
    """Definitions a value comes from, looking through plain copies and through `.i` of tuples that are built in place."""
    seen = seen if seen is not None else set()
    out = []
    pl = op_place(operand) if isinstance(operand, dict) else None
    if pl is None:
        return out
    l = pl["l"]
    idx = [e["i"] for e in pl["p"] if isinstance(e, dict) and "i" in e]
    key = (l, tuple(idx))
    if key in seen or depth > 30:
        return out
    seen.add(key)
    for d in f.defs().get(l, []):
        if d["k"] == "assign" and not d.get("partial"):
            rv = d["rv"]
            if rv["k"] in ("use", "cast") and op_place(rv["a"]) is not None and not idx:
                out += _value_defs(f, rv["a"], depth + 1, seen)
                continue
            if rv["k"] == "agg" and rv.get("ak") == "tuple" and idx and idx[0] < len(rv["ops"]):
                out += _value_defs(f, rv["ops"][idx[0]], depth + 1, seen)
                continue
            if rv["k"] in ("use", "cast") and op_place(rv["a"]) is not None and idx:
                src = op_place(rv["a"])
                out += _value_defs(f, {"cp": {"l": src["l"], "p": list(src["p"]) + [e for e in pl["p"] if isinstance(e, dict) and "i" in e]}}, depth + 1, seen)
                continue
        out.append(d)
    return out


def r09d(ctx, P):
    rid = "R09.d"
    import re
    ctx.rule(rid, "AGREE (the length floor of the upper bounds vs the length used for scoring): TermState::doc_len(d) is lens[d] when "
                  "positive and avgdl.max(1) otherwise; upper_bound / block_upper_bound use `min_doc_len` in its place, which is sound "
                  "only if it is a lower bound of every doc_len. In TermState::new every value stored into `min_doc_len` is either "
                  "(a) a minimum-reduction over the WHOLE doc_lengths column — receiver chain made of deref/iter/copied/filter only, no "
                  "slicing, indexing, skip/take — whose filters test nothing but positivity, selected by `is_finite()` alone, or (b) "
                  "the same fallback doc_len uses, selected only by `!is_finite()` of that reduction or by the absence of the column")
    f = P.fn("searchlite_core::query::wand::TermState::new")
    adt = P.adts.get("searchlite_core::query::wand::TermState")
    if not (ctx.anchor(rid, f, "TermState::new") and ctx.anchor(rid, adt, "TermState")):
        return
    ctx.saw(f)
    names = [x[0] for x in adt["variants"][0]["fields"]]
    if not ctx.anchor(rid, "min_doc_len" in names, "TermState.min_doc_len"):
        return
    ix = names.index("min_doc_len")
    sl = Slice(f, through_all_calls=True)
    sl0 = Slice(f)
    aggs = [(b, i, st) for b, i, st in f.stmts() if st["k"] == "assign" and st["rv"]["k"] == "agg" and
            (st["rv"].get("adt") or "") == "searchlite_core::query::wand::TermState"]
    ctx.floor(rid, len(aggs), 1, "TermState construction")
    for b, i, st in aggs:
        defs = _value_defs(f, st["rv"]["ops"][ix])
        reductions = []
        problems = []
        RED = r"::(fold|reduce|min|min_by|min_by_key)$"
        red_dsts = set()
        for d in defs:
            if d["k"] != "call":
                continue
            if re.search(RED, callee_of(d["t"])) and d["t"]["args"] and "doc_lengths" in sl.fields(d["t"]["args"][0]):
                reductions.append(d)
                red_dsts.add(d["t"]["dst"]["l"])
            elif callee_of(d["t"]).endswith(("Option::<T>::unwrap_or", "Option::<T>::unwrap_or_else", "Option::<T>::unwrap_or_default")):
                # Option-returning reduction (min_by, reduce) unwrapped with a default
                for x in sl.sources(d["t"]["args"][0]):
                    if x[0] == "call" and re.search(RED, callee_of(x[2])) and x[2]["args"] and "doc_lengths" in sl.fields(x[2]["args"][0]):
                        reductions.append({"k": "call", "t": x[2], "b": x[1]})
                        red_dsts.add(d["t"]["dst"]["l"])
                        red_dsts.add(x[2]["dst"]["l"])
        for d in reductions:
            t = d["t"]
            recv = t["args"][0]
            for x in sl.sources(recv):
                if x[0] == "call":
                    c = callee_of(x[2])
                    if c.endswith(CHAIN_OK) or c.endswith(("Option::<T>::as_ref", "unwrap_or", "unwrap_or_default")) and False:
                        continue
                    if c.endswith(CHAIN_OK):
                        continue
                    problems.append("the reduction at %s does not run over the whole column: its source passes through %s" % (
                        Site(f, d["b"]).loc(), c.rsplit("::", 2)[-2] + "::" + c.rsplit("::", 1)[1]))
                if x[0] == "agg" and "ops::range::" in (x[3].get("adt") or ""):
                    problems.append("the reduction at %s runs over a sub-range of the column" % Site(f, d["b"]).loc())
                filter_closures = set()
                if x[0] == "call" and callee_of(x[2]).endswith("::filter"):
                    for a_ in x[2]["args"][1:]:
                        for y in sl.sources(a_):
                            if y[0] == "agg" and y[3].get("closure"):
                                filter_closures.add(y[3]["closure"])
                for cp in sorted(filter_closures):
                    g = P.fn(cp)
                    if g is None:
                        continue
                    ctx.saw(g)
                    cmps = [s_ for _b, _i, s_ in g.stmts() if s_["k"] == "assign" and s_["rv"]["k"] == "binop" and s_["rv"]["op"] in ("Gt", "Ge", "Lt", "Le", "Ne", "Eq")]
                    zero = [s_ for s_ in cmps if s_["rv"]["op"] in ("Gt", "Ne") and
                            any((op_const(o) or {}).get("float") in (0, 0.0) or str((op_const(o) or {}).get("txt", "")).startswith(("0f32", "0_f32", "0.0", "const 0f32"))
                                for o in (s_["rv"]["a"], s_["rv"]["b"]))]
                    other_calls = [callee_of(t_) for _b, t_ in g.calls() if not callee_of(t_).endswith(("Deref>::deref",))]
                    if len(cmps) != 1 or len(zero) != 1 or other_calls:
                        problems.append("the filter closure at %s:%s tests more than positivity" % (g.file, g.line))
        if not reductions:
            problems.append("no minimum-reduction over the doc_lengths column feeds min_doc_len")
        # selection: which tests control each definition?
        for d in defs:
            for (a, succ) in f.control_deps_transitive(d["b"]):
                t = f.blocks[a]["term"]
                if t["k"] != "switch":
                    continue
                srcs = sl0.sources(t["on"])
                is_fin = any(x[0] == "call" and callee_of(x[2]).endswith("::is_finite") and op_local(x[2]["args"][0]) is not None and
                             (set(sl0.locals(x[2]["args"][0])) & red_dsts) for x in srcs) and not any(x[0] == "binop" for x in srcs)
                is_opt = any(x[0] == "discr" for x in srcs) and "doc_lengths" in sl.fields(t["on"]) and not any(x[0] == "binop" for x in srcs)
                if not (is_fin or is_opt):
                    problems.append("the value defined at %s is selected by the test at %s, which is neither `is_finite()` of the reduction "
                                    "nor the presence of the column" % (Site(f, d["b"], d.get("i", TERM)).loc(), Site(f, a).loc()))
        ok = not problems
        ctx.ob(rid, "%s:TermState::new:length-floor" % rid, ok,
               "min_doc_len is the minimum positive length of the whole column (fallback only when there is none): a lower bound of "
               "every doc_len()" if ok else "min_doc_len may exceed a scored document's doc_len(): %s" % "; ".join(sorted(set(problems))[:3]),
               Site(f, b, i).loc())


def r09e(ctx, P):
    rid = "R09.e"
    from sa.prog import influence
    from sa.rules.C25 import natural_loops
    ctx.rule(rid, "STOP ON GLOBAL BOUNDS ONLY: a block maximum bounds a term's contribution inside ONE block. In wand_loop nothing that is "
                  "derived from a block-level bound (a TermState method reading block_max_tfs) may influence a test that leaves the main "
                  "loop — ending the search needs bounds that hold for every remaining posting (TermState::upper_bound) — and every "
                  "skip decided from block maxima moves the cursors to a document derived from the END of those blocks (the doc id the "
                  "block lookup returns), bounded by the next cursor in the queue")
    f = P.fn(WAND + "wand_loop")
    if not ctx.anchor(rid, f, "wand::wand_loop"):
        return
    ctx.saw(f)
    bfns = block_bound_fns(P)
    ctx.note("R09.e: block-level bound methods: %s" % sorted(x.rsplit("::", 1)[1] for x in bfns))
    loops = natural_loops(f)
    if not ctx.anchor(rid, loops, "main loop of wand_loop"):
        return
    hdr, body = max(loops, key=lambda hb: len(hb[1]))
    sl = Slice(f, through_all_calls=True)
    sl0 = Slice(f)
    rets = {b_ for b_ in f.reachable() if f.blocks[b_]["term"]["k"] == "return"}
    # a loop exit is an edge out of the body on which the function can still return (a failed assert! leaves the loop by panicking)
    exits = {(a, s_) for a in body for s_ in f.succ(a) if s_ not in body and not f.blocks[s_].get("cleanup") and
             (f.reachable_from(s_) & rets)}
    # block-derived comparisons: f32 comparisons one of whose operands derives (data) from a block-level bound
    cmps = []
    for b, i, st in f.stmts():
        if b in body and st["k"] == "assign" and st["rv"]["k"] == "binop" and st["rv"]["op"] in ("Ge", "Gt", "Le", "Lt"):
            x, y = st["rv"]["a"], st["rv"]["b"]
            tys = [f.local_ty(op_local(o)) if op_local(o) is not None else "f32" for o in (x, y)]
            if not all(t_ == "f32" for t_ in tys):
                continue
            bx = any(z[0] == "call" and callee_of(z[2]) in bfns for z in sl.sources(x))
            by = any(z[0] == "call" and callee_of(z[2]) in bfns for z in sl.sources(y))
            if bx != by:
                res = st["dst"]["l"]
                # the arm on which "the block maxima are too small": (bounds < thr) true, (bounds >= thr) false, mirrored otherwise
                op = st["rv"]["op"]
                small_when_true = (op in ("Lt", "Le")) == bx
                for sb in body:
                    ts = f.blocks[sb]["term"]
                    if ts["k"] == "switch" and res in (sl0.locals(ts["on"]) | {op_local(ts["on"])}):
                        vals = dict(zip(ts["values"], ts["targets"]))
                        t_succ = ts.get("otherwise") if 0 in vals else vals.get(1)
                        f_succ = vals.get(0)
                        cmps.append((Site(f, b, i), sb, t_succ if small_when_true else f_succ, f_succ if small_when_true else t_succ))
    ctx.floor(rid, len(cmps) if (bfns & set(P.reach(f.path))) else 1, 1, "comparisons of block maxima with the threshold in wand_loop")

    def same_iteration(start):
        seen_, st_ = set(), [start]
        while st_:
            x = st_.pop()
            if x is None or x in seen_ or x == hdr:
                continue
            seen_.add(x)
            st_.extend(f.succ(x))
        return seen_
    bad = []
    for (site, sb, small_arm, other_arm) in cmps:
        for arm in (small_arm, other_arm):
            r = same_iteration(arm)
            out = [(a, s_) for (a, s_) in exits if a in r]
            # leaving the loop in the same iteration because of a block maximum
            if out:
                bad.append((site, Site(f, out[0][0])))
    ctx.ob(rid, "%s:wand_loop:stop-on-global-bounds" % rid, not bad,
           "no comparison of block maxima with the threshold can end the search in the iteration in which it is made" if not bad else
           "the comparison of block maxima with the threshold at %s can end the search (loop exit at %s): the maximum of a term's current "
           "block says nothing about its later blocks, so a better document behind them is never scored (bmw differs from bm25)" % (
               bad[0][0].loc(), bad[0][1].loc()), bad[0][0].loc() if bad else "%s:%s" % (f.file, f.line))
    # skips decided from block maxima: cursor moves that happen only on the "too small" arm
    badskip = []
    nskip = 0
    for (site, sb, small_arm, other_arm) in cmps:
        if small_arm is None:
            continue
        region = same_iteration(small_arm) - (same_iteration(other_arm) if other_arm is not None else set())
        for b, t in f.calls():
            if b in region and callee_of(t).endswith(("TermState::advance_to", "TermState::skip_to_block")) and len(t["args"]) >= 2:
                nskip += 1
                srcs = sl.sources(t["args"][1])
                from_block_end = any(z[0] == "call" and callee_of(z[2]) in bfns for z in srcs)
                mins = any(z[0] == "call" and callee_of(z[2]).endswith("::min") for z in srcs)
                queue_top = any(z[0] == "call" and callee_of(z[2]).endswith("::peek") for z in srcs)
                if not (from_block_end and mins and queue_top):
                    badskip.append((Site(f, b), from_block_end, mins, queue_top))
    if cmps:
        ctx.ob(rid, "%s:wand_loop:block-skips-stay-inside-the-blocks" % rid, not badskip and nskip > 0,
               "every skip decided from block maxima targets min(end of those blocks + 1, next cursor in the queue)" if not badskip and nskip else
               ("the block maxima are compared with the threshold but no cursor is moved on the `too small` arm" if not nskip else
                "the skip at %s is decided from block maxima but its target is not derived from %s" % (
                    badskip[0][0].loc(), "the blocks' last doc ids" if not badskip[0][1] else
                    "a minimum over them" if not badskip[0][2] else "the next cursor in the queue")),
               badskip[0][0].loc() if badskip else "%s:%s" % (f.file, f.line))


def r09f(ctx, P):
    rid = "R09.f"
    import re
    ctx.rule(rid, "LINEAR LEAVES (what evaluate() adds up is what the executor bounds): every ScoreExpr::Leaf(i) the planner builds takes "
                  "i straight from QueryPlanBuilder::alloc_leaf (through copies, Option, a `then` closure, or a parameter all of whose "
                  "call sites do) — never from a lookup table (Map::entry / get / or_insert_with, indexing): two expression nodes that "
                  "share a leaf make ScorePlan::evaluate count the leaf's score twice while the executor's cursor, and its upper "
                  "bound, exist once")
    LOOKUP = re.compile(r"(BTreeMap|HashMap|Entry|btree_map|hash_map|hash::map|map::entry).*::(entry|get|get_mut|or_insert_with|or_insert|or_default|or_insert_with_key)$|ops::index::Index")
    PL = "searchlite_core::query::planner::"
    n = 0

    def judge(f, operand, depth=0):
        sl = Slice(f, through_all_calls=True)
        srcs = sl.sources(operand)
        look = sorted({callee_of(x[2]) for x in srcs if x[0] == "call" and LOOKUP.search(callee_of(x[2]))})
        if look:
            return False, "taken from a lookup (%s)" % look[0].rsplit("::", 1)[-1]
        alloc = any(x[0] == "call" and callee_of(x[2]).endswith("::alloc_leaf") for x in srcs)
        for x in srcs:
            if x[0] == "agg" and x[3].get("closure") and P.fn(x[3]["closure"]) is not None:
                h = P.fn(x[3]["closure"])
                if any(callee_of(t_).endswith("::alloc_leaf") for b_, t_ in h.calls()):
                    alloc = True
                if any(LOOKUP.search(callee_of(t_)) for b_, t_ in h.calls()):
                    return False, "taken from a lookup inside the closure at %s:%s" % (h.file, h.line)
        if alloc:
            return True, ""
        args = sorted({x[1] for x in srcs if x[0] == "arg"})
        if args and depth < 2 and f.kind != "closure":
            oks = []
            for q2, g in P.fns.items():
                if not q2.startswith(PL) or is_test_or_bench(g):
                    continue
                for b2, t2 in g.calls():
                    if callee_of(t2) == f.path:
                        for k in args:
                            if k - 1 < len(t2["args"]):
                                oks.append(judge(g, t2["args"][k - 1], depth + 1))
            if oks and all(o[0] for o in oks):
                return True, ""
            if oks:
                return False, [o[1] for o in oks if not o[0]][0]
        return False, "not derived from alloc_leaf"
    for q, f in sorted(P.fns.items()):
        if not q.startswith(PL) or is_test_or_bench(f):
            continue
        sites = []
        for b, i, st in f.stmts():
            if st["k"] == "assign" and st["rv"]["k"] == "agg" and (st["rv"].get("adt") or "").endswith("planner::ScoreExpr") and st["rv"].get("variant") == "Leaf":
                sites.append((Site(f, b, i), st["rv"]["ops"][0]))
        for b, t in f.calls():
            if callee_of(t).endswith("Option::<T>::map") and len(t["args"]) == 2:
                c = op_const(t["args"][1])
                if c and str(c.get("resolved", c.get("fn", ""))).endswith("ScoreExpr::Leaf"):
                    sites.append((Site(f, b), t["args"][0]))
        for site, o in sites:
            # evaluation-side uses (`ScoreExpr::Leaf(idx) => ..` patterns) are not constructions: skip aggregates in test helpers only
            n += 1
            ctx.saw(f)
            ok, why = judge(f, o)
            ctx.ob(rid, "%s:%s:leaf-is-fresh" % (rid, f.short.rsplit("::", 1)[-1]), ok,
                   "the leaf built at %s is freshly allocated" % site.loc() if ok else
                   "the leaf index of the ScoreExpr::Leaf built at %s is %s: expression nodes can share a leaf, so evaluate() exceeds the "
                   "sum of the term bounds wand/bmw prune with" % (site.loc(), why), site.loc())
    ctx.floor(rid, n, 4, "ScoreExpr::Leaf constructions in the planner")


THOROUGH_FEATURES = ['r09d']


def run(ctx, progs):
    P = progs.get("default")
    r09a(ctx, P)
    r09b(ctx, P)
    r09c(ctx, P)
    r09d(ctx, P)
    r09e(ctx, P)
    r09f(ctx, P)
    ctx.assumptions += ["leaf scores are non-negative (BM25 with validated non-negative boosts: validate_boost rejects negative / non-finite)",
                        "TermState::upper_bound really bounds the term's contribution over all postings and block_bound_at over one block (R09.d covers the length "
                        "floor they share; the tf maxima come from the postings' own block table) — otherwise algorithmic, not decided here"]
