"""C06 — readers see one consistent snapshot during commits and compaction (partial)."""
from sa import names as N
from sa.prog import Site, Slice, TERM, callee_of, op_local, lock_acquisitions, lock_states
from sa.rules.common import is_test_or_bench, entry_ancestors

EXPLANATION = ("Decides, for all interleavings: (a) the files of a published segment are unlinked only under the manifest write "
               "lock that performed the swap, and a reader holds the manifest read lock from copying the segment list until "
               "every listed file is opened — so no schedule lets a reader open a file that compaction removed; (b) an open "
               "reader never goes back to path-addressed storage (nothing reachable from IndexReader::search reads through "
               "Storage, SegmentReader keeps handles / in-memory copies only); (c) commit's error-arm cleanup touches only "
               "never-published files (C01 R01.f). Equality of results with one committed state is not decided.")

SEG_OPEN = N.SEGR + "::open"


def r06a(ctx, P):
    rid = "R06.a"
    ctx.rule(rid, "PAIR: (i) in IndexReader::open every SegmentReader::open call lies inside the region of a manifest read guard "
                  "that also covers the copy of the manifest; (ii) in Index::compact the cleanup of the old segments lies inside "
                  "the region of the manifest write guard that performed the swap")
    ropen = P.fn(N.READER + "::open")
    comp = P.fn(N.INDEX + "::compact")
    if ctx.anchor(rid, ropen, "IndexReader::open"):
        ctx.saw(ropen)
        sl = Slice(ropen)
        acqs = [(s, g, c) for (s, g, c) in lock_acquisitions(ropen, field="manifest") if c == N.RW_READ]
        opens = [Site(ropen, b) for b, t in ropen.calls() if P.call_reaches(t, N.is_(SEG_OPEN))]
        ctx.floor(rid + ".opens", len(opens), 1, "SegmentReader::open call sites in IndexReader::open")
        clones = [Site(ropen, b) for b, t in ropen.calls()
                  if callee_of(t) == "<searchlite_core::index::manifest::Manifest as core::clone::Clone>::clone"]
        good = False
        detail = {}
        for (asite, g, _c) in acqs:
            st = lock_states(ropen, asite, g)
            oin = all(st(o) == {"L"} for o in opens)
            cin = any(st(c) == {"L"} for c in clones)
            detail[asite.loc()] = {"opens_inside": oin, "manifest_copy_inside": cin}
            if oin and cin and opens:
                good = True
        ctx.ob(rid, "%s:IndexReader::open:opens-under-read-guard" % rid, good,
               "the manifest read guard is held from the copy of the segment list until every segment file is opened" if good else
               "IndexReader::open releases the manifest read lock before opening the listed segment files: reader copies the "
               "list -> compaction swaps the manifest and unlinks the old files -> reader opens a missing file",
               opens[0].loc() if opens else "%s:%s" % (ropen.file, ropen.line), detail)
    if ctx.anchor(rid, comp, "Index::compact"):
        ctx.saw(comp)
        acqs = [(s, g, c) for (s, g, c) in lock_acquisitions(comp, field="manifest") if c == N.RW_WRITE]
        cleanups = [Site(comp, b) for b, t in comp.calls() if P.call_reaches(t, N.any_of({N.S_REMOVE, N.S_REMOVE_DIR}))]
        ctx.floor(rid + ".cleanup", len(cleanups), 1, "file-removal sites in compact")
        good = False
        for (asite, g, _c) in acqs:
            st = lock_states(comp, asite, g)
            if cleanups and all(st(c) == {"L"} for c in cleanups):
                good = True
        ctx.ob(rid, "%s:Index::compact:cleanup-under-write-guard" % rid, good,
               "old segment files are unlinked while the manifest write guard of the swap is still held" if good else
               "Index::compact drops the manifest write guard before unlinking the old segment files (a reader that copied the "
               "old list can then fail to open them)", cleanups[0].loc() if cleanups else "%s:%s" % (comp.file, comp.line))


def r06b(ctx, P):
    rid = "R06.b"
    ctx.rule(rid, "WHO: no function reachable from IndexReader::search reaches Storage::{open_read, read_to_end, exists, open_write, "
                  "...}; SegmentReader has no Storage field (it keeps handles and in-memory copies only)")
    search = P.fn(N.READER + "::search")
    if not ctx.anchor(rid, search, "IndexReader::search"):
        return
    r = P.reach(search.path)
    ctx.saw(search, calls=len(r))
    pa = N.path_addressed_pred(P)
    hit = sorted(e for e in r if pa(e))
    path = P.paths_to(search.path, lambda c: c in hit) if hit else None
    ctx.ob(rid, "%s:IndexReader::search:no-path-addressed-storage" % rid, not hit,
           "nothing reachable from IndexReader::search (%d functions) goes back to path-addressed storage" % len(r) if not hit else
           "IndexReader::search reaches %s via %s: an open reader depends on files that may since have been replaced or removed"
           % (hit, " -> ".join(path or [])), "%s:%s" % (search.file, search.line))
    # positive control: the same query sees the pattern where it exists
    ropen = P.fn(N.READER + "::open")
    pc = ropen is not None and any(pa(e) for e in P.reach(ropen.path))
    ctx.ob(rid, "%s:positive-control" % rid, pc, "control: IndexReader::open reaches Storage::read_to_end (the query can see the pattern)"
           if pc else "positive control failed: IndexReader::open should reach Storage::read_to_end",
           "%s:%s" % (ropen.file, ropen.line) if ropen else None)
    # a reader works on its own copy of the manifest: searching never consults the shared, mutable one
    lock_sites = []
    for q in [search.path] + sorted(x for x in r if x in P.fns):
        g = P.fns[q]
        if g.crate != "searchlite_core" or is_test_or_bench(g):
            continue
        for (ls, _g, c) in lock_acquisitions(g, field="manifest") + lock_acquisitions(g, field="writer_lock"):
            lock_sites.append(ls)
    ctx.ob(rid, "%s:IndexReader::search:no-shared-manifest-lock" % rid, not lock_sites,
           "nothing reachable from IndexReader::search locks the shared manifest or the writer lock: a search answers from the "
           "manifest copy and segment readers captured at open" if not lock_sites else
           "IndexReader::search reaches a lock on shared index state at %s: a search can observe a later commit than the one it was "
           "opened on" % lock_sites[0].loc(), "%s:%s" % (search.file, search.line))
    radt = P.adts.get(N.READER)
    if ctx.anchor(rid, radt, "IndexReader struct"):
        shared = [f[0] for f in radt["variants"][0]["fields"] if "InnerIndex" in f[1] or "RwLock" in f[1] or "index::Index" in f[1]]
        ctx.ob(rid, "%s:IndexReader:owns-its-snapshot" % rid, not shared,
               "IndexReader holds Manifest / SegmentReader values, no handle to the shared index state" if not shared else
               "IndexReader keeps a handle to shared state in field(s) %s" % shared, "%s:%s" % (radt["file"], radt["line"]))
    adt = P.adts.get(N.SEGR)
    if ctx.anchor(rid, adt, "SegmentReader struct"):
        bad = [f[0] for f in adt["variants"][0]["fields"] if "storage::Storage" in f[1] and "StorageFile" not in f[1]]
        ctx.ob(rid, "%s:SegmentReader:no-storage-field" % rid, not bad,
               "SegmentReader holds no Storage (only file handles / in-memory data)" if not bad else
               "SegmentReader keeps a Storage in field(s) %s" % bad, "%s:%s" % (adt["file"], adt["line"]))


def r06c(ctx, P):
    rid = "R06.c"
    ctx.rule(rid, "WHO: commit's error-arm cleanup only touches never-published files (same obligation as C01 R01.f)")
    from sa.rules import C01
    sub = type(ctx)(ctx.pid, ctx.tier)
    C01.r01f(sub, P)
    for o in sub.obs:
        if "cleanup-argument" in o.key or "cleanup-caller" in o.key:
            ctx.ob(rid, o.key.replace("R01.f", "R06.c"), o.ok, o.what, o.where, o.detail)


def r06d(ctx, P):
    rid = "R06.d"
    import re
    ctx.rule(rid, "UNLINK SEMANTICS of every storage backend: an open reader keeps reading the files it opened while compaction removes "
                  "them (R06.a/b rely on it; on disk an unlinked file stays readable). In every `Storage::remove` / `remove_dir_all` "
                  "implementation of the crate, and in what it reaches inside the crate, the only lock taken for writing is the "
                  "directory map, and no byte buffer (`Vec<u8>`) is locked for writing or mutated: removal drops the entry, never the "
                  "contents that open handles share")
    impls = [f for q, f in sorted(P.fns.items()) if f.crate == "searchlite_core" and (f.impl_trait or "").endswith("storage::Storage") and
             q.rsplit("::", 1)[1] in ("remove", "remove_dir_all") and not is_test_or_bench(f)]
    ctx.floor(rid, len(impls), 4, "Storage::remove / remove_dir_all implementations (filesystem, in-memory)")
    map_locks = 0
    for f in impls:
        ctx.saw(f)
        scope = {f.path} | {c.path for c in P.closures_of(f)}
        for q in list(scope):
            scope |= {x for x in P.reach(q) if x in P.fns and P.fns[x].crate == "searchlite_core"}
        bad = []
        for q in sorted(scope):
            g = P.fns[q]
            for b, t in g.calls():
                cal = callee_of(t)
                recv_ty = g.local_ty(op_local(t["args"][0])) if t["args"] and op_local(t["args"][0]) is not None else ""
                if re.search(r"RwLock::<R, T>::(write|upgradable_read)$|Mutex::<R, T>::lock$", cal):
                    if "Vec<u8>" in recv_ty and "HashMap" not in recv_ty:
                        bad.append((Site(g, b), "locks a file's byte buffer for writing"))
                    else:
                        map_locks += 1
                if re.search(r"Vec::<T, A>::(clear|truncate|drain|resize|shrink_to_fit|shrink_to|extend_from_slice|push|set_len|split_off|retain)$", cal) and \
                        "Vec<u8>" in recv_ty:
                    bad.append((Site(g, b), "mutates a file's byte buffer (%s)" % cal.rsplit("::", 1)[1]))
        ctx.ob(rid, "%s:%s" % (rid, f.short), not bad,
               "removal only drops the directory entry" if not bad else
               "%s %s at %s: handles opened before the removal share that buffer, so a reader that was opened before a compaction "
               "loses the contents of its snapshot" % (f.short, bad[0][1], bad[0][0].loc()), bad[0][0].loc() if bad else "%s:%s" % (f.file, f.line))
    ctx.floor(rid + ".detector", map_locks, 1, "write-lock acquisitions seen in the removal code (the directory map)")


THOROUGH_FEATURES = ['r06d']


def run(ctx, progs):
    P = progs.get("default")
    r06a(ctx, P)
    r06b(ctx, P)
    r06c(ctx, P)
    r06d(ctx, P)
    if ctx.tier == "thorough":
        ctx.config = "features"
        Pf = progs.get("features")
        r06a(ctx, Pf)
        r06b(ctx, Pf)
        ctx.config = "default"
    ctx.assumptions += ["an opened file handle / in-memory copy stays readable after the path is unlinked (POSIX; InMemoryStorage keeps an Arc)",
                        "parking_lot RwLock: a write guard excludes read guards"]
