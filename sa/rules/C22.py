"""C22 — completion suggestions are consistent with the term dictionary (partial: cap accounting, merge, final order)."""
import re
from sa import names as N
from sa.prog import Site, Slice, TERM, callee_of, op_local, op_place, op_const, place_fields
from sa.rules.common import is_test_or_bench

EXPLANATION = ("Which terms match a prefix and how often they occur are runtime facts and are NOT decided. Three clauses of the statement "
               "are visible in the shape of collect_completion_candidates / completion_suggest: (a) LAYOUT INDEPENDENCE below the cap — "
               "the counter that is compared with the scan cap is incremented only when a NEW term is admitted (under the false arm of "
               "a contains_key test on the candidate map), and no test on that counter leaves the loop over the segments: a term that "
               "was admitted keeps accumulating its document frequency from every segment, so while fewer distinct terms than the cap "
               "match, doc_freq is the sum over all segments whatever the commit layout; (b) MERGE — per-term frequencies from the "
               "segments and from the analysed inputs are added (saturating) into one entry per term text; (c) ORDER — the options are "
               "sorted by score descending, then text ascending, and cut to `size` after the sort.")

COLLECT = "searchlite_core::api::reader::collect_completion_candidates"
SUGGEST = N.READER + "::completion_suggest"


def r22a(ctx, P):
    rid = "R22.a"
    from sa.rules.C25 import natural_loops
    ctx.rule(rid, "COUNTER DISCIPLINE: in collect_completion_candidates, for every counter local (a usize that is incremented by 1 "
                  "inside the segment loops and compared with the scan cap): each increment is controlled by the false arm of a "
                  "HashMap::contains_key test on the candidate map (a new distinct term), and both successors of every test on the "
                  "counter stay inside the outermost loop (skip this key, never stop scanning the remaining segments)")
    f = P.inlined(COLLECT, depth=2)        # per-mode scan functions and the cap / record helpers are read in place
    if not ctx.anchor(rid, f, "reader::collect_completion_candidates"):
        return
    ctx.saw(f)
    sl = Slice(f)
    loops = natural_loops(f)
    defs = f.defs()
    counters = {}
    sla = Slice(f, through_all_calls=True)

    def root_var(l):
        """the variable a temporary / a spliced helper's parameter stands for (through copies and `&mut x` handed to a helper)"""
        seen = set()
        while l is not None and l not in seen:
            seen.add(l)
            d = [x for x in defs.get(l, []) if x["k"] == "assign" and not x.get("partial")]
            transparent = not f.locals[l].get("name") or f.locals[l].get("inlined")
            if len(d) == 1 and transparent and d[0]["rv"]["k"] in ("use", "cast") and op_local(d[0]["rv"]["a"]) is not None and \
                    all(e == "deref" for e in op_place(d[0]["rv"]["a"])["p"]):
                l = op_local(d[0]["rv"]["a"])
            elif len(d) == 1 and transparent and d[0]["rv"]["k"] == "ref" and all(e == "deref" for e in d[0]["rv"]["place"]["p"]):
                l = d[0]["rv"]["place"]["l"]
            else:
                break
        return l

    def compared_with_cap(c):
        """the counter is compared with the scan cap (a value derived from the `size` parameter / a clamp)"""
        for b_, i_, st_ in f.stmts():
            if st_["k"] == "assign" and st_["rv"]["k"] == "binop" and st_["rv"]["op"] in ("Ge", "Gt", "Le", "Lt"):
                for x, y in ((st_["rv"]["a"], st_["rv"]["b"]), (st_["rv"]["b"], st_["rv"]["a"])):
                    if op_local(x) is not None and root_var(op_local(x)) == c:
                        srcs = sla.sources(y)
                        if any(z[0] == "arg" and f.locals[z[1]].get("name") == "size" for z in srcs) or \
                                any(z[0] == "call" and callee_of(z[2]).endswith("::clamp") for z in srcs):
                            return True
        return False
    for b, i, st in f.stmts():
        if st["k"] == "assign" and st["rv"]["k"] == "binop" and st["rv"]["op"] in ("Add", "AddWithOverflow"):
            a, c = st["rv"]["a"], st["rv"]["b"]
            if (op_const(c) or {}).get("int") == 1 and op_local(a) is not None:
                # find the variable this temp is written back to
                root = root_var(op_local(a))
                if root is not None and "usize" in f.local_ty(root) and any(b in body for h, body in loops) and compared_with_cap(root):
                    counters.setdefault(root, []).append(b)
    ctx.floor(rid, len(counters), 1, "scan counters in collect_completion_candidates")
    for c, inc_blocks in sorted(counters.items()):
        name = f.locals[c].get("name") or "_%d" % c
        # (i) increments under !contains_key
        bad_inc = []
        for ib in inc_blocks:
            ok = False
            for (a, succ) in f.control_deps_transitive(ib):
                t = f.blocks[a]["term"]
                if t["k"] != "switch":
                    continue
                srcs = sl.sources(t["on"])
                if any(x[0] == "call" and re.search(r"Map(<[^>]*>|::<[^>]*>)::contains_key$", callee_of(x[2])) for x in srcs):
                    vals = dict(zip(t["values"], t["targets"]))
                    neg = any(x[0] == "other" and "Not" in str(x[1]) for x in srcs) or \
                        any(d["k"] == "assign" and d["rv"]["k"] == "unop" for d in defs.get(op_local(t["on"]), []))
                    false_succ = vals.get(0)
                    true_succ = t["otherwise"] if 0 in vals else vals.get(1)
                    want = true_succ if neg else false_succ
                    if succ == want:
                        ok = True
            if not ok:
                bad_inc.append(Site(f, ib))
        ctx.ob(rid, "%s:%s:counts-distinct-terms" % (rid, name), not bad_inc,
               "`%s` is incremented only when a term is admitted for the first time" % name if not bad_inc else
               "`%s` is incremented at %s for every (segment, term) occurrence rather than once per distinct term: the cap is reached "
               "sooner the more segments there are" % (name, bad_inc[0].loc()), bad_inc[0].loc() if bad_inc else Site(f, inc_blocks[0]).loc())
        # (ii) tests on the counter never leave the outermost loop
        outer = None
        for h, body in loops:
            if any(ib in body for ib in inc_blocks) and (outer is None or len(body) > len(outer)):
                outer = body
        leaves = []
        for b in sorted(f.reachable()):
            t = f.blocks[b]["term"]
            if t["k"] != "switch" or outer is None or b not in outer:
                continue
            if c not in sl.locals(t["on"]) and not any(root_var(l_) == c for l_ in sl.locals(t["on"])):
                continue
            for s_ in f.succ(b):
                # follow straight-line blocks
                x = s_
                seen = set()
                while x is not None and x not in seen and x in outer and f.blocks[x]["term"]["k"] in ("goto", "drop") and len(f.succ(x)) == 1:
                    seen.add(x)
                    x = f.succ(x)[0]
                if x is not None and x not in outer:
                    leaves.append(Site(f, b))
        ctx.ob(rid, "%s:%s:never-stops-the-segment-scan" % (rid, name), not leaves,
               "reaching the cap only skips new terms; the remaining segments are still scanned" if not leaves else
               "the test on `%s` at %s leaves the loop over the segments: terms admitted earlier stop accumulating their frequency, so "
               "doc_freq depends on the commit layout" % (name, leaves[0].loc()), leaves[0].loc() if leaves else Site(f, inc_blocks[0]).loc())


def r22b(ctx, P):
    rid = "R22.b"
    ctx.rule(rid, "MERGE: wherever a SuggestCandidate's doc_freq is written, the new value is the old value plus the segment's / the "
                  "input's frequency (saturating_add / +): frequencies are added, never overwritten or maximised")
    n = 0
    for path in (COLLECT, SUGGEST):
        f = P.inlined(path, depth=2, small=(None if path == COLLECT else 80))
        if f is None:
            continue
        ctx.saw(f)
        sl = Slice(f, through_all_calls=True)
        for b, i, st in f.stmts():
            if st["k"] == "assign" and place_fields(st["dst"])[-1:] == ["doc_freq"] and "SuggestCandidate" in str(st["dst"]["p"]) + f.local_ty(st["dst"]["l"]):
                n += 1
                srcs = sl.sources(st["rv"]["a"]) if st["rv"]["k"] in ("use", "cast") else []
                # the operation that PRODUCES the stored value (behind plain copies) is an addition one of whose operands is the old value
                adds = reads_old = False
                l_ = op_local(st["rv"]["a"]) if st["rv"]["k"] in ("use", "cast") else None
                seen_ = set()
                while l_ is not None and l_ not in seen_:
                    seen_.add(l_)
                    dd = [d for d in f.defs().get(l_, []) if not d.get("partial")]
                    if len(dd) != 1:
                        break
                    d = dd[0]
                    if d["k"] == "call":
                        if callee_of(d["t"]).endswith(("::saturating_add", "::wrapping_add", "::checked_add")):
                            adds = True
                            reads_old = any("doc_freq" in Slice(f).fields(a_) for a_ in d["t"]["args"])
                        elif callee_of(d["t"]).endswith(("::unwrap_or", "::unwrap", "::unwrap_or_default", "::expect")) and d["t"]["args"]:
                            l_ = op_local(d["t"]["args"][0])
                            continue
                        break
                    rv_ = d["rv"]
                    if rv_["k"] == "binop":
                        if rv_["op"] in ("Add", "AddWithOverflow"):
                            adds = True
                            reads_old = "doc_freq" in (Slice(f).fields(rv_["a"]) | Slice(f).fields(rv_["b"]))
                        break
                    if rv_["k"] in ("use", "cast") and op_local(rv_["a"]) is not None:
                        pl_ = op_place(rv_["a"])
                        # `(sum, overflow).0` of a checked addition
                        l_ = pl_["l"]
                        continue
                    break
                ctx.ob(rid, "%s:%s:doc_freq-accumulates" % (rid, f.short.rsplit("::", 1)[-1]), adds and reads_old,
                       "doc_freq += frequency" if adds and reads_old else
                       "doc_freq is written at %s without adding to its previous value: frequencies of other segments / inputs are lost"
                       % Site(f, b, i).loc(), Site(f, b, i).loc())
    ctx.floor(rid, n, 3, "doc_freq updates (prefix arm, fuzzy arm, input merge)")


def r22c(ctx, P):
    rid = "R22.c"
    ctx.rule(rid, "ORDER: completion_suggest sorts the options with a comparator that compares score as (b, a) — descending — and then "
                  "text as (a, b) — ascending — and truncates to `size` after the sort")
    f = P.fn(SUGGEST)
    if not ctx.anchor(rid, f, "IndexReader::completion_suggest"):
        return
    sl = Slice(f, through_all_calls=True)
    sorts = [(b, t) for b, t in f.calls() if re.search(r"::(sort_by|sort_unstable_by)$", callee_of(t))]
    truncs = [(b, t) for b, t in f.calls() if callee_of(t).endswith("Vec::<T, A>::truncate")]
    if not ctx.anchor(rid, sorts and truncs, "sort_by and truncate in completion_suggest"):
        return
    sb, st = sorts[0]
    tb, tt = truncs[0]
    after = tb in f.reachable_from(sb) and sb not in f.reachable_from(tb)
    size_ok = any(x[0] == "arg" and f.locals[x[1]].get("name") == "size" for x in Slice(f).sources(tt["args"][1]))
    ctx.ob(rid, "%s:completion_suggest:cut-after-sort" % rid, after and size_ok,
           "options are cut to `size` after they are sorted" if after and size_ok else
           "completion_suggest does not truncate to `size` after sorting", Site(f, tb).loc())
    g = None
    base = 2            # a closure's parameters follow its environment; a named comparator function's start at 1
    for a in st["args"][1:]:
        for x in sl.sources(a):
            if x[0] == "agg" and x[3].get("closure"):
                g = P.fn(x[3]["closure"])
            if x[0] == "const" and x[1].get("fn") and P.fn(x[1].get("resolved", x[1]["fn"])) is not None:
                g = P.fn(x[1].get("resolved", x[1]["fn"]))
                base = 1
        c_ = op_const(a)
        if g is None and c_ and c_.get("fn") and P.fn(c_.get("resolved", c_["fn"])) is not None:
            g = P.fn(c_.get("resolved", c_["fn"]))
            base = 1
    if not ctx.anchor(rid, g, "sort comparator closure"):
        return
    ctx.saw(g)

    def side(h, operand):
        out = set()
        for x in Slice(h, through_all_calls=True).sources(operand):
            if x[0] == "arg":
                out.add(x[1])
            if x[0] == "field":
                for fl in x[2]:
                    if str(fl).startswith("upvar:"):
                        out.add(str(fl))
        return out
    score_ok = text_ok = False
    for h in [g] + P.closures_of(g):
        hs = Slice(h, through_all_calls=True)
        for b, t in h.calls():
            cal = callee_of(t)
            if not re.search(r"::(partial_cmp|total_cmp|cmp)$", cal) or len(t["args"]) != 2:
                continue
            f0, f1 = hs.fields(t["args"][0]), hs.fields(t["args"][1])
            s0, s1 = side(h, t["args"][0]), side(h, t["args"][1])
            # in g: arg 2 = a, arg 3 = b ; in the nested then_with closure they are upvars a / b
            def is_a(s):
                return base in s or any("upvar:a" in str(x) or "upvar:*a" in str(x) for x in s)

            def is_b(s):
                return (base + 1) in s or any("upvar:b" in str(x) or "upvar:*b" in str(x) for x in s)
            if "score" in f0 and "score" in f1:
                score_ok = is_b(s0) and is_a(s1) and not is_a(s0)
            if "text" in f0 and "text" in f1:
                text_ok = is_a(s0) and is_b(s1) and not is_b(s0)
    ctx.ob(rid, "%s:completion_suggest:score-desc-then-text-asc" % rid, score_ok and text_ok,
           "options are ordered by score descending, then text ascending" if score_ok and text_ok else
           "the option comparator is not (b.score vs a.score) then (a.text vs b.text): %s" % (
               "score order wrong or missing" if not score_ok else "text tie-break wrong or missing"), "%s:%s" % (g.file, g.line))


def r22d(ctx, P):
    rid = "R22.d"
    ctx.rule(rid, "UNIT (the length pre-filter counts what the edit distance counts): bounded_levenshtein works on characters; wherever "
                  "the reader compares a difference of two lengths (usize::abs_diff) with an edit budget derived from `max_edits`, both "
                  "lengths are character counts (Chars::count / the length of a collected Vec<char>), never byte lengths (str::len, "
                  "String::len): a term one multi-byte character away from the prefix is more than one byte longer and would be dropped "
                  "before the distance is computed")
    n = 0
    for q, f in sorted(P.fns.items()):
        if f.crate != "searchlite_core" or is_test_or_bench(f) or "api::reader" not in q:
            continue
        sl = None
        for b, t in f.calls():
            if not callee_of(t).endswith("::abs_diff") or len(t["args"]) != 2:
                continue
            sl = sl or Slice(f, through_all_calls=True)
            # compared with something derived from max_edits?
            res = t["dst"]["l"]
            budget = False
            for b2, i2, st in f.stmts():
                if st["k"] == "assign" and st["rv"]["k"] == "binop" and st["rv"]["op"] in ("Gt", "Ge", "Lt", "Le"):
                    ops = (st["rv"]["a"], st["rv"]["b"])
                    if any(op_local(o) == res or res in Slice(f).locals(o) for o in ops):
                        for o in ops:
                            srcs = sl.sources(o)
                            if any(x[0] == "field" and "max_edits" in x[2] for x in srcs) or \
                                    any(x[0] == "arg" and f.locals[x[1]].get("name") == "max_edits" for x in srcs):
                                budget = True
            if not budget:
                continue
            n += 1
            ctx.saw(f)
            bad = None
            for a in t["args"]:
                srcs = sl.sources(a)
                chars = any(x[0] == "call" and (callee_of(x[2]).endswith("Iterator::count") or callee_of(x[2]).endswith("Chars<'_> as core::iter::traits::iterator::Iterator>::count")
                                                 or "Chars" in callee_of(x[2])) for x in srcs) or \
                    any(x[0] == "call" and callee_of(x[2]).endswith("Vec::<T, A>::len") and "char" in f.local_ty(op_local(x[2]["args"][0]) or 0) for x in srcs)
                bytes_ = [callee_of(x[2]) for x in srcs if x[0] == "call" and (callee_of(x[2]).endswith("str::<impl str>::len") or callee_of(x[2]).endswith("String::len"))]
                if bytes_ and not chars:
                    bad = bytes_[0]
                elif not chars and not bytes_:
                    # a parameter / value of unknown unit: only accepted when it is named as a character count by construction
                    pass
            ctx.ob(rid, "%s:%s:length-prefilter-in-characters" % (rid, f.short.rsplit("::", 1)[-1]), bad is None,
                   "the length pre-filter at %s compares character counts" % Site(f, b).loc() if bad is None else
                   "the length pre-filter at %s compares byte lengths (%s) with the edit budget: a candidate within max_edits character "
                   "edits whose UTF-8 length differs by more is dropped" % (Site(f, b).loc(), bad.rsplit("::", 1)[-1]), Site(f, b).loc())
    ctx.floor(rid, n, 2, "length pre-filters against an edit budget in api::reader (query expansion, completion)")


THOROUGH_FEATURES = ['r22a', 'r22b', 'r22c', 'r22d']


def run(ctx, progs):
    P = progs.get("default")
    r22a(ctx, P)
    r22b(ctx, P)
    r22c(ctx, P)
    r22d(ctx, P)
    ctx.assumptions += ["SegmentReader::terms_with_prefix enumerates every term of the segment with that prefix; PostingsReader::len is the "
                        "number of documents containing the term in that segment (deleted documents are not subtracted: the statement "
                        "quantifies over histories without pending deletions)"]
