"""C29 — vector and hybrid search return correctly scored, filtered hits (partial; analysed in the `features` configuration)."""
import re
from sa import names as N
from sa.prog import Site, Slice, TERM, callee_of, op_local, op_place, op_const, place_fields
from sa.rules.common import is_test_or_bench

EXPLANATION = ("Similarity values, the blend and nearest-neighbour exactness are numerical / algorithmic and are NOT decided. The code "
               "exists only with the `vectors` feature, so this check analyses the workspace built with that feature (configuration "
               "`features`). Four clauses are structural: (a) GUARDS — in collect_vector_maps every candidate that is kept (pushed to "
               "the per-clause or pending lists) is dominated by the pass arms of `is_deleted`, the request filter "
               "(passes_root_filter) and, when present, the vector filter (passes_filter), and its score is the graph score times "
               "the clause boost; (b) DIMENSION — build_vector_plan returns a plan only after comparing each query vector's length "
               "with the schema field's `dim`, the unequal arm leading to an error; (c) METRIC TABLE — metric_similarity: Cosine -> a "
               "dot product (sum of element-wise products) of (a, b), L2 -> the NEGATED l2_distance(a, b); (d) search_vector_only and "
               "merge_vector_hits obtain their candidates only from collect_vector_maps (no second candidate source that skips the "
               "guards).")

COLLECT = N.READER + "::collect_vector_maps"


def run(ctx, progs):
    ctx.config = "features"
    P = progs.get("features")
    f = P.fn(COLLECT)
    ctx.rule("R29.a", "GUARD: every kept vector candidate passed is_deleted == false, passes_root_filter == true and (if a vector filter "
                      "is given) passes_filter == true; its score is multiplied by the clause boost")
    ctx.rule("R29.b", "GUARD: build_vector_plan compares vector.len() with the field's dim and rejects on inequality before a clause is "
                      "added to the plan")
    ctx.rule("R29.c", "TABLE: metric_similarity arms — Cosine: sum of Mul over zip(a, b); L2: Neg of l2_distance(a, b)")
    ctx.rule("R29.d", "WHO: HnswIndex::search is called from collect_vector_maps only (within api::reader)")
    if not ctx.anchor("R29.a", f, "IndexReader::collect_vector_maps (features configuration)"):
        ctx.config = "default"
        return
    ctx.saw(f)
    sl = Slice(f, through_all_calls=True)
    sl0 = Slice(f)
    # ---- (a)
    searches = [(b, t) for b, t in f.calls() if callee_of(t).endswith("HnswIndex::search")]
    ctx.floor("R29.a", len(searches), 1, "HnswIndex::search call in collect_vector_maps")
    pushes = []
    for b, t in f.calls():
        if callee_of(t).endswith("Vec::<T, A>::push") and t["args"] and "VectorCandidate" in f.local_ty(op_local(t["args"][0]) or 0):
            # only pushes of candidates that come straight from the graph search (not the second phase re-push)
            if any(x[0] == "call" and callee_of(x[2]).endswith("HnswIndex::search") for x in sl.sources(t["args"][1])):
                pushes.append((b, t))
    ctx.floor("R29.a.push", len(pushes), 1, "pushes of graph candidates")

    def guard(b, callee_tail, want_true):
        """the push block is controlled by the `want_true` outcome of a call to callee_tail"""
        for (a, succ) in f.control_deps_transitive(b):
            ta = f.blocks[a]["term"]
            if ta["k"] != "switch":
                continue
            srcs = sl0.sources(ta["on"])
            if any(x[0] == "call" and callee_of(x[2]).endswith(callee_tail) for x in srcs):
                neg = any(d["k"] == "assign" and d["rv"]["k"] == "unop" for d in f.defs().get(op_local(ta["on"]), []))
                vals = dict(zip(ta["values"], ta["targets"]))
                true_succ = ta["otherwise"] if 0 in vals else vals.get(1)
                false_succ = vals.get(0)
                call_true = false_succ if neg else true_succ
                call_false = true_succ if neg else false_succ
                if succ == (call_true if want_true else call_false):
                    return True
        return False
    # path form: the three tests may be folded into one boolean (`let visible = !deleted && root_ok && filter_ok; if !visible
    # {continue}`), so the decision is read off the paths from the element binding to the push, with the three calls as atoms
    from sa import boolpaths
    loop_next = [(b_, t_) for b_, t_ in f.calls() if callee_of(t_).endswith("Iterator>::next") and any("ForLoop" in m for m in (t_.get("macros") or []))
                 and any(x[0] == "call" and callee_of(x[2]).endswith("HnswIndex::search") for x in sl.sources(t_["args"][0]))]

    def call_atom(t_, val):
        cal_ = callee_of(t_)
        if cal_.endswith("SegmentReader::is_deleted"):
            return ("atom", ("call", "deleted"), False)
        if cal_.endswith("reader::passes_root_filter"):
            return ("atom", ("call", "root"), False)
        if cal_.endswith("::passes_filter"):
            return ("atom", ("call", "vf"), False)
        if cal_.endswith(("Option::<T>::map_or", "Option::<T>::is_none_or")) and len(t_["args"]) >= 2:
            # `filter.map_or(true, |f| passes_filter(.., f))`: absent filter or passing filter
            dflt_true = cal_.endswith("is_none_or") or (op_const(t_["args"][1]) or {}).get("int") == 1
            for x in sl.sources(t_["args"][-1]):
                if x[0] == "agg" and x[3].get("closure") and P.fn(x[3]["closure"]) is not None and dflt_true:
                    h_ = P.fn(x[3]["closure"])
                    rets_ = [d for d in h_.defs().get(0, [])]
                    if len(rets_) == 1 and rets_[0]["k"] == "call" and callee_of(rets_[0]["t"]).endswith("::passes_filter"):
                        return ("atom", ("call", "vf"), False)
        return None
    path_verdict = {}
    if loop_next:
        nb_, nt_ = loop_next[0]
        sw_ = f.blocks[nt_["target"]]["term"]
        if sw_["k"] == "switch":
            start_ = dict(zip(sw_["values"], sw_["targets"])).get(1)
            push_blocks = {b_ for b_, _ in pushes}
            hdr_blocks = {nb_}
            if start_ is not None:
                ps_ = boolpaths.paths(f, start_, lambda bb: "push" if bb in push_blocks else ("next" if bb in hdr_blocks else None),
                                      lambda pl: None, call_atom=call_atom, max_paths=20000)
                for b_, _ in pushes:
                    mine = [p_ for p_ in ps_ if p_.end == ("push", b_)]
                    if not mine:
                        continue
                    D, R, V = ("call", "deleted"), ("call", "root"), ("call", "vf")
                    path_verdict[b_] = (all(p_.cons.get(D) is False for p_ in mine), all(p_.cons.get(R) is True for p_ in mine),
                                        all(p_.cons.get(V) is not False for p_ in mine) and any(p_.cons.get(V) is True for p_ in mine))
    for b, t in pushes:
        g1 = guard(b, "SegmentReader::is_deleted", False)
        g2 = guard(b, "reader::passes_root_filter", True)
        if b in path_verdict:
            g1 = g1 or path_verdict[b][0]
            g2 = g2 or path_verdict[b][1]
        # the vector filter: either guarded by passes_filter == true, or the push is on the None arm of the optional filter
        g3 = guard(b, "::passes_filter", True)
        if not g3:
            # acceptable only if every path to the push with Some(filter) passes the test: approximate by requiring a passes_filter call that can reach the push
            g3 = False
        boost = "boost" in sl.fields(t["args"][1])
        ok = g1 and g2 and boost
        # vector filter: a passes_filter call must exist whose failing arm cannot reach the push
        pf = [(pb, pt) for pb, pt in f.calls() if callee_of(pt).endswith("::passes_filter")]
        vf_ok = False
        for pb, pt in pf:
            res = pt["dst"]["l"]
            for sb in f.reachable():
                ts = f.blocks[sb]["term"]
                if ts["k"] == "switch" and res in sl0.locals(ts["on"]) | {op_local(ts["on"])}:
                    neg = any(d["k"] == "assign" and d["rv"]["k"] == "unop" for d in f.defs().get(op_local(ts["on"]), []))
                    vals = dict(zip(ts["values"], ts["targets"]))
                    true_succ = ts["otherwise"] if 0 in vals else vals.get(1)
                    false_succ = vals.get(0)
                    fail = true_succ if neg else false_succ
                    loop_heads = [x for x, tt in f.calls() if any("ForLoop" in m for m in (tt.get("macros") or []))]
                    if fail is not None and b not in f.reachable_from(fail, stop=loop_heads):
                        vf_ok = True
        if b in path_verdict and path_verdict[b][2]:
            vf_ok = True
        ok = g1 and g2 and boost and vf_ok
        why = []
        if not g1:
            why.append("not behind `!is_deleted`")
        if not g2:
            why.append("not behind passes_root_filter")
        if not vf_ok:
            why.append("a document failing the vector filter can still be kept")
        if not boost:
            why.append("the score is not multiplied by the clause boost")
        ctx.ob("R29.a", "R29.a:collect_vector_maps:candidate-guards", ok,
               "a graph candidate is kept only if it is live and passes the request filter and the vector filter; score x boost" if ok else
               "vector candidate kept at %s %s" % (Site(f, b).loc(), "; ".join(why)), Site(f, b).loc())
    # ---- (e) the number of graph candidates asked for does not depend on deletions
    ctx.rule("R29.e", "FLOW (deleted vectors still occupy the graph): the `k` handed to HnswIndex::search in collect_vector_maps derives "
                      "from the clause's candidate_size / k and the number of vectors in the graph (HnswIndex::len) only — nothing "
                      "deletion-dependent (live_docs, is_deleted, deleted_docs) influences it. Deleted documents are filtered out AFTER "
                      "the search, so a request shrunk to the live count loses live neighbours to deleted ones")
    from sa.prog import influence
    for b, t in searches:
        k_op = t["args"][2] if len(t["args"]) > 2 else None
        if k_op is None:
            continue
        inf = influence(f, k_op, lambda a_: any("ForLoop" in m for m in (f.blocks[a_]["term"].get("macros") or [])))
        dep = sorted(c for c in inf["calls"] if c.endswith(("::live_docs", "::is_deleted", "::deleted_count", "::live_count"))) + \
            sorted(x for x in inf["fields"] if x in ("deleted_docs", "deleted", "live_docs"))
        ctx.ob("R29.e", "R29.e:collect_vector_maps:search-size-independent-of-deletions", not dep,
               "the graph search size depends on the clause budgets and the graph size only" if not dep else
               "the number of candidates requested from the graph depends on %s: deleted vectors take slots of live ones and the nearest "
               "live neighbours are missed" % ", ".join(x.rsplit("::", 1)[-1] for x in dep), Site(f, b).loc())
    # ---- (b)
    g = P.fn(N.READER + "::build_vector_plan")
    if ctx.anchor("R29.b", g, "IndexReader::build_vector_plan"):
        ctx.saw(g)
        from sa.rules.C11 import rejecting_tests
        gs = Slice(g, through_all_calls=True)
        good = False
        from sa.prog import ok_sites
        oks = ok_sites(g)
        for b in sorted(g.reachable()):
            t = g.blocks[b]["term"]
            if t["k"] != "switch":
                continue
            for d in g.defs().get(op_local(t["on"]), []):
                if d["k"] == "assign" and d["rv"]["k"] == "binop" and d["rv"]["op"] in ("Ne", "Eq"):
                    sa_, sb_ = gs.sources(d["rv"]["a"]), gs.sources(d["rv"]["b"])
                    len_side = any(x[0] == "call" and callee_of(x[2]).endswith("::len") for x in sa_ + sb_) and \
                        any(x[0] == "field" and "vector" in x[2] for x in sa_ + sb_)
                    dim_side = any(x[0] == "field" and "dim" in x[2] for x in sa_ + sb_)
                    if not (len_side and dim_side):
                        continue
                    vals = dict(zip(t["values"], t["targets"]))
                    uneq = (t["otherwise"] if 0 in vals else vals.get(1)) if d["rv"]["op"] == "Ne" else vals.get(0)
                    if uneq is None:
                        continue
                    pushes_g = [pb for pb, pt in g.calls() if callee_of(pt).endswith("Vec::<T, A>::push") and "VectorClause" in g.local_ty(op_local(pt["args"][0]) or 0)]
                    loop_heads = [x for x, tt in g.calls() if any("ForLoop" in m for m in (tt.get("macros") or []))]
                    reach = g.reachable_from(uneq, stop=loop_heads)
                    if not any(pb in reach for pb in pushes_g) and all(g.dominates_block(b, pb) for pb in pushes_g) and pushes_g:
                        good = True
        ctx.ob("R29.b", "R29.b:build_vector_plan:dimension-checked", good,
               "a clause is added to the plan only after vector.len() == field.dim" if good else
               "build_vector_plan can add a clause without comparing the query vector's length with the field's dimension: a vector of "
               "the wrong dimension is searched instead of rejected", "%s:%s" % (g.file, g.line))
    # ---- (c)
    m = P.inlined("searchlite_core::vectors::metric_similarity", depth=1, keep=("searchlite_core::vectors::l2_distance",))  # a dot-product helper is read in place
    adt = P.adts.get("searchlite_core::vectors::VectorMetric") or P.adts.get("searchlite_core::api::types::VectorMetric")
    if ctx.anchor("R29.c", m, "vectors::metric_similarity"):
        ctx.saw(m)
        sw = None
        for b in sorted(m.reachable()):
            t = m.blocks[b]["term"]
            if t["k"] == "switch":
                for d in m.defs().get(op_local(t["on"]), []):
                    if d["k"] == "assign" and d["rv"]["k"] == "discr":
                        sw = sw or (b, t)
        names = None
        for pth, a in P.adts.items():
            if pth.endswith("::VectorMetric") and "searchlite_core" in pth:
                names = [v["name"] for v in a["variants"]]
        if ctx.anchor("R29.c", sw and names, "match on the metric"):
            b, t = sw
            arms = {}
            for v, tg in zip(t["values"], t["targets"]):
                arms[names[v]] = tg
            if t.get("otherwise") is not None:
                for nm in names:
                    if nm not in arms and m.blocks[t["otherwise"]]["term"]["k"] != "unreachable":
                        arms[nm] = t["otherwise"]
            bad = []
            for nm, tg in arms.items():
                region = m.dominated_region(tg) | {tg}
                calls = set()
                negs = 0
                for rb in region:
                    tt = m.blocks[rb]["term"]
                    if tt["k"] == "call":
                        calls.add(callee_of(tt))
                    for s_ in m.blocks[rb]["stmts"]:
                        if s_["k"] == "assign" and s_["rv"]["k"] == "unop" and s_["rv"].get("op") == "Neg":
                            negs += 1
                clos_mul = False
                for rb in region:
                    for s_ in m.blocks[rb]["stmts"]:
                        if s_["k"] == "assign" and s_["rv"]["k"] == "agg" and s_["rv"].get("closure"):
                            h = P.fn(s_["rv"]["closure"])
                            if h and (any(x["k"] == "assign" and x["rv"]["k"] == "binop" and x["rv"]["op"] == "Mul" for _b, _i, x in h.stmts()) or
                                      any(re.search(r"arith::Mul(<[^>]*>)?>::mul$", callee_of(t_)) for _b, t_ in h.calls())):
                                clos_mul = True
                if nm == "Cosine":
                    if not (any(c.endswith("Iterator::sum") for c in calls) and any(c.endswith("Iterator::zip") for c in calls) and clos_mul) or \
                            any(c.endswith("l2_distance") for c in calls):
                        bad.append("Cosine is not the dot product of (a, b)")
                elif nm == "L2":
                    if not (any(c.endswith("vectors::l2_distance") for c in calls) and negs == 1):
                        bad.append("L2 is not the negated l2_distance(a, b)")
            ctx.ob("R29.c", "R29.c:metric_similarity:table", not bad,
                   "Cosine -> dot product, L2 -> -l2_distance" if not bad else "metric_similarity: %s" % "; ".join(bad), Site(m, b).loc())
    # ---- (d)
    callers = []
    for q, h in P.fns.items():
        if h.crate == "searchlite_core" and "api::reader" in q and not is_test_or_bench(h):
            for b, t in h.calls():
                if callee_of(t).endswith("HnswIndex::search"):
                    root = h
                    while root.kind == "closure" and root.parent and P.fn(root.parent):
                        root = P.fn(root.parent)
                    callers.append((root.path, Site(h, b)))
    other = [c for c in callers if c[0] != COLLECT]
    ctx.ob("R29.d", "R29.d:graph-search-only-behind-the-guards", not other and bool(callers),
           "the HNSW graph is searched from collect_vector_maps only" if not other and callers else
           "HnswIndex::search is also called from %s at %s, outside the deletion / filter guards of collect_vector_maps" % (
               other[0][0].rsplit("::", 1)[-1] if other else "?", other[0][1].loc() if other else "?"), other[0][1].loc() if other else None)
    ctx.config = "default"
    ctx.assumptions += ["analysed with the `vectors` feature enabled (configuration `features`); HnswIndex::search returns (doc id, "
                        "similarity) pairs computed by metric_similarity — its graph traversal and exactness are not decided"]
