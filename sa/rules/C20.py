"""C20 — explain and profile do not change results (partial: `profile` half + final-score ordering)."""
import re
from sa import names as N
from sa.prog import Site, Slice, TERM, callee_of, op_local, op_place, op_const, place_fields
from sa.rules.common import is_test_or_bench

EXPLANATION = ("Decides a type-based non-interference argument for `profile`: the request's profile flag is read only in the search "
               "entry functions; every branch on it controls only blocks whose effects are confined to the profiling state "
               "(QueryStats, the timings map, Instant values, the ProfileResult of the response, the Option<&mut QueryStats> handed "
               "to callees); QueryStats counters are only incremented everywhere and read only by to_execution_profile; any test on "
               "an Option<&mut QueryStats> value controls only counter increments. Hence nothing derived from `profile` can reach "
               "hits, scores, totals, cursors or aggregations. For explain, only the ordering clause is decided: the loop that "
               "copies hit.score into explanation.final_score runs after the last score-mutating call of search; and one necessary "
               "condition of explain's neutrality: the per-segment rank limit used under explain is the segment's live-document count "
               "and does not depend on limit / cursor / candidate_size (the executor cuts ties by doc id, the final sort by the "
               "remaining keys). That `explain` (which legitimately steers control flow) leaves results unchanged otherwise is a "
               "semantic equality and is NOT decided.")

REQ = "searchlite_core::api::types::SearchRequest"
PARAMS = "searchlite_core::api::reader::SegmentSearchParams"
QS = "searchlite_core::query::wand::QueryStats"
ALLOWED_READERS = (N.READER + "::search", N.READER + "::search_vector_only", N.READER + "::search_segment")

# Types a profile-controlled block may write
OK_TYPES = (QS, "&mut " + QS, "std::time::Instant", "core::option::Option<std::time::Instant>", "core::time::Duration", "f64", "u64", "usize", "()", "bool",
            "alloc::string::String", "&str", "core::option::Option<f64>", "(u64, bool)", "(usize, bool)",
            "searchlite_core::api::reader::ProfileResult", "core::option::Option<searchlite_core::api::reader::ProfileResult>",
            "searchlite_core::api::reader::ExecutionProfile", "core::option::Option<searchlite_core::api::reader::ExecutionProfile>",
            "alloc::collections::btree::map::BTreeMap<alloc::string::String, f64>", "&mut alloc::collections::btree::map::BTreeMap<alloc::string::String, f64>",
            "&searchlite_core::query::wand::QueryStats", "&std::time::Instant")
OK_CALLEE_PREFIX = ("std::time::Instant::", "core::time::Duration::", "alloc::collections::btree::map::BTreeMap::<K, V, A>::insert",
                    "alloc::collections::btree::map::BTreeMap::<K, V>::new", "searchlite_core::api::reader::to_execution_profile",
                    "<str as alloc::string::ToString>::to_string", "<T as alloc::string::ToString>::to_string", "alloc::string::",
                    "core::option::Option::<T>::unwrap_or_else", "core::option::Option::<T>::unwrap_or", "<str as alloc::borrow::ToOwned>::to_owned",
                    "core::mem::drop", "core::option::Option::<T>::is_some", "core::option::Option::<T>::is_none",
                    "<std::time::Instant as", "<core::time::Duration as", "<alloc::string::String as")


DERIVE_TRAITS = ("core::clone::Clone", "core::fmt::Debug", "serde_core::ser::Serialize", "serde::ser::Serialize", "core::cmp::PartialEq",
                 "core::default::Default", "serde_core::de::Deserialize", "serde::de::Deserialize")


def is_derived(f):
    if f.impl_trait in DERIVE_TRAITS:
        return True
    return any(m in ("Clone", "Debug", "Serialize", "Deserialize", "PartialEq", "Default") or "derive" in m for m in f.macros) or \
        "serde_core::ser::Serialize for" in f.path or "serde_core::de::Deserialize" in f.path or "serde::" in f.path


def strip_refs(ty):
    t = ty
    while True:
        t2 = re.sub(r"^&(?:'\w+ )?(?:mut )?", "", t)
        if t2 == t:
            return t
        t = t2


def reads_of_field(f, adt, field):
    """Sites reading `<adt>.<field>` (as an operand, a borrow or a discriminant)."""
    out = []

    def hit(pl):
        return any(isinstance(e, dict) and e.get("f") == field and e.get("of") == adt for e in pl["p"])
    for b, i, s in f.stmts():
        if s["k"] != "assign":
            continue
        rv = s["rv"]
        ops = []
        if rv["k"] in ("use", "cast", "unop", "repeat"):
            ops = [rv["a"]]
        elif rv["k"] == "binop":
            ops = [rv["a"], rv["b"]]
        elif rv["k"] == "agg":
            ops = rv["ops"]
        for o in ops:
            pl = op_place(o)
            if pl and hit(pl):
                out.append((Site(f, b, i), s["dst"]["l"]))
        if rv["k"] in ("ref", "discr") and hit(rv["place"]):
            out.append((Site(f, b, i), s["dst"]["l"]))
    for b in f.reachable():
        t = f.blocks[b]["term"]
        if t["k"] == "switch":
            pl = op_place(t["on"])
            if pl and hit(pl):
                out.append((Site(f, b), None))
        elif t["k"] == "call":
            for a in t["args"]:
                pl = op_place(a)
                if pl and hit(pl):
                    out.append((Site(f, b), t["dst"]["l"]))
    return out


def tainted_switches(f, seeds):
    """Switch blocks whose operand is (a copy of) a profile-derived bool."""
    tainted = set(x for x in seeds if x is not None)
    changed = True
    while changed:
        changed = False
        for l, dfs in f.defs().items():
            if l in tainted:
                continue
            for d in dfs:
                if d["k"] == "assign" and d["rv"]["k"] in ("use", "cast", "unop") and op_local(d["rv"]["a"]) in tainted and not op_place(d["rv"]["a"])["p"]:
                    tainted.add(l)
                    changed = True
    out = []
    for b in f.reachable():
        t = f.blocks[b]["term"]
        if t["k"] != "switch":
            continue
        pl = op_place(t["on"])
        if pl is None:
            continue
        direct = any(isinstance(e, dict) and e.get("f") == "profile" and e.get("of") in (REQ, PARAMS) for e in pl["p"])
        if direct or (pl["l"] in tainted and not pl["p"]):
            out.append(b)
    return out, tainted


def controlled_blocks(f, sw):
    """Blocks that execute depending on the outcome of switch `sw` (control dependent on it, transitively)."""
    out = set()
    for b in f.reachable():
        if any(a == sw for (a, s) in f.control_deps_transitive(b)):
            out.add(b)
    return out


def type_ok(ty):
    t = strip_refs(ty)
    return t in OK_TYPES or QS in t and ("Option<" in t or t == QS) or t.startswith(("core::fmt::", "[core::fmt::", "(&", "[&str"))


def escapes(f, local, region):
    """Is `local` (defined inside the controlled region) read outside of it?"""
    if f.locals[local].get("name"):
        return True
    for b in f.reachable():
        if b in region:
            continue
        blk = f.blocks[b]
        for s in blk["stmts"]:
            if s["k"] != "assign":
                continue
            rv = s["rv"]
            ops = [rv["a"]] if rv["k"] in ("use", "cast", "unop", "repeat") else ([rv["a"], rv["b"]] if rv["k"] == "binop" else (rv["ops"] if rv["k"] == "agg" else []))
            if any(op_local(o) == local for o in ops):
                return True
            if rv["k"] in ("ref", "discr", "rawptr") and rv["place"]["l"] == local:
                return True
        t = blk["term"]
        if t["k"] == "call" and any(op_local(a) == local for a in t["args"]):
            return True
        if t["k"] == "switch" and op_local(t["on"]) == local:
            return True
    return False


SCALARS = ("usize", "u64", "u32", "i64", "f64", "f32", "bool", "alloc::string::String", "&str", "(u64, bool)", "(usize, bool)", "core::option::Option<f64>")


def scalar_escape_ok(f, local, region, depth=0):
    """A scalar defined under a profile test may leave the region only towards profiling sinks."""
    if depth > 4:
        return False
    for b in f.reachable():
        if b in region:
            continue
        blk = f.blocks[b]
        for s in blk["stmts"]:
            if s["k"] != "assign":
                continue
            rv = s["rv"]
            ops = [rv["a"]] if rv["k"] in ("use", "cast", "unop", "repeat") else ([rv["a"], rv["b"]] if rv["k"] == "binop" else (rv["ops"] if rv["k"] == "agg" else []))
            used = any(op_local(o) == local for o in ops) or (rv["k"] in ("ref", "discr") and rv["place"]["l"] == local)
            if not used:
                continue
            if s["dst"]["p"] and any(isinstance(e, dict) and e.get("of") == QS for e in s["dst"]["p"]):
                continue
            if rv["k"] == "agg" and (rv.get("adt", "").endswith(("ProfileResult", "ExecutionProfile"))):
                continue
            dty = f.local_ty(s["dst"]["l"])
            if not s["dst"]["p"] and strip_refs(dty) in SCALARS + ("core::time::Duration", "std::time::Instant") and not f.locals[s["dst"]["l"]].get("name") \
                    and scalar_escape_ok(f, s["dst"]["l"], set(), depth + 1):
                continue
            return False
        t = blk["term"]
        if t["k"] == "call" and any(op_local(a) == local for a in t["args"]):
            cal = callee_of(t)
            if not cal.startswith(OK_CALLEE_PREFIX):
                return False
        if t["k"] == "switch" and op_local(t["on"]) == local:
            return False
    return True


def block_effects_ok(f, b, region):
    """Every effect of block b that is visible outside the controlled region stays inside the profiling state."""
    blk = f.blocks[b]
    for i, s in enumerate(blk["stmts"]):
        if s["k"] != "assign":
            continue
        dl = s["dst"]["l"]
        ty = f.local_ty(dl)
        if s["dst"]["p"]:
            of = [e.get("of") for e in s["dst"]["p"] if isinstance(e, dict) and "f" in e]
            if not (QS in of or type_ok(ty) or (not escapes(f, dl, region) and not (1 <= dl <= f.arg_count))):
                return False, Site(f, b, i), "stores into a value of type %s" % ty
            continue
        if not type_ok(ty) and escapes(f, dl, region):
            return False, Site(f, b, i), "defines `%s`: %s, which is used outside the profiling branch" % (f.locals[dl].get("name") or "_%d" % dl, ty)
        if strip_refs(ty) in SCALARS and escapes(f, dl, region) and not scalar_escape_ok(f, dl, region):
            return False, Site(f, b, i), "defines the scalar `%s`: %s, which flows out of the profiling branch into non-profiling code" % (f.locals[dl].get("name") or "_%d" % dl, ty)
    t = blk["term"]
    if t["k"] == "call":
        cal = callee_of(t)
        dty = t.get("dst_ty") or ""
        pure_read = cal.endswith(("::is_some", "::is_none", "::as_ref", "::as_deref", "::as_deref_mut", "::deref", "::len", "::is_empty", "::clone"))
        stats_closure = re.search(r"Fn(Once|Mut)?<Args>>::call(_once|_mut)?$", cal) and t["args"] and "(&mut " + QS in f.local_ty(op_local(t["args"][-1]) or 0)
        if cal.startswith(OK_CALLEE_PREFIX) or cal.startswith(("core::fmt::", "alloc::fmt::", "core::hint::")) or pure_read or stats_closure:
            pass
        elif cal.startswith("searchlite_core::"):
            g = None
            return False, Site(f, b), "calls %s" % cal
        elif not type_ok(dty) and escapes(f, t["dst"]["l"], region):
            return False, Site(f, b), "calls %s whose result (%s) is used outside the profiling branch" % (cal, dty)
        if not t["dst"]["p"] and strip_refs(dty) in SCALARS and escapes(f, t["dst"]["l"], region) and not scalar_escape_ok(f, t["dst"]["l"], region):
            return False, Site(f, b), "defines the scalar `%s`: %s (result of %s), which flows out of the profiling branch into non-profiling code" % (
                f.locals[t["dst"]["l"]].get("name") or "_%d" % t["dst"]["l"], dty, cal)
        # &mut arguments other than profiling state
        for a in t["args"]:
            l = op_local(a)
            if l is not None and f.local_ty(l).startswith("&mut ") and not type_ok(f.local_ty(l)) and not (cal.startswith(OK_CALLEE_PREFIX) or stats_closure or pure_read):
                return False, Site(f, b), "passes %s mutably to %s" % (f.local_ty(l), cal)
    return True, None, None


def r20a(ctx, P):
    rid = "R20.a"
    ctx.rule(rid, "FLOW: (1) SearchRequest.profile / SegmentSearchParams.profile are read only in IndexReader::search, "
                  "search_vector_only and search_segment; (2) every block control-dependent on a test of that flag writes only "
                  "profiling state (QueryStats, Instant/Duration, the timings map, ProfileResult, Option<&mut QueryStats>) and calls "
                  "only timing / map / to_execution_profile functions; (3) QueryStats fields are read only in to_execution_profile — "
                  "elsewhere only `+=`; (4) a test on an Option<&mut QueryStats> controls only QueryStats updates")
    n = 0
    # (1) + (2)
    for p, f in sorted(P.fns.items()):
        if f.crate != "searchlite_core" or is_test_or_bench(f) or is_derived(f):
            continue
        rd = reads_of_field(f, REQ, "profile") + reads_of_field(f, PARAMS, "profile")
        if not rd:
            continue
        ctx.saw(f)
        root = f
        while root.kind == "closure" and root.parent and P.fn(root.parent):
            root = P.fn(root.parent)
        allowed = root.path in ALLOWED_READERS
        n += 1
        ctx.ob(rid, "%s:%s:reads-profile" % (rid, root.short), allowed,
               "%s reads the profile flag (%d site(s))" % (root.short, len(rd)) if allowed else
               "%s reads the profile flag at %s: only the search entry functions may look at it" % (root.short, rd[0][0].loc()), rd[0][0].loc())
        sws, tainted = tainted_switches(f, [dl for (_s, dl) in rd if dl is not None and f.local_ty(dl) == "bool"])
        for sw in sws:
            n += 1
            bad = None
            region = controlled_blocks(f, sw)
            for b in sorted(region):
                ok, site, why = block_effects_ok(f, b, region)
                if not ok:
                    bad = (site, why)
                    break
            ctx.ob(rid, "%s:%s:profile-branch-effects" % (rid, root.short), bad is None,
                   "the branch on `profile` at %s controls only profiling state" % Site(f, sw).loc() if bad is None else
                   "the branch on `profile` at %s controls %s at %s: turning profiling on can change what the search computes"
                   % (Site(f, sw).loc(), bad[1], bad[0].loc()), Site(f, sw).loc())
        # other uses of the flag: only as the `profile` field of SegmentSearchParams
        for (site, dl) in rd:
            if dl is None or dl not in tainted:
                continue
        for l in tainted:
            for b, i, s in f.stmts():
                if s["k"] == "assign" and s["rv"]["k"] == "agg":
                    for nm, o in zip(s["rv"].get("fields", []), s["rv"]["ops"]):
                        if op_local(o) == l and not (s["rv"].get("adt") == PARAMS and nm == "profile"):
                            n += 1
                            ctx.ob(rid, "%s:%s:profile-flows-into:%s" % (rid, root.short, s["rv"].get("adt", "agg").rsplit("::", 1)[-1]), False,
                                   "the profile flag is stored into %s.%s at %s" % (s["rv"].get("adt"), nm, Site(f, b, i).loc()), Site(f, b, i).loc())
            for b, t in f.calls():
                for a in t["args"]:
                    if op_local(a) == l and not op_place(a)["p"]:
                        n += 1
                        ctx.ob(rid, "%s:%s:profile-passed-to:%s" % (rid, root.short, callee_of(t).rsplit("::", 1)[-1]), False,
                               "the profile flag is passed to %s at %s" % (callee_of(t), Site(f, b).loc()), Site(f, b).loc())
    # (3) QueryStats reads
    m = 0
    for p, f in sorted(P.fns.items()):
        if f.crate != "searchlite_core" or is_test_or_bench(f) or any("derive" in mm or "Default" in mm or "Clone" in mm or "Debug" in mm for mm in f.macros):
            continue
        for b, i, s in f.stmts():
            if s["k"] != "assign":
                continue
            rv = s["rv"]
            ops = [rv["a"]] if rv["k"] in ("use", "cast", "unop") else ([rv["a"], rv["b"]] if rv["k"] == "binop" else (rv["ops"] if rv["k"] == "agg" else []))
            for o in ops:
                pl = op_place(o)
                if not pl or not any(isinstance(e, dict) and e.get("of") == QS for e in pl["p"]):
                    continue
                m += 1
                fld = [e["f"] for e in pl["p"] if isinstance(e, dict) and e.get("of") == QS][0]
                ok = p == "searchlite_core::api::reader::to_execution_profile"
                if not ok and rv["k"] == "binop" and rv["op"].startswith("Add"):
                    # result (or result.0) must be stored back into the same field
                    res = s["dst"]["l"]
                    for b2, i2, s2 in f.stmts():
                        if s2["k"] == "assign" and s2["dst"]["p"] and any(isinstance(e, dict) and e.get("of") == QS and e.get("f") == fld for e in s2["dst"]["p"]) \
                                and s2["rv"]["k"] == "use" and op_local(s2["rv"]["a"]) == res:
                            ok = True
                    if s["dst"]["p"] and any(isinstance(e, dict) and e.get("of") == QS and e.get("f") == fld for e in s["dst"]["p"]):
                        ok = True
                ctx.ob(rid, "%s:%s:QueryStats.%s" % (rid, re.sub(r"\{closure#\d+\}", "{closure}", f.short), fld), ok,
                       "QueryStats.%s is only incremented in %s" % (fld, f.short) if ok else
                       "QueryStats.%s is read at %s outside to_execution_profile: a profiling counter can influence the computation"
                       % (fld, Site(f, b, i).loc()), Site(f, b, i).loc())
    ctx.floor(rid + ".stats", m, 10, "reads of QueryStats counters")
    # (4) tests on Option<&mut QueryStats>
    k = 0
    for p, f in sorted(P.fns.items()):
        if f.crate != "searchlite_core" or is_test_or_bench(f):
            continue
        opt_locals = {i for i, l in enumerate(f.locals) if re.search(r"Option<&(?:'\w+ )?mut " + re.escape(QS) + ">", l["ty"])}
        if not opt_locals:
            continue
        sl = Slice(f)
        for b in sorted(f.reachable()):
            t = f.blocks[b]["term"]
            if t["k"] != "switch":
                continue
            l = op_local(t["on"])
            src_locals = set()
            for d in f.defs().get(l, []):
                if d["k"] == "assign" and d["rv"]["k"] == "discr":
                    src_locals |= {d["rv"]["place"]["l"]} | {x[1] for x in sl.sources({"cp": d["rv"]["place"]}) if x[0] in ("arg", "field")}
                    for x in sl.sources({"cp": d["rv"]["place"]}):
                        if x[0] == "call":
                            for a in x[2]["args"]:
                                src_locals |= {y for y in [op_local(a)] if y is not None}
                                src_locals |= {y[1] for y in sl.sources(a) if y[0] in ("arg", "field")}
                elif d["k"] == "call" and callee_of(d["t"]).endswith(("::is_some", "::is_none")):
                    for a in d["t"]["args"]:
                        src_locals |= {y[1] for y in sl.sources(a) if y[0] in ("arg", "field")} | {op_local(a)}
            if not any(re.search(r"Option<&(?:'\w+ )?mut " + re.escape(QS) + ">", f.local_ty(x)) for x in src_locals if x is not None):
                continue
            k += 1
            ctx.saw(f)
            bad = None
            region = controlled_blocks(f, b)
            for cb in sorted(region):
                ok, site, why = block_effects_ok(f, cb, region)
                if not ok:
                    bad = (site, why)
                    break
            ctx.ob(rid, "%s:%s:stats-presence-test" % (rid, re.sub(r"\{closure#\d+\}", "{closure}", f.short)), bad is None,
                   "the test on the optional stats handle at %s controls only counter updates" % Site(f, b).loc() if bad is None else
                   "the test on the optional stats handle at %s controls %s at %s" % (Site(f, b).loc(), bad[1], bad[0].loc()), Site(f, b).loc())
    ctx.floor(rid + ".tests", k, 1, "tests on Option<&mut QueryStats>")
    for p, f in sorted(P.fns.items()):
        if f.crate != "searchlite_core" or is_test_or_bench(f) or f.kind != "closure":
            continue
        if f.arg_count == 2 and strip_refs(f.arg_ty(2)) == QS and f.arg_ty(2).startswith("&mut"):
            bad = None
            region = set(f.reachable())
            for cb in sorted(region):
                ok, site, why = block_effects_ok(f, cb, region)
                if not ok:
                    bad = (site, why)
                    break
            ctx.ob(rid, "%s:%s:stats-closure" % (rid, re.sub(r"\{closure#\d+\}", "{closure}", f.short)), bad is None,
                   "closure over &mut QueryStats only updates counters" if bad is None else
                   "closure over &mut QueryStats %s at %s" % (bad[1], bad[0].loc()), "%s:%s" % (f.file, f.line))
    ctx.floor(rid, n, 3, "profile flag reads / branches")


def r20b(ctx, P):
    rid = "R20.b"
    ctx.rule(rid, "ORDER: in IndexReader::search the statement that copies hit.score into explanation.final_score is dominated by "
                  "every score-mutating call of search (rescore_hits, merge_vector_hits) that can reach it")
    f = P.fn(N.READER + "::search")
    if not ctx.anchor(rid, f, "IndexReader::search"):
        return
    stores = []
    for b, i, s in f.stmts():
        if s["k"] == "assign" and s["dst"]["p"] and any(isinstance(e, dict) and e.get("f") == "final_score" for e in s["dst"]["p"]):
            stores.append(Site(f, b, i))
    aggs = [Site(f, b, i) for b, i, s in f.stmts() if s["k"] == "assign" and s["rv"]["k"] == "agg" and s["rv"].get("adt", "").endswith("HitExplanation")]
    mut = [Site(f, b) for b, t in f.calls() if callee_of(t).endswith(("IndexReader::rescore_hits", "IndexReader::merge_vector_hits"))]
    ctx.floor(rid, len(stores) + len(aggs), 1, "final_score assignments in search")
    for s in stores + aggs:
        late = [m for m in mut if s.b in f.reachable_from(m.b) is False]
        after = [m for m in mut if m.b in f.reachable_from(s.b) and m.key() != s.key() and not f.dominates(m, s)]
        ctx.ob(rid, "%s:search:final-score-after-last-score-change" % rid, not after,
               "final_score is synchronised at %s after the last score-mutating call" % s.loc() if not after else
               "score-mutating call at %s can run after final_score was set at %s" % (after[0].loc(), s.loc()), s.loc())


def r20c(ctx, P):
    rid = "R20.c"
    ctx.rule(rid, "FLOW (explain ranks every live document): the explain path does not use the shared heap; each segment returns its "
                  "ranked documents cut at SegmentSearchParams.rank_limit, and the executor breaks score ties by doc id, not by the "
                  "request's remaining sort keys — so any cut below the segment's live-document count can drop a hit the "
                  "non-explain path returns. Every definition of the rank_limit value that is controlled by the true arm of a test on "
                  "`explain` derives from the segment's live_docs()/doc count and from nothing request-sized (limit, cursor, "
                  "candidate_size)")
    f = P.inlined(N.READER + "::search", depth=1, small=40)      # a small `rank limit for this segment` helper is read in place
    if not ctx.anchor(rid, f, "IndexReader::search"):
        return
    adt = P.adts.get("searchlite_core::api::reader::SegmentSearchParams")
    if not ctx.anchor(rid, adt, "SegmentSearchParams"):
        return
    names = [x[0] for x in adt["variants"][0]["fields"]]
    if not ctx.anchor(rid, "rank_limit" in names, "SegmentSearchParams.rank_limit"):
        return
    idx = names.index("rank_limit")
    sl = Slice(f, through_all_calls=True)
    sl0 = Slice(f)
    defs = f.defs()
    n = 0
    for b, i, st in f.stmts():
        if st["k"] != "assign" or st["rv"]["k"] != "agg" or not (st["rv"].get("adt") or "").endswith("::SegmentSearchParams"):
            continue
        o = st["rv"]["ops"][idx]
        l = op_local(o)
        seen = set()
        while l is not None and l not in seen:
            seen.add(l)
            dfs = [d for d in defs.get(l, []) if not d.get("partial")]
            single_copy = len(dfs) == 1 and dfs[0]["k"] == "assign" and dfs[0]["rv"]["k"] in ("use", "cast") and \
                op_local(dfs[0]["rv"]["a"]) is not None
            # the value handed back by an inlined helper: continue with the helper's own return place
            from_helper = single_copy and dfs[0].get("i") is not None and dfs[0]["i"] < len(f.blocks[dfs[0]["b"]]["stmts"]) and \
                f.blocks[dfs[0]["b"]]["stmts"][dfs[0]["i"]].get("inlined_ret")
            if (f.locals[l].get("name") and not from_helper) or not single_copy:
                break
            l = op_local(dfs[0]["rv"]["a"])
        if l is None:
            continue
        for d in defs.get(l, []):
            # controlled by the true arm of a test on `explain`?
            in_explain = False
            for (a, succ) in f.control_deps_transitive(d["b"]):
                t = f.blocks[a]["term"]
                if t["k"] != "switch" or "explain" not in sl0.fields(t["on"]):
                    continue
                vals = dict(zip(t["values"], t["targets"]))
                true_succ = t["otherwise"] if 0 in vals else vals.get(1)
                if succ == true_succ:
                    in_explain = True
            if not in_explain:
                continue
            n += 1
            if d["k"] == "call":
                flds, cals = set(), {callee_of(d["t"])}
                for a_ in d["t"]["args"]:
                    flds |= sl.fields(a_)
                    cals |= sl.callees(a_)
            else:
                rv = d["rv"]
                ops = [rv["a"]] if rv["k"] in ("use", "cast", "unop") else ([rv["a"], rv["b"]] if rv["k"] == "binop" else rv.get("ops", []))
                flds, cals = set(), set()
                for a_ in ops:
                    if isinstance(a_, dict) and op_local(a_) is not None:
                        flds |= sl.fields(a_)
                        cals |= sl.callees(a_)
            sized = sorted(flds & {"limit", "cursor", "candidate_size"})
            whole = any(c.endswith(("::live_docs", "::doc_count", "::max_doc")) for c in cals) or bool(flds & {"doc_count"})
            ok = whole and not sized
            ctx.ob(rid, "%s:search:explain-rank-limit" % rid, ok,
                   "under explain the per-segment rank limit at %s is the segment's live-document count" % Site(f, d["b"], d.get("i", TERM)).loc() if ok else
                   "under explain the per-segment rank limit defined at %s %s: the executor's cut (ties by doc id) can drop documents the "
                   "final sort would keep, so explain changes hits, order, cursors and totals" % (
                       Site(f, d["b"], d.get("i", TERM)).loc(),
                       ("depends on the request's %s" % ", ".join(sized)) if sized else "is not derived from the segment's live-document count"),
                   Site(f, d["b"], d.get("i", TERM)).loc())
    ctx.floor(rid, n, 1, "definition of the per-segment rank limit under `explain`")


def r20d(ctx, P):
    rid = "R20.d"
    from sa.prog import influence
    ctx.rule(rid, "FLOW (scores do not depend on explain): whether a hit's score is computed at all must not be decided by `explain`. In "
                  "search_segment the choice of ScoreMode (Score vs MatchOnly) and in scan_segment the choice between the evaluated "
                  "score and the default score are controlled by tests that `explain` does not influence (data slice plus controlling "
                  "tests). Otherwise a request sorted by a field only returns score 0 without explain and the BM25 / function score "
                  "with it")
    n = 0
    for name in ("search_segment", "scan_segment"):
        f = P.fn(N.READER + "::" + name)
        if not ctx.anchor(rid, f, "IndexReader::" + name):
            continue
        ctx.saw(f)
        sl = Slice(f)
        expl_params = [i for i in range(1, f.arg_count + 1) if (f.locals[i].get("name") or "") == "explain"]
        sites = []
        for b, i, st in f.stmts():
            if st["k"] != "assign":
                continue
            rv = st["rv"]
            if rv["k"] == "agg" and (rv.get("adt") or "").endswith("ScoreMode"):
                sites.append((b, i, "the choice of ScoreMode::%s" % rv.get("variant")))
            if (f.locals[st["dst"]["l"]].get("name") or "") == "computed_score" and not st["dst"]["p"]:
                sites.append((b, i, "the value of computed_score"))
        for b, t in f.calls():
            if (f.locals[t["dst"]["l"]].get("name") or "") == "computed_score":
                sites.append((b, TERM, "the value of computed_score"))
        bad = []
        for b, i, what in sites:
            n += 1
            for (a, succ) in f.control_deps_transitive(b):
                ta = f.blocks[a]["term"]
                if ta["k"] != "switch" or any("QuestionMark" in m or "ForLoop" in m for m in (ta.get("macros") or [])):
                    continue
                inf = influence(f, ta["on"])
                if "explain" in inf["fields"] or (set(expl_params) & inf["args"]):
                    bad.append((Site(f, b, i), what, Site(f, a)))
        ctx.ob(rid, "%s:%s:score-independent-of-explain" % (rid, name), not bad,
               "whether scores are computed in %s does not depend on explain" % name if not bad else
               "%s at %s is selected by a test on `explain` (%s): hits of a field-sorted request have score 0 without explain and a "
               "computed score with it (repro/C20/field_sort_scores.rs)" % (bad[0][1], bad[0][0].loc(), bad[0][2].loc()),
               bad[0][0].loc() if bad else "%s:%s" % (f.file, f.line))
    ctx.floor(rid, n, 3, "score-mode / computed-score selection sites")


def r20e(ctx, P):
    rid = "R20.e"
    import re
    ctx.rule(rid, "AGREE (the second scoring implementation is a structure-preserving copy of the first): explain and custom scoring "
                  "evaluate the CompiledScoreNode tree, plain searches the planner's ScoreExpr / ScoreNode tree; they give the same "
                  "scores only if compile_score_node maps every node to one node of the same kind. In compile_score_node (and "
                  "compile_functions) the result of a recursive compilation is never inspected (no discriminant read of a "
                  "CompiledScoreNode value) and child lists only grow by `push` of exactly one compiled child per source child — no "
                  "extend / append / flattening / reordering of compiled children")
    n = 0
    for name in ("compile_score_node", "compile_functions"):
        f = P.fn("searchlite_core::api::reader::" + name)
        if f is None:
            continue
        n += 1
        ctx.saw(f)
        bad = []
        for g in [f] + P.closures_of(f):
            for b, i, st in g.stmts():
                if st["k"] == "assign" and st["rv"]["k"] == "discr":
                    pl = st["rv"]["place"]
                    ty = g.local_ty(pl["l"])
                    if "CompiledScoreNode" in ty and "Result<" not in ty and "ControlFlow" not in ty and not ty.startswith("&searchlite_core::query::planner"):
                        # the match on the SOURCE node is on ScoreNode, not CompiledScoreNode
                        bad.append((Site(g, b, i), "inspects a compiled node (match on CompiledScoreNode)"))
            for b, t in g.calls():
                cal = callee_of(t)
                if not t["args"] or op_local(t["args"][0]) is None:
                    continue
                rty = g.local_ty(op_local(t["args"][0]))
                if "CompiledScoreNode" in rty and re.search(r"Vec::<T, A>::(extend|append|insert|splice|extend_from_slice|swap|reverse|sort_by|retain|dedup_by|truncate|remove)$|::extend$", cal):
                    bad.append((Site(g, b), "changes a list of compiled children with `%s`" % cal.rsplit("::", 1)[1]))
        ctx.ob(rid, "%s:%s:structure-preserving" % (rid, name), not bad,
               "%s maps each source node to one compiled node without inspecting or rearranging compiled children" % name if not bad else
               "%s %s at %s: the compiled tree is no longer a copy of the planner's tree, so explain / custom scoring can score a query "
               "differently from the plain search" % (name, bad[0][1], bad[0][0].loc()), bad[0][0].loc() if bad else "%s:%s" % (f.file, f.line))
    ctx.floor(rid, n, 1, "score-tree compilers (compile_score_node)")


THOROUGH_FEATURES = ['r20c', 'r20d', 'r20e']


def run(ctx, progs):
    P = progs.get("default")
    r20a(ctx, P)
    r20b(ctx, P)
    r20c(ctx, P)
    r20d(ctx, P)
    r20e(ctx, P)
    if ctx.tier == "thorough":
        ctx.config = "features"
        Pf = progs.get("features")
        r20a(ctx, Pf)
        r20b(ctx, Pf)
        ctx.config = "default"
    ctx.assumptions += ["Instant::now / Duration arithmetic / BTreeMap<String,f64>::insert have no effect on search state",
                        "non-interference is argued by types: QueryStats values never leave the profiling state (checked), so knowing "
                        "whether they were collected cannot change results"]
