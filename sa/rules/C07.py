"""C07 — query matching follows the documented query semantics (partial: candidate completeness only)."""
from sa import names as N
from sa.prog import Site, Slice, TERM, callee_of, op_local
from sa.rules.common import is_test_or_bench
from sa.rules.C13 import _is_error_exit_test

EXPLANATION = ("Which documents satisfy a query tree is a runtime question and is NOT decided. One clause is structural: a document "
               "can only be returned if it is enumerated as a candidate. In the per-segment search routine the branch that "
               "restricts candidates to the union of the scored terms' posting lists (the top-k executor) instead of scanning the "
               "segment must be chosen by a test that looks at the query matcher (or a plan-level summary of it): restricting "
               "candidates to documents containing a scored term is complete only when every match must contain one, which only "
               "the matcher can tell. A decision that looks at the scored-term list alone is incomplete for some tree (e.g. "
               "bool{must:[match_all], should:[term]}). A second clause is a finite decision table: the default of a bool's "
               "minimum_should_match is extracted from QueryEvaluator::matches_node by path enumeration over is_empty(should/must/"
               "filter) and must be 0 / 1 / 0 (no should; should without must or filter; should with must or filter — the case the "
               "statement spells out), and nothing derived from must_not may influence the threshold.")

SEG = N.READER + "::search_segment"
TERM_LIST_FIELDS = {"qualified_terms", "term_groups", "phrase_fields", "terms"}


def r07a(ctx, P):
    rid = "R07.a"
    ctx.rule(rid, "GUARD/FLOW: in IndexReader::search_segment every call of the postings-driven top-k executor is control-dependent "
                  "(error exits aside) on at least one test whose operand derives from the QueryMatcher (field `matcher` or a call "
                  "on it) or from a plan-level summary other than the scored term / phrase lists")
    f = P.fn(SEG)
    if not ctx.anchor(rid, f, "IndexReader::search_segment"):
        return
    ctx.saw(f)
    sl = Slice(f, through_all_calls=True)
    execs = [b for b, t in f.calls() if callee_of(t).startswith("searchlite_core::query::wand::execute_top_k")]
    scans = [b for b, t in f.calls() if callee_of(t) == N.READER + "::scan_segment"]
    ctx.floor(rid, len(execs), 1, "top-k executor call sites in search_segment")
    ctx.floor(rid + ".scan", len(scans), 1, "scan_segment call site in search_segment (the complete candidate source)")
    decisive = []
    looked_at = set()
    for eb in execs:
        for (a, succ) in f.control_deps_transitive(eb):
            t = f.blocks[a]["term"]
            if t["k"] != "switch" or _is_error_exit_test(f, a) and not any(sb in f.reachable_from(s) for s in f.succ(a) for sb in scans):
                continue
            flds = sl.fields(t["on"])
            looked_at |= {x for x in flds if not x.isdigit()}
            if "matcher" in flds or any(callee_of(x[2]).startswith("searchlite_core::query::planner::QueryMatcher") for x in sl.sources(t["on"]) if x[0] == "call"):
                decisive.append(Site(f, a))
    ok = bool(decisive)
    ctx.ob(rid, "%s:IndexReader::search_segment:candidate-source" % rid, ok,
           "the choice of the postings-driven candidate source consults the query matcher at %s" % decisive[0].loc() if ok else
           "the choice between scanning and the postings-driven executor looks only at %s: candidates are restricted to documents "
           "containing a scored term although optional scored clauses (bool should next to must/filter) do not have to match"
           % sorted(looked_at & TERM_LIST_FIELDS or looked_at), Site(f, execs[0]).loc() if execs else "%s:%s" % (f.file, f.line),
           {"tests_examined_fields": sorted(looked_at)})


MATCHES = "searchlite_core::api::reader::QueryEvaluator::<'a>::matches_node"


def r07b(ctx, P):
    rid = "R07.b"
    from sa import boolpaths
    from sa.prog import influence, op_local
    from sa.rules.C13 import _is_error_exit_test
    ctx.rule(rid, "DECISION TABLE + FLOW for the bool default: in QueryEvaluator::matches_node the default of minimum_should_match (the "
                  "closure given to unwrap_or_else on the Bool matcher's field) is extracted as a decision table over "
                  "is_empty(should/must/filter): 0 without should clauses; 1 when there are should clauses and neither must nor filter "
                  "clauses; 0 (optional) when a must or filter clause exists — the clause the statement spells out. And nothing "
                  "derived from `must_not` influences the threshold or the comparison (data slice incl. closure captures, plus the "
                  "tests controlling the definitions, loop tests and early exits excluded): a bool whose only positive clauses are "
                  "should clauses is their disjunction whatever it excludes")
    f = P.fn(MATCHES)
    if not ctx.anchor(rid, f, "QueryEvaluator::matches_node"):
        return
    ctx.saw(f)
    sl = Slice(f, through_all_calls=True)
    sites = []
    for b, t in f.calls():
        cal = callee_of(t)
        if cal.endswith(("Option::<T>::unwrap_or_else", "Option::<T>::unwrap_or", "Option::<T>::map_or", "Option::<T>::map_or_else")) and \
                "minimum_should_match" in Slice(f).fields(t["args"][0]) and "usize" in t.get("dst_ty", ""):
            sites.append((b, t))
    # only the Bool arm: its site mentions should/must captures
    bool_sites = []
    for b, t in sites:
        clos = [x[3]["closure"] for a in t["args"][1:] for x in sl.sources(a) if x[0] == "agg" and x[3].get("closure")]
        fl = set()
        for a in t["args"][1:]:
            fl |= sl.fields(a)
        if clos or "should" in fl:
            bool_sites.append((b, t, clos))
    if not bool_sites:
        # `match minimum_should_match { Some(n) => *n, None => <default> }`, the default possibly in a private helper
        if _r07b_match_form(ctx, P, rid):
            return
    ctx.floor(rid, len(bool_sites), 1, "default of minimum_should_match in the Bool arm of matches_node")
    for b, t, clos in bool_sites:
        site = Site(f, b)
        # (1) decision table, when the default is a closure over is_empty() of the clause lists only
        decided = None
        detail = ""
        if clos and P.fn(clos[0]) is not None:
            g = P.fn(clos[0])
            ctx.saw(g)

            def atom_of_place(pl):
                fl = [e["f"].replace("upvar:", "").lstrip("*") for e in pl["p"] if isinstance(e, dict) and "f" in e]
                return ("flag", fl[-1]) if fl else None
            ps = boolpaths.paths(g, g.entry if hasattr(g, "entry") else 0, lambda bb: None, atom_of_place, track_return=True)
            atoms = {a for p_ in ps for a in p_.cons}
            known = {("is_empty", "should"), ("is_empty", "must"), ("is_empty", "filter")}
            if atoms <= known and not any(p_.opaque for p_ in ps) and all(p_.ret is not None and p_.ret[0] == "const" for p_ in ps):
                bad = []
                for se in (True, False):
                    for me in (True, False):
                        for fe in (True, False):
                            asg = {("is_empty", "should"): se, ("is_empty", "must"): me, ("is_empty", "filter"): fe}
                            rets = {p_.ret[1] for p_ in ps if all(asg[a] == v for a, v in p_.cons.items())}
                            want = 0 if se else (1 if (me and fe) else 0)
                            if rets != {want}:
                                bad.append("should%s must%s filter%s -> %s (expected %d)" % (
                                    "=[]" if se else "!=[]", "=[]" if me else "!=[]", "=[]" if fe else "!=[]", sorted(rets), want))
                decided = not bad
                detail = "; ".join(bad)
            else:
                detail = "the default depends on %s: table not extracted" % sorted(atoms - known)
        if decided is not None:
            ctx.ob(rid, "%s:matches_node:bool-default-table" % rid, decided,
                   "default minimum_should_match: 0 without should, 1 with should and no must/filter, 0 otherwise (8 rows)" if decided else
                   "default minimum_should_match deviates from the documented bool semantics: %s" % detail, site.loc())
        else:
            ctx.note("R07.b: %s (only the independence from must_not is decided)" % detail)
        # (2) independence from must_not
        def excl(a, f=f):
            t_ = f.blocks[a]["term"]
            return any("ForLoop" in m or "WhileLoop" in m for m in (t_.get("macros") or [])) or _is_error_exit_test(f, a)
        inf = influence(f, {"cp": {"l": t["dst"]["l"], "p": []}}, excl)
        for a in t["args"]:
            more = influence(f, a, excl)
            inf["fields"] |= more["fields"]
        ok = "must_not" not in inf["fields"]
        ctx.ob(rid, "%s:matches_node:bool-default-independent-of-must_not" % rid, ok,
               "the should threshold is influenced by %s only" % sorted(x for x in inf["fields"] if x in ("should", "must", "filter", "minimum_should_match")) if ok else
               "the number of should clauses a document must satisfy depends on `must_not`: a bool with should + must_not clauses no "
               "longer means (any should) AND NOT (must_not)", site.loc())


def _r07b_match_form(ctx, P, rid):
    from sa import boolpaths
    from sa.prog import influence, op_local, op_place
    from sa.rules.C13 import _is_error_exit_test
    f = P.inlined(MATCHES, depth=1, small=40)
    if f is None:
        return False
    sl0 = Slice(f)
    cand = None
    for b in sorted(f.reachable()):
        t = f.blocks[b]["term"]
        if t["k"] != "switch":
            continue
        for x in sl0.sources(t["on"]):
            if x[0] == "discr":
                pl = f.blocks[x[1]]["stmts"][x[2]]["rv"]["place"]
                if "minimum_should_match" in sl0.fields(t["on"]) and "Option<usize>" in f.local_ty(pl["l"]).replace("core::option::", ""):
                    vals = dict(zip(t["values"], t["targets"]))
                    none_b = vals.get(0, t.get("otherwise") if 0 not in vals else None)
                    some_b = vals.get(1, t.get("otherwise") if 1 not in vals else None)
                    if none_b is not None and some_b is not None:
                        cand = (b, t, none_b, some_b)
    if cand is None:
        return False
    b, t, none_b, some_b = cand
    join = f.ipdom().get(b)
    r_none = f.reachable_from(none_b, stop=[join]) if join is not None else set()
    r_some = f.reachable_from(some_b, stop=[join]) if join is not None else set()
    defs = f.defs()
    T = [l for l in range(len(f.locals)) if f.local_ty(l) == "usize" and
         any(d["b"] in r_some and d["b"] != join for d in defs.get(l, [])) and any(d["b"] in r_none and d["b"] != join for d in defs.get(l, []))]
    if len(T) != 1 or join is None:
        return False
    T = T[0]
    site = Site(f, b)
    ctx.saw(f)
    ctx.floor(rid, 1, 1, "default of minimum_should_match in the Bool arm of matches_node")
    env0 = {}
    for l, dd in defs.items():
        if len(dd) == 1 and dd[0]["k"] == "assign" and dd[0]["rv"]["k"] == "ref" and not dd[0]["rv"].get("mut") and not dd[0].get("partial"):
            env0[l] = ("ref", dd[0]["rv"]["place"])

    def atom_of_place(pl):
        fl = [e["f"].replace("upvar:", "").lstrip("*") for e in pl["p"] if isinstance(e, dict) and "f" in e]
        return ("flag", fl[-1]) if fl else None
    ps = boolpaths.paths(f, none_b, lambda bb: "join" if bb == join else None, atom_of_place, track_return=True, env0=env0, track_local=T)
    atoms = {a for p_ in ps for a in p_.cons}
    known = {("is_empty", "should"), ("is_empty", "must"), ("is_empty", "filter")}
    decided, detail = None, ""
    if ps and atoms <= known and not any(p_.opaque for p_ in ps) and all(p_.ret is not None and p_.ret[0] == "const" for p_ in ps):
        bad = []
        for se in (True, False):
            for me in (True, False):
                for fe in (True, False):
                    asg = {("is_empty", "should"): se, ("is_empty", "must"): me, ("is_empty", "filter"): fe}
                    rets = {p_.ret[1] for p_ in ps if all(asg[a] == v for a, v in p_.cons.items())}
                    want = 0 if se else (1 if (me and fe) else 0)
                    if rets != {want}:
                        bad.append("should%s must%s filter%s -> %s (expected %d)" % (
                            "=[]" if se else "!=[]", "=[]" if me else "!=[]", "=[]" if fe else "!=[]", sorted(rets), want))
        decided = not bad
        detail = "; ".join(bad)
    else:
        detail = "the default depends on %s%s: table not extracted" % (sorted(atoms - known, key=str), " (opaque tests)" if any(p_.opaque for p_ in ps) else "")
    if decided is not None:
        ctx.ob(rid, "%s:matches_node:bool-default-table" % rid, decided,
               "default minimum_should_match: 0 without should, 1 with should and no must/filter, 0 otherwise (8 rows)" if decided else
               "default minimum_should_match deviates from the documented bool semantics: %s" % detail, site.loc())
    else:
        ctx.note("R07.b: %s (only the independence from must_not is decided)" % detail)

    tl = Slice(f).locals({"cp": {"l": T, "p": []}}) | {T}

    def excl(a):
        t_ = f.blocks[a]["term"]
        return any("ForLoop" in m or "WhileLoop" in m for m in (t_.get("macros") or [])) or _is_error_exit_test(f, a, not_defining=tl)
    inf = influence(f, {"cp": {"l": T, "p": []}}, excl)
    ok = "must_not" not in inf["fields"]
    ctx.ob(rid, "%s:matches_node:bool-default-independent-of-must_not" % rid, ok,
           "the should threshold is influenced by %s only" % sorted(x for x in inf["fields"] if x in ("should", "must", "filter", "minimum_should_match")) if ok else
           "the number of should clauses a document must satisfy depends on `must_not`: a bool with should + must_not clauses no "
           "longer means (any should) AND NOT (must_not)", site.loc())
    return True


def r07c(ctx, P):
    rid = "R07.c"
    import re
    ctx.rule(rid, "AGREE (one case folding for keyword terms): keyword values are not analysed; their term keys are folded by plain string "
                  "functions on both sides. The set of case-folding functions (to_ascii_lowercase / to_lowercase / to_uppercase / ...) "
                  "called outside the analyzers on the WRITE path (everything under SegmentWriter::write_segment_stream) equals the set "
                  "called on the QUERY-EXPANSION path (expand_term_groups, expand_phrase_fields, completion_inputs and what they reach). "
                  "A side that folds differently stores or looks up some values under a key the other side cannot produce (non-ASCII "
                  "upper case), so an indexed word no longer finds its document")
    FOLD = re.compile(r"::(to_ascii_lowercase|to_lowercase|to_uppercase|to_ascii_uppercase|make_ascii_lowercase|make_ascii_uppercase)$")

    def folds(roots):
        out = {}
        scope = set()
        for r in roots:
            if r in P.fns:
                scope |= {r} | {x for x in P.reach(r) if x in P.fns}
        for q in scope:
            f = P.fns[q]
            if f.crate != "searchlite_core" or is_test_or_bench(f) or "::analysis::" in q:
                continue
            for b, t in f.calls():
                c = callee_of(t)
                if FOLD.search(c):
                    out.setdefault(c.rsplit("::", 1)[1], []).append(Site(f, b))
        return out
    W = folds(["searchlite_core::index::segment::SegmentWriter::<'a>::write_segment_stream"])
    Q = folds(["searchlite_core::api::reader::expand_term_groups", "searchlite_core::api::reader::expand_phrase_fields",
               N.READER + "::completion_inputs"])
    ctx.floor(rid + ".write", sum(len(v) for v in W.values()), 1, "case-folding calls on the write path (keyword term keys)")
    ctx.floor(rid + ".query", sum(len(v) for v in Q.values()), 3, "case-folding calls on the query-expansion path")
    ok = set(W) == set(Q)
    only_q = sorted(set(Q) - set(W))
    only_w = sorted(set(W) - set(Q))
    where = (Q[only_q[0]][0] if only_q else W[only_w[0]][0] if only_w else None)
    ctx.ob(rid, "%s:keyword-case-folding-agrees" % rid, ok,
           "write path and query expansion fold keyword terms with the same function(s): %s" % sorted(W) if ok else
           "keyword terms are folded with %s when written but with %s when a query is expanded (%s): values on which these differ are "
           "indexed under a key no query produces" % (sorted(W), sorted(Q), where.loc() if where else "?"),
           where.loc() if where else None)


THOROUGH_FEATURES = ['r07b', 'r07c']


def run(ctx, progs):
    P = progs.get("default")
    r07a(ctx, P)
    r07b(ctx, P)
    r07c(ctx, P)
    ctx.assumptions += ["everything else in the statement (boolean semantics, analyzers, phrase slop, expansion caps) is runtime and not decided"]
