"""C07 — query matching follows the documented query semantics (partial: candidate completeness only)."""
from sa import names as N
from sa.prog import Site, Slice, TERM, callee_of, op_local
from sa.rules.common import is_test_or_bench
from sa.rules.C13 import _is_error_exit_test

EXPLANATION = ("Which documents satisfy a query tree is a runtime question and is NOT decided. One clause is structural: a document "
               "can only be returned if it is enumerated as a candidate. In the per-segment search routine the branch that "
               "restricts candidates to the union of the scored terms' posting lists (the top-k executor) instead of scanning the "
               "segment must be chosen by a test that looks at the query matcher (or a plan-level summary of it): restricting "
               "candidates to documents containing a scored term is complete only when every match must contain one, which only "
               "the matcher can tell. A decision that looks at the scored-term list alone is incomplete for some tree (e.g. "
               "bool{must:[match_all], should:[term]}).")

SEG = N.READER + "::search_segment"
TERM_LIST_FIELDS = {"qualified_terms", "term_groups", "phrase_fields", "terms"}


def r07a(ctx, P):
    rid = "R07.a"
    ctx.rule(rid, "GUARD/FLOW: in IndexReader::search_segment every call of the postings-driven top-k executor is control-dependent "
                  "(error exits aside) on at least one test whose operand derives from the QueryMatcher (field `matcher` or a call "
                  "on it) or from a plan-level summary other than the scored term / phrase lists")
    f = P.fn(SEG)
    if not ctx.anchor(rid, f, "IndexReader::search_segment"):
        return
    ctx.saw(f)
    sl = Slice(f, through_all_calls=True)
    execs = [b for b, t in f.calls() if callee_of(t).startswith("searchlite_core::query::wand::execute_top_k")]
    scans = [b for b, t in f.calls() if callee_of(t) == N.READER + "::scan_segment"]
    ctx.floor(rid, len(execs), 1, "top-k executor call sites in search_segment")
    ctx.floor(rid + ".scan", len(scans), 1, "scan_segment call site in search_segment (the complete candidate source)")
    decisive = []
    looked_at = set()
    for eb in execs:
        for (a, succ) in f.control_deps_transitive(eb):
            t = f.blocks[a]["term"]
            if t["k"] != "switch" or _is_error_exit_test(f, a) and not any(sb in f.reachable_from(s) for s in f.succ(a) for sb in scans):
                continue
            flds = sl.fields(t["on"])
            looked_at |= {x for x in flds if not x.isdigit()}
            if "matcher" in flds or any(callee_of(x[2]).startswith("searchlite_core::query::planner::QueryMatcher") for x in sl.sources(t["on"]) if x[0] == "call"):
                decisive.append(Site(f, a))
    ok = bool(decisive)
    ctx.ob(rid, "%s:IndexReader::search_segment:candidate-source" % rid, ok,
           "the choice of the postings-driven candidate source consults the query matcher at %s" % decisive[0].loc() if ok else
           "the choice between scanning and the postings-driven executor looks only at %s: candidates are restricted to documents "
           "containing a scored term although optional scored clauses (bool should next to must/filter) do not have to match"
           % sorted(looked_at & TERM_LIST_FIELDS or looked_at), Site(f, execs[0]).loc() if execs else "%s:%s" % (f.file, f.line),
           {"tests_examined_fields": sorted(looked_at)})


def run(ctx, progs):
    P = progs.get("default")
    r07a(ctx, P)
    ctx.assumptions += ["everything else in the statement (boolean semantics, analyzers, phrase slop, expansion caps) is runtime and not decided"]
