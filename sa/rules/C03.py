"""C03 — storage errors leave committed state unchanged or fully applied (partial)."""
from sa import names as N
from sa.prog import (Effect, Site, Slice, TERM, callee_of, must_order, ok_sites, err_sites, return_sites, op_local,
                     op_place, outcome_arms, in_arm, place_fields)
from sa.rules.common import publish_sites, is_test_or_bench, is_queue_receiver
from sa.rules.C01 import find_commit

EXPLANATION = ("Decides, on every path of the commit code: no error return after the in-memory publish; publish only on the "
               "success arm of manifest-store + marker + sync; the error arm never deletes files the on-disk manifest may "
               "still reference; the queue is extended only after the log append succeeded; and every fallible storage call "
               "in the write path has its result propagated, returned, or listed in a reasoned table. Does not decide that "
               "a retry after an error yields the crash-free contents.")

IO_EFFECTS = {"std::io::Write::write_all", "std::io::Write::flush", "std::io::Seek::seek", "std::io::Seek::stream_position",
              "std::io::Write::write", "std::fs::File::sync_all", "std::fs::File::set_len", "std::fs::rename",
              "std::fs::File::create", "std::fs::remove_file", "std::fs::remove_dir_all", "std::fs::create_dir_all"}

# Reasoned table for R03.d: (enclosing fn suffix, callee suffix, disposition) -> reason
# Reasoned table for results that are neither propagated nor returned AND whose failure can still end in a success return.
# Keyed by (module of the enclosing function, callee, disposition): moving code between functions of one file changes no key.
# Sites whose failure arm cannot reach a success return (error paths: rollbacks, cleanups behind `return Err(e)`), and sites in private
# helpers that are only called on such paths, are discharged generically and need no entry.
BEST_EFFORT = {
    ("index", "storage::Storage::remove", "discarded"):
        "cleanup_segments: orphan segment files are harmless; callers run after the manifest no longer references them",
    ("index", "storage::Storage::remove_dir_all", "discarded"):
        "same, vector directory",
    ("api::writer", "index::wal::Wal::truncate", "matched"):
        "after publish the commit is fully applied; a failing log truncation is logged (the log ends in a commit marker, "
        "so nothing is replayed) and success is returned",
    ("api::writer", "index::wal::Wal::sync", "matched"):
        "Drop cannot return an error; failure is reported on stderr",
}


def _module_of(f):
    m = f.file
    for pre in ("searchlite-core/src/", "searchlite-http/src/", "searchlite-cli/src/", "searchlite-ffi/src/"):
        if m.startswith(pre):
            m = m[len(pre):]
    m = m[:-3] if m.endswith(".rs") else m
    if m.endswith("/mod"):
        m = m[:-4]
    return m.replace("/", "::")


def _cannot_reach_success(f, b):
    """No success return of f is reachable from block b (f returns a Result / Option)."""
    oks = ok_sites(f)
    if not oks and not err_sites(f):
        return False
    reach = f.reachable_from(b)
    return not any(o.b in reach for o in oks)


def _error_path_only(P, g, depth=0, seen=None):
    """Every call of g in the workspace sits on a path that cannot reach a success return of its caller (or the caller is itself
    only used that way): g is clean-up code of error paths."""
    seen = seen if seen is not None else set()
    if g.path in seen or depth > 3:
        return False
    seen.add(g.path)
    callers = P.callers().get(g.path, []) if hasattr(P, "callers") else []
    sites = []
    for q, h in P.fns.items():
        if h.crate != g.crate:
            continue
        for b, t in h.calls():
            if callee_of(t) == g.path:
                sites.append((h, b))
    if not sites:
        return False
    for h, b in sites:
        if h.ret_ty.startswith(("core::result::Result<", "core::option::Option<")):
            # the failure arm of the call itself does not matter here: g returns nothing useful; look at where the call sits
            succ = h.blocks[b]["term"].get("target")
            if succ is None or not _cannot_reach_success(h, succ):
                return False
        elif not _error_path_only(P, h, depth + 1, seen):
            return False
    return True


def r03ab(ctx, P):
    commit = find_commit(P)
    if not ctx.anchor("R03.a", commit, "IndexWriter::commit"):
        return None
    ctx.saw(commit)
    ctx.rule("R03.a", "GUARD: no error return (Err / `?` / tail call of a fallible function) is reachable from the in-memory "
                      "publish in commit: once new readers can see the commit the call must return Ok")
    ctx.rule("R03.b", "ORDER: every publish site is dominated by the success arm of the site(s) performing "
                      "Manifest::store(new), Wal::append_commit and Wal::sync")
    pubs = publish_sites(P, commit)
    ctx.floor("R03.a", len(pubs), 1, "publish sites in commit")
    rets = return_sites(commit)
    for ps in pubs:
        reach = commit.reachable_from(ps.b)
        bad = [(s, k) for (s, k) in rets if k in ("err", "tail") and s.b in reach and s.key() != ps.key()
               and (s.b != ps.b or s.i > ps.i)]
        what = ("no error return is reachable after the publish at %s" % ps.loc()) if not bad else \
            ("error return at %s (%s) is reachable after the publish at %s: commit can report failure although it is "
             "fully applied" % (bad[0][0].loc(), _describe(commit, bad[0][0]), ps.loc()))
        ctx.ob("R03.a", "R03.a:%s:post-publish-infallible" % commit.short, not bad, what, ps.loc(),
               {"error_returns_after_publish": [s.loc() for s, _ in bad]})
        # R03.b
        persist = [s for s in P.sites_calling(commit, N.is_(N.WAL_APPEND_COMMIT), include_closure_construction=False)]
        good = False
        det = []
        for s in persist:
            t = commit.blocks[s.b]["term"]
            all3 = all(P.call_reaches(t, N.is_(x)) for x in (N.MAN_STORE, N.WAL_APPEND_COMMIT, N.WAL_SYNC))
            arms = outcome_arms(commit, s)
            det.append({"site": s.loc(), "performs_store_marker_sync": all3, "ok_arm_blocks": arms["ok"]})
            if all3 and in_arm(commit, ps, arms["ok"]):
                good = True
        if not good:
            # inlined shape: three separate sites, each with its success arm dominating the publish
            sites3 = []
            for x in (N.MAN_STORE, N.WAL_APPEND_COMMIT, N.WAL_SYNC):
                cands = [s for s in P.sites_calling(commit, N.is_(x), include_closure_construction=False)
                         if in_arm(commit, ps, outcome_arms(commit, s)["ok"])]
                sites3.append(cands)
            good = all(sites3)
        ctx.ob("R03.b", "R03.b:%s:publish-after-persist" % commit.short, good,
               "publish at %s happens only after store+marker+sync succeeded" % ps.loc() if good else
               "publish at %s is not confined to the success arm of store+marker+sync" % ps.loc(), ps.loc(), {"persist": det})
    return commit


def _describe(fn, site):
    if site.i == TERM:
        t = fn.blocks[site.b]["term"]
        if t["k"] == "call":
            # which fallible call produced the residual?
            sl = Slice(fn)
            cs = [callee_of(x[2]) for x in sl.sources(t["args"][0]) if x[0] == "call"] if t["args"] else []
            cs = [c for c in cs if "try_trait" not in c]
            return "`?` on %s" % (cs[0] if cs else callee_of(t))
    return "Err(..)"


def r03c(ctx, P, commit):
    rid = "R03.c"
    ctx.rule(rid, "GUARD: in commit's error arm the cleanup of newly written segment files is not reachable from the failure "
                  "outcome of the rollback Manifest::store (if the first store failed after its effect and the rollback fails "
                  "too, the on-disk manifest still names the new segment)")
    cleanups = [Site(commit, b) for b, t in commit.calls() if callee_of(t) == N.CLEANUP]
    pubs = publish_sites(P, commit)
    marker = [s for s in P.sites_calling(commit, N.is_(N.WAL_APPEND_COMMIT), include_closure_construction=False)]
    all_stores = P.sites_calling(commit, N.is_(N.MAN_STORE), include_closure_construction=False)
    # the persist step: the site(s) that make the new manifest and the commit marker durable — the call reaching the marker, and,
    # when the step is written out in this function, the store of the new manifest (it dominates the in-memory publish) and the
    # marker sync behind it
    new_stores = [s for s in all_stores if pubs and all(commit.dominates(s, p) for p in pubs)]
    syncs = [s for s in P.sites_calling(commit, N.is_(N.WAL_SYNC), include_closure_construction=False)
             if any(commit.dominates(m, s) for m in marker) and pubs and all(commit.dominates(s, p) for p in pubs)]
    persist = list({s.key(): s for s in marker + new_stores + syncs}.values())
    stores = [s for s in all_stores if not any(s.key() == p.key() for p in persist)]
    # rollback stores = stores reachable only after the persist site failed
    ctx.floor(rid, len(cleanups), 1, "cleanup_segments sites in commit")
    ctx.floor(rid + ".rollback-store", len(stores), 1, "rollback Manifest::store sites in commit")
    # positive form: from the failure arm of the persist step, the cleanup is reachable only through the SUCCESS arm of a
    # rollback Manifest::store (boolean flags are followed); skipping the rollback store must also skip the cleanup
    persist_err = []
    for ps in persist:
        persist_err += outcome_arms(commit, ps)["err"]
    ok_arms = []
    err_arms = []
    ok_edges = set()
    err_edges = set()
    for st in stores:
        arms = outcome_arms(commit, st)
        ok_arms += arms["ok"]
        err_arms += arms["err"]
        # the same outcome may be tested more than once (`if let Err(e) = &r {log}` ... `if r.is_ok() && ..`): a path that took the
        # failure edge of one test cannot take the success edge of another
        ok_edges |= set(arms["ok_edges"])
        err_edges |= set(arms["err_edges"])
    for c in cleanups:
        if not persist_err or not (ok_arms or ok_edges):
            ctx.ob(rid, "%s:%s:cleanup-vs-rollback-store" % (rid, commit.short), False,
                   "cannot identify the failure arm of the persist step / the success arm of the rollback store", c.loc())
            continue
        bypass = any(c.b in commit.reachable_flag_sensitive(pe, avoid=set(ok_arms), avoid_edges=ok_edges) for pe in persist_err)
        from_err = any(c.b in commit.reachable_flag_sensitive(tgt, avoid_edges=ok_edges) for (_, tgt) in err_edges)
        ok = not bypass and not from_err
        ctx.ob(rid, "%s:%s:cleanup-vs-rollback-store" % (rid, commit.short), ok,
               "cleanup at %s runs only after a rollback Manifest::store succeeded" % c.loc() if ok else
               ("cleanup at %s is reachable when the rollback Manifest::store failed: new segment files are deleted while the on-disk "
                "manifest may still reference them" % c.loc() if from_err else
                "cleanup at %s is reachable from the failed persist step without a successful rollback Manifest::store: if the first "
                "store failed after its effect, the on-disk manifest names the new segment whose files are then deleted" % c.loc()), c.loc())


def r03e(ctx, P):
    rid = "R03.e"
    ctx.rule(rid, "ORDER: every site in the crate that extends the in-memory queue (`pending_ops`) lies on the success arm of a log "
                  "append in the same function (an Err return queues nothing, so a retry cannot duplicate)")
    apps_by_fn = {}
    sites = []
    APPENDS = (N.WAL + "::append_add_doc", N.WAL + "::append_delete_doc_id")
    for q in sorted(P.fns):
        f = P.fns[q]
        if f.crate != "searchlite_core" or is_test_or_bench(f):
            continue
        sl = None
        for b, t in f.calls():
            cal = callee_of(t)
            if not t["args"] or not (cal.endswith(("Vec::<T, A>::push", "::extend", "::extend_from_slice", "::insert", "::append"))):
                continue
            sl = sl or Slice(f)
            if is_queue_receiver(f, sl, t["args"][0]):
                sites.append((f, Site(f, b)))
    ctx.floor(rid, len(sites), 2, "sites extending the pending-operations queue (at least one add path and one delete path)")
    for f, p in sites:
        ctx.saw(f)
        apps = [Site(f, b) for b, t in f.calls() if callee_of(t) in APPENDS]
        good = any(in_arm(f, p, outcome_arms(f, a)["ok"]) for a in apps)
        ctx.ob(rid, "%s:%s:push-after-append" % (rid, f.short), good,
               "queue push at %s only after the log append succeeded" % p.loc() if good else
               "queue push at %s is not confined to the success arm of a log append in %s" % (p.loc(), f.short), p.loc())


def disposition(fn, b, t, depth=0):
    """How is the Result produced by call (b,t) consumed?  propagated | returned | matched | discarded | passed:<callee>
    | stored"""
    dl = t["dst"]["l"]
    if t["dst"]["p"]:
        return "stored"
    if dl == 0:
        return "returned"
    uses = []
    for b2 in fn.reachable():
        blk = fn.blocks[b2]
        for i, s in enumerate(blk["stmts"]):
            if s["k"] != "assign":
                continue
            rv = s["rv"]
            if rv["k"] == "discr" and rv["place"]["l"] == dl:
                uses.append(("matched", None))
            elif rv["k"] == "use" and op_local(rv["a"]) == dl:
                if s["dst"]["l"] == 0 and not s["dst"]["p"]:
                    uses.append(("returned", None))
                else:
                    uses.append(("moved", s["dst"]["l"]))
            elif rv["k"] == "ref" and rv["place"]["l"] == dl:
                uses.append(("ref", s["dst"]["l"]))
            elif rv["k"] == "agg" and any(op_local(o) == dl for o in rv["ops"]):
                # wrapped into Some(..)/tuple that is the function's result: forwarded to the caller
                if s["dst"]["l"] == 0:
                    uses.append(("returned", None))
                else:
                    uses.append(("stored", None))
        tt = blk["term"]
        if tt["k"] == "call":
            for a in tt["args"]:
                if op_local(a) == dl and not op_place(a)["p"]:
                    uses.append(("call", (b2, tt)))
    if not uses:
        return "discarded"
    kinds = []
    for k, x in uses:
        if k == "matched":
            kinds.append("matched")
        elif k == "returned":
            kinds.append("returned")
        elif k == "stored":
            kinds.append("stored")
        elif k == "call":
            b2, tt = x
            cal = callee_of(tt)
            if cal.endswith("Try>::branch"):
                kinds.append("propagated")
            elif tt["dst_ty"].startswith("core::result::Result<") and depth < 4:
                kinds.append(disposition(fn, b2, tt, depth + 1))
            elif cal.endswith(("::is_ok", "::is_err")):
                kinds.append("matched")
            elif cal.endswith(("::unwrap", "::expect", "::unwrap_or_default")) and False:
                kinds.append("unwrapped")
            elif cal.endswith(("::ok", "::unwrap_or", "::unwrap_or_default", "::unwrap_or_else", "::err")) or cal == "core::mem::drop":
                kinds.append("discarded")
            else:
                kinds.append("passed:" + cal)
        elif k in ("moved", "ref"):
            # follow one level: a moved result that is then `?`-ed / matched
            l2 = x
            for b3 in fn.reachable():
                t3 = fn.blocks[b3]["term"]
                if t3["k"] == "call" and any(op_local(a) == l2 for a in t3["args"]):
                    cal = callee_of(t3)
                    if cal.endswith("Try>::branch"):
                        kinds.append("propagated")
                    elif cal.endswith(("::is_ok", "::is_err")):
                        kinds.append("matched")
                    elif cal.endswith(("::ok", "::unwrap_or", "::unwrap_or_default", "::unwrap_or_else")):
                        kinds.append("discarded")
                for i, s in enumerate(fn.blocks[b3]["stmts"]):
                    if s["k"] == "assign" and s["rv"]["k"] == "discr" and s["rv"]["place"]["l"] == l2:
                        kinds.append("matched")
                    if s["k"] == "assign" and s["dst"]["l"] == 0 and s["rv"]["k"] == "use" and op_local(s["rv"]["a"]) == l2:
                        kinds.append("returned")
    for pref in ("discarded", "matched", "stored", "propagated", "returned"):
        if pref in kinds:
            # most suspicious first
            return pref
    return kinds[0] if kinds else "discarded"


def write_path_fns(P):
    """Functions reachable from the write entry points (the writer's methods and Drop, compaction, index creation/open)."""
    entries = [p for p, f in P.fns.items()
               if (f.impl_self == N.W and f.kind == "assoc_fn")
               or p in (N.INDEX + "::compact", N.INDEX + "::create_with_storage", N.INDEX + "::open_with_storage",
                        N.INDEX + "::create", N.INDEX + "::open", N.INDEX + "::writer")]
    out = set(entries)
    for e in entries:
        out |= {q for q in P.reach(e) if q in P.fns}
    return entries, out


def r03d(ctx, P):
    rid = "R03.d"
    ctx.rule(rid, "FLOW: every call in the write path (writer, index, wal, segment, terms, fastfields, manifest, docstore, "
                  "postings, storage) that returns a Result and performs a storage/IO effect has its result propagated with `?`, "
                  "returned, handled on a path that cannot end in a success return (generic discharge), or is one of the enumerated best-effort sites "
                  "(keyed by module + callee + disposition, so moving code between functions of a file changes no key)")
    pred = N.is_storage_or_io
    n = 0
    seen_table = set()
    entries, wp = write_path_fns(P)
    ctx.floor(rid + ".entries", len(entries), 9, "write entry points")
    for p in sorted(wp):
        f = P.fns[p]
        if is_test_or_bench(f) or f.crate != "searchlite_core":
            continue
        counted = False
        for b, t in f.calls():
            if not t["dst_ty"].startswith("core::result::Result<"):
                continue
            cal = callee_of(t)
            if "try_trait" in cal or cal.startswith("anyhow::") or "::map_err" in cal or "::with_context" in cal:
                continue
            if not P.call_reaches(t, pred):
                continue
            if not counted:
                ctx.saw(f)
                counted = True
            n += 1
            d = disposition(f, b, t)
            site = Site(f, b)
            if d in ("propagated", "returned"):
                ctx.ob(rid, "%s:%s:%s:%s" % (rid, _module_of(f), _short(cal), d), True,
                       "result of %s is %s" % (_short(cal), d), site.loc())
                continue
            root = f
            while root.kind == "closure" and root.parent and P.fn(root.parent):
                root = P.fn(root.parent)
            # generic discharge: the failure of this call cannot end in a success return
            generic = None
            if d == "matched":
                arms = outcome_arms(f, site)
                if arms["err"] and f.ret_ty.startswith("core::result::Result<") and all(_cannot_reach_success(f, e) for e in arms["err"]):
                    generic = "matched, and the failure arm cannot reach a success return: the error (or the one being handled) is returned"
            if generic is None and f.ret_ty.startswith("core::result::Result<") and _cannot_reach_success(f, b):
                generic = "the call sits on a path that returns an error: best-effort handling while another error is reported"
            if generic is None and not f.ret_ty.startswith("core::result::Result<") and f.kind != "closure" and _error_path_only(P, f):
                generic = "%s is only called on paths that return an error: best-effort handling while that error is reported" % f.short
            if generic is not None:
                ctx.ob(rid, "%s:%s:%s:%s" % (rid, _module_of(root), _short(cal), d), True,
                       "result of %s is %s (%s)" % (_short(cal), d, generic), site.loc())
                continue
            tkey = (_module_of(root), _short(cal), d)
            reason = BEST_EFFORT.get(tkey)
            seen_table.add(tkey)
            ctx.ob(rid, "%s:%s:%s:%s" % (rid, _module_of(root), _short(cal), d), reason is not None,
                   "result of %s is %s (listed: %s)" % (_short(cal), d, reason) if reason else
                   "result of the storage call %s is %s in %s and is not in the reasoned table: a storage error may be dropped"
                   % (_short(cal), d, f.short), site.loc())
    ctx.floor(rid, n, 60, "fallible storage/IO call sites in the write path")


def _short(c):
    import re
    from sa.prog import short_path
    return re.sub(r"\{closure#\d+\}", "{closure}", short_path(c))


HANDLE_STATE = ("live_docs", "live_generation")


def r03f(ctx, P):
    rid = "R03.f"
    ctx.rule(rid, "UNCHANGED ON ERROR (the handle's own state): a commit that returns an error must leave the writer handle as it was, "
                  "because the caller retries on the same handle and the cached live-document map is trusted while the generation "
                  "matches (C05 R05.b). In IndexWriter::commit no site that writes `live_docs` / `live_generation` of self (a store "
                  "to the field, or a `&mut` borrow of it handed to a call such as mem::take) and no site that empties the queue "
                  "(`pending_ops.clear/truncate/drain`) can reach an error return")
    f = P.inlined(N.W + "::commit")
    if not ctx.anchor(rid, f, "IndexWriter::commit"):
        return
    errs = err_sites(f)
    ctx.floor(rid + ".errs", len(errs), 3, "error returns of commit")
    sites = []
    for b, i, st in f.stmts():
        if st["k"] != "assign":
            continue
        d = st["dst"]
        fl = place_fields(d)
        if d["l"] == 1 and fl and fl[0] in HANDLE_STATE:
            sites.append((Site(f, b, i), "store to self.%s" % fl[0]))
        rv = st["rv"]
        if rv["k"] == "ref" and rv.get("mut") and rv["place"]["l"] == 1:
            fl = place_fields(rv["place"])
            if fl and fl[0] in HANDLE_STATE:
                # where does the borrow go?
                tgt = st["dst"]["l"]
                for b2, t2 in f.calls():
                    if any(op_local(a) == tgt for a in t2["args"]):
                        sites.append((Site(f, b2), "&mut self.%s handed to %s" % (fl[0], callee_of(t2).rsplit("::", 1)[1])))
    sl = Slice(f)
    for b, t in f.calls():
        cal = callee_of(t)
        if cal.endswith(("Vec::<T, A>::clear", "Vec::<T, A>::truncate", "Vec::<T, A>::drain", "mem::take", "mem::replace")) and t["args"] and \
                "pending_ops" in sl.fields(t["args"][0]):
            sites.append((Site(f, b), "pending_ops.%s" % cal.rsplit("::", 1)[1]))
    ctx.floor(rid, len(sites), 3, "writes of the handle state in commit (queue clear, live_docs, live_generation)")
    for site, what in sites:
        reach = f.reachable_from(site.b)
        bad = [e for e in errs if e.b in reach and e.b != site.b]
        ctx.ob(rid, "%s:commit:%s" % (rid, what.replace(" ", "")), not bad,
               "%s at %s happens only on the way to success" % (what, site.loc()) if not bad else
               "%s at %s can be followed by the error return at %s: a failed commit leaves the handle with a changed cache / queue, and "
               "the retry on the same handle trusts it" % (what, site.loc(), bad[0].loc()), site.loc())


THOROUGH_FEATURES = ['r03e', 'r03f']


def r03g(ctx, P):
    rid = "R03.g"
    ctx.rule(rid, "UNDO DOES NOT TRUST A CACHED LENGTH: after a failed log write nothing is known about the file's length (the bytes may "
                  "be there although the call returned an error). Wal::truncate_to / Wal::truncate, which every error path uses to cut "
                  "the log back, therefore reach StorageFile::set_len on every path to a success return — no early `nothing to do` "
                  "return decided from state the handle keeps about its own length")
    from sa.prog import site_must_perform
    n = 0
    for q in (N.WAL_TRUNCATE_TO, N.WAL_TRUNCATE):
        f = P.inlined(q, depth=1) if P.fn(q) is not None else None
        if not ctx.anchor(rid, f, q.rsplit("::", 2)[-2] + "::" + q.rsplit("::", 1)[-1]):
            continue
        ctx.saw(f)
        n += 1
        cuts = [Site(f, b) for b, t in f.calls() if callee_of(t) == N.F_SET_LEN or
                (callee_of(t) in (N.WAL_TRUNCATE_TO,) and callee_of(t) != q)]
        oks = ok_sites(f)
        # a tail `self.file.sync_all()` returns the callee's Result: treat every return as a success return then
        rets = oks or [Site(f, rb) for rb in f.reachable() if f.blocks[rb]["term"]["k"] == "return"]
        rets = [Site(f, rb) for rb in f.reachable() if f.blocks[rb]["term"]["k"] == "return"]
        from sa.prog import err_sites
        errs = {e.b for e in err_sites(f)}
        bad = []
        for r in rets:
            # every path to the return passes a cut, unless it is an error return
            seen_, st_ = set(), [0]
            cut_blocks = {c.b for c in cuts}
            reach_wo = set()
            while st_:
                x = st_.pop()
                if x in seen_ or x in cut_blocks:
                    continue
                seen_.add(x)
                st_.extend(f.succ(x))
            if r.b in seen_:
                # reachable without a cut: only acceptable through an error origin (`?` on an earlier failing call)
                from sa.rules.C15 import error_origins
                eo = {e.b for e in error_origins(f)}
                via_q = any(any("QuestionMark" in m for m in (f.blocks[x]["term"].get("macros") or [])) for x in seen_)
                # recompute without `?` failure arms
                seen2, st2 = set(), [0]
                while st2:
                    x = st2.pop()
                    if x in seen2 or x in cut_blocks:
                        continue
                    seen2.add(x)
                    tx = f.blocks[x]["term"]
                    if tx["k"] == "switch" and any("QuestionMark" in m for m in (tx.get("macros") or [])):
                        vals = dict(zip(tx["values"], tx["targets"]))
                        st2.append(vals.get(0))
                        continue
                    st2.extend(y for y in f.succ(x) if y is not None)
                if r.b in seen2 and not (eo & seen2):
                    bad.append(r)
        ctx.ob(rid, "%s:%s:always-cuts" % (rid, q.rsplit("::", 1)[-1]), bool(cuts) and not bad,
               "%s reaches set_len on every path to a success return" % q.rsplit("::", 1)[-1] if cuts and not bad else
               "%s can return without calling set_len: an error path that asks for the log to be cut back to its previous length is "
               "answered `nothing to do` from cached state, and the records of the failed operation stay in the log" % q.rsplit("::", 1)[-1],
               "%s:%s" % (f.file, f.line))
    ctx.floor(rid, n, 2, "log-cutting entry points (truncate_to, truncate)")


def run(ctx, progs):
    P = progs.get("default")
    r03g(ctx, P)
    commit = r03ab(ctx, P)
    if commit is not None:
        r03c(ctx, P, commit)
    r03e(ctx, P)
    r03f(ctx, P)
    r03d(ctx, P)
    if ctx.tier == "thorough":
        ctx.config = "features"
        Pf = progs.get("features")
        c2 = r03ab(ctx, Pf)
        if c2 is not None:
            r03c(ctx, Pf, c2)
        r03d(ctx, Pf)
        ctx.config = "default"
    ctx.assumptions += ["a storage failure surfaces as an Err from a Storage/StorageFile/io call (no silent short writes)",
                        "R01.d (C01) doubles as the compaction clause 'manifest stored before old files are removed'"]
