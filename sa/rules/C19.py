"""C19 — rescoring only affects the rescore window (partial: window containment, sort range, score-mode table)."""
import re
from sa import names as N
from sa.prog import Site, Slice, TERM, callee_of, op_local, op_place, op_const, place_fields
from sa.rules.common import is_test_or_bench

EXPLANATION = ("The scores a rescore query produces and the resulting order are runtime results and are NOT decided. Three clauses of the "
               "statement are visible in the shape of IndexReader::rescore_hits: (a) only hits of the window are touched — every index "
               "used to modify or remove an element of the hit list derives from the enumeration of `hits.iter().take(window)` with "
               "window bounded by RescoreRequest.window_size (values are followed INTO and out of the per-segment work lists); "
               "(b) only the rescored hits are re-sorted — the upper bound of the re-sorted slice derives from that same window "
               "bound, is reduced by the number of dropped hits whenever hits can be removed before the sort, and does not use a "
               "length of the hit list taken after a removal (a range recomputed on the shortened list lets hits from behind the "
               "window slide in); (c) the score-mode table: Total and Sum add, Multiply multiplies, Max / Min take the maximum / "
               "minimum of (original, rescore).")

RESCORE = N.READER + "::rescore_hits"


def _hits_param(f):
    for i in range(1, f.arg_count + 1):
        if (f.locals[i].get("name") or "") == "hits" and "Vec<" in f.arg_ty(i):
            return i
    return None


def r19a(ctx, P):
    rid = "R19.a"
    ctx.rule(rid, "FLOW (window containment): in rescore_hits every index handed to Vec::get_mut / Vec::remove / IndexMut on the hit "
                  "list derives from `Iterator::enumerate` over `Iterator::take(.., window)` of that list, where `window` derives from "
                  "RescoreRequest.window_size; no other access modifies the list (whole-list sorts, retain, truncate, swap, ...)")
    f = P.inlined(RESCORE, depth=1)        # grouping / removal helpers of the file are read in place
    if not ctx.anchor(rid, f, "IndexReader::rescore_hits"):
        return None
    ctx.saw(f)
    hp = _hits_param(f)
    if not ctx.anchor(rid, hp, "`hits: &mut Vec<RankedHit>` parameter"):
        return None
    slc = Slice(f, through_all_calls=True, into_containers=True)
    sl0 = Slice(f)

    def on_hits(o):
        return hp in sl0.args(o) and not sl0.fields(o)
    n = 0
    for b, t in f.calls():
        cal = callee_of(t)
        if not t["args"] or not on_hits(t["args"][0]):
            continue
        tail = cal.rsplit("::", 1)[1]
        if tail in ("get_mut", "remove", "swap_remove", "index_mut") and len(t["args"]) >= 2:
            # a range index is the sort range: R19.b
            if any(x[0] == "agg" and "ops::range::" in (x[3].get("adt") or "") for x in sl0.sources(t["args"][1])):
                continue
            n += 1
            srcs = slc.sources(t["args"][1])
            takes = [x[2] for x in srcs if x[0] == "call" and callee_of(x[2]).endswith("Iterator::take")]
            enum = any(x[0] == "call" and callee_of(x[2]).endswith("Iterator::enumerate") for x in srcs)
            bounded = any("window_size" in slc.fields(tk["args"][1]) for tk in takes)
            # `hits[..window].iter().enumerate()`: the enumerated slice is cut by a range whose end derives from the window
            for x in srcs:
                if x[0] == "agg" and (x[3].get("adt") or "").endswith(("ops::range::RangeTo", "ops::range::Range")):
                    end = x[3]["ops"][-1]
                    start_ok = x[3]["adt"].endswith("RangeTo") or (op_const(x[3]["ops"][0]) or {}).get("int") == 0
                    if start_ok and "window_size" in slc.fields(end):
                        bounded = True
            ok = enum and bounded
            ctx.ob(rid, "%s:rescore_hits:%s-index-inside-window" % (rid, tail), ok,
                   "%s at %s uses an index enumerated from the first `window` hits" % (tail, Site(f, b).loc()) if ok else
                   "%s at %s uses an index that is not an enumeration of hits.iter().take(window): a hit outside the rescore window "
                   "can be modified or dropped" % (tail, Site(f, b).loc()), Site(f, b).loc())
        elif tail in ("retain", "retain_mut", "truncate", "clear", "drain", "swap", "reverse", "sort", "sort_by", "sort_by_key",
                      "sort_unstable", "sort_unstable_by", "dedup", "insert", "push", "pop", "split_off", "iter_mut", "as_mut_slice",
                      "rotate_left", "rotate_right") and ("Vec" in cal or "slice" in cal):
            ctx.ob(rid, "%s:rescore_hits:%s-on-whole-list" % (rid, tail), False,
                   "%s is applied to the whole hit list at %s: hits behind the rescore window can change" % (tail, Site(f, b).loc()),
                   Site(f, b).loc())
    ctx.floor(rid, n, 2, "indexed modifications of the hit list (get_mut, remove)")
    return f


def r19b(ctx, P):
    rid = "R19.b"
    ctx.rule(rid, "FLOW (sort range): the slice of the hit list that rescore_hits re-sorts is `hits[..end]`; `end` derives from the same "
                  "window bound (window_size), and when an element of the list can be removed before the sort, `end` is reduced by the "
                  "number of removed elements (a subtraction fed by the length of the removal list) and does not depend on a "
                  "`hits.len()` evaluated after a removal")
    f = P.inlined(RESCORE, depth=1)
    if f is None:
        return
    hp = _hits_param(f)
    if hp is None:
        return
    sl = Slice(f, through_all_calls=True)
    sl0 = Slice(f)
    removes = [b for b, t in f.calls() if callee_of(t).endswith(("Vec::<T, A>::remove", "Vec::<T, A>::swap_remove")) and
               t["args"] and hp in sl0.args(t["args"][0])]
    sorts = []
    for b, t in f.calls():
        cal = callee_of(t)
        if re.search(r"::(sort|sort_by|sort_by_key|sort_unstable|sort_unstable_by|sort_unstable_by_key|sort_by_cached_key)$", cal) and t["args"]:
            # receiver: hits[..end]
            for x in sl.sources(t["args"][0]):
                if x[0] == "call" and callee_of(x[2]).endswith(("index_mut", "get_mut")) and hp in sl0.args(x[2]["args"][0]):
                    for y in sl0.sources(x[2]["args"][1]):
                        if y[0] == "agg" and "ops::range::RangeTo" in (y[3].get("adt") or "") and "Inclusive" not in y[3]["adt"]:
                            sorts.append((b, t, y[3]["ops"][0]))
    ctx.floor(rid, len(sorts), 1, "re-sort of a prefix of the hit list")
    for b, t, end in sorts:
        srcs = sl.sources(end)
        from_window = "window_size" in sl.fields(end)
        late_len = []
        for x in srcs:
            if x[0] == "call" and callee_of(x[2]).endswith("::len") and x[2]["args"] and hp in sl0.args(x[2]["args"][0]):
                if any(x[1] in f.reachable_from(rb) for rb in removes):
                    late_len.append(Site(f, x[1]))
        can_remove_before = any(b in f.reachable_from(rb) for rb in removes)
        reduced = True
        if can_remove_before:
            subs = [x for x in srcs if (x[0] == "binop" and x[1] in ("Sub", "SubWithOverflow")) or
                    (x[0] == "call" and callee_of(x[2]).endswith(("::saturating_sub", "::checked_sub", "::wrapping_sub")))]
            lens = [x for x in srcs if x[0] == "call" and callee_of(x[2]).endswith("::len") and x[2]["args"] and
                    hp not in sl0.args(x[2]["args"][0]) and "usize" in f.local_ty(op_local(x[2]["args"][0]) or 0)]
            reduced = bool(subs) and bool(lens)
        ok = from_window and not late_len and reduced
        why = []
        if not from_window:
            why.append("the range does not derive from the rescore window (window_size)")
        if late_len:
            why.append("the range uses hits.len() evaluated at %s, after hits may have been removed" % late_len[0].loc())
        if not reduced:
            why.append("hits can be removed before the sort but the range is not reduced by their number")
        ctx.ob(rid, "%s:rescore_hits:sort-range" % rid, ok,
               "the re-sorted prefix is the rescoring window minus the dropped hits" if ok else
               "the re-sorted prefix at %s can include hits that were not rescored: %s" % (Site(f, b).loc(), "; ".join(why)), Site(f, b).loc())


def r19c(ctx, P):
    rid = "R19.c"
    ctx.rule(rid, "TABLE (score modes): combine_rescore_scores switches on RescoreMode and returns, per arm: Total / Sum -> original + "
                  "rescore, Multiply -> original * rescore, Max -> max(original, rescore), Min -> min(original, rescore); rescore_hits "
                  "calls it with (request mode, the hit's score before rescoring, the rescore query's score)")
    f = P.fn("searchlite_core::api::reader::combine_rescore_scores")
    adt = P.adts.get("searchlite_core::api::types::RescoreMode")
    if not (ctx.anchor(rid, f, "combine_rescore_scores") and ctx.anchor(rid, adt, "RescoreMode")):
        return
    ctx.saw(f)
    vs = [v["name"] for v in adt["variants"]]
    WANT = {"Total": "Add", "Sum": "Add", "Multiply": "Mul", "Max": "max", "Min": "min"}
    unknown = [v for v in vs if v not in WANT]
    ctx.ob(rid, "%s:modes-covered" % rid, not unknown, "every RescoreMode variant has a documented combination" if not unknown else
           "RescoreMode has variant(s) %s without an entry in the checker's table" % unknown, "%s:%s" % (f.file, f.line))
    sw = None
    for b in sorted(f.reachable()):
        t = f.blocks[b]["term"]
        if t["k"] == "switch":
            for d in f.defs().get(op_local(t["on"]), []):
                if d["k"] == "assign" and d["rv"]["k"] == "discr" and d["rv"]["place"]["l"] == 1:
                    sw = (b, t)
    if not ctx.anchor(rid, sw, "match on the mode in combine_rescore_scores"):
        return
    b, t = sw
    got = {}
    for v, tg in zip(t["values"], t["targets"]):
        ops = set()
        region = f.dominated_region(tg) | {tg}
        # arms that share code (Total | Sum) jump to a common block: follow gotos out of the empty arm
        x = tg
        seen = set()
        while x is not None and x not in seen and not f.blocks[x]["stmts"] and f.blocks[x]["term"]["k"] == "goto":
            seen.add(x)
            x = f.blocks[x]["term"]["target"]
            region.add(x)
        for rb in region:
            for s_ in f.blocks[rb]["stmts"]:
                if s_["k"] == "assign" and s_["dst"]["l"] == 0 and s_["rv"]["k"] == "binop":
                    a, c = op_local(s_["rv"]["a"]), op_local(s_["rv"]["b"])
                    ops.add((s_["rv"]["op"].replace("WithOverflow", ""), frozenset(_param_roots(f, [a, c]))))
            tt = f.blocks[rb]["term"]
            if tt["k"] == "call" and tt["dst"]["l"] == 0:
                ops.add((callee_of(tt).rsplit("::", 1)[1], frozenset(_param_roots(f, [op_local(a_) for a_ in tt["args"]]))))
        got[vs[v]] = ops
    bad = []
    for name, want in WANT.items():
        if name not in got:
            continue
        if got[name] != {(want, frozenset({2, 3}))}:
            bad.append("%s -> %s (expected %s of (original, rescore))" % (name, sorted((o, sorted(p)) for o, p in got[name]), want))
    ctx.ob(rid, "%s:combine_rescore_scores:table" % rid, not bad,
           "Total/Sum add, Multiply multiplies, Max/Min take the maximum/minimum of (original, rescore)" if not bad else
           "combine_rescore_scores deviates from the documented modes: %s" % "; ".join(bad), Site(f, b).loc())
    # the call site
    g = P.inlined(RESCORE, depth=1)
    if g is not None:
        sl = Slice(g, through_all_calls=True)
        sl0 = Slice(g)
        for cb, ct in g.calls():
            if callee_of(ct) != "searchlite_core::api::reader::combine_rescore_scores":
                continue
            m_ok = "score_mode" in sl0.fields(ct["args"][0])
            # the original score is read from the hit before the call, and `hit.score` is only written after it
            o_ok = False
            l = op_local(ct["args"][1])
            seen = set()
            while l is not None and l not in seen:
                seen.add(l)
                dfs = [d for d in g.defs().get(l, []) if not d.get("partial")]
                if len(dfs) != 1 or dfs[0]["k"] != "assign" or dfs[0]["rv"]["k"] not in ("use", "cast"):
                    break
                pl = op_place(dfs[0]["rv"]["a"])
                if pl is not None and place_fields(pl)[-1:] == ["score"]:
                    o_ok = g.dominates_block(dfs[0]["b"], cb)
                    break
                l = op_local(dfs[0]["rv"]["a"])
            for sb, si, st in g.stmts():
                if st["k"] == "assign" and place_fields(st["dst"])[-1:] == ["score"] and "RankedHit" in g.local_ty(st["dst"]["l"]):
                    if not (g.dominates_block(cb, sb)):
                        o_ok = False
            r_ok = any(x[0] == "call" and "evaluate_compiled_score" in callee_of(x[2]) for x in sl.sources(ct["args"][2]))
            ctx.ob(rid, "%s:rescore_hits:combine-arguments" % rid, m_ok and o_ok and r_ok,
                   "combine_rescore_scores(request mode, hit.score, rescore score)" if m_ok and o_ok and r_ok else
                   "combine_rescore_scores is not called with (request mode, the hit's original score, the rescore query's score)",
                   Site(g, cb).loc())


def _param_roots(f, locals_):
    out = set()
    for l in locals_:
        seen = set()
        while l is not None and l not in seen:
            seen.add(l)
            if 1 <= l <= f.arg_count:
                out.add(l)
                break
            dfs = [d for d in f.defs().get(l, []) if not d.get("partial")]
            if len(dfs) != 1 or dfs[0]["k"] != "assign" or dfs[0]["rv"]["k"] not in ("use", "cast"):
                break
            l = op_local(dfs[0]["rv"]["a"])
    return out


def r19d(ctx, P):
    rid = "R19.d"
    from sa.rules.C25 import natural_loops
    ctx.rule(rid, "PER-SEGMENT STATE (the rescore score is BM25 over the hit's own segment): document ids are local to a segment, so a "
                  "cache of per-document tables keyed by field name is only valid for one segment. Wherever field_lengths_for(cache, "
                  "field, seg) is called with a `seg` that is bound by a loop over segments, the cache it fills is created inside that "
                  "same loop iteration")
    n = 0
    FLF = "searchlite_core::api::reader::field_lengths_for"
    direct = {q for q, f in P.fns.items() if f.crate == "searchlite_core" and not is_test_or_bench(f) and
              any(callee_of(t) == FLF for b, t in f.calls())}
    # a per-segment helper (`build_terms(seg, ..)` creating its own cache) is read inside the loop that calls it
    via = {q for q, f in P.fns.items() if f.crate == "searchlite_core" and not is_test_or_bench(f) and f.kind != "closure" and
           any(callee_of(t) in direct and P.fns[callee_of(t)].vis != "Public" and P.fns[callee_of(t)].file == f.file for b, t in f.calls())}
    for q in sorted(direct | via):
        f = P.inlined(q, depth=1) if q in via else P.fns[q]
        calls = [(b, t) for b, t in f.calls() if callee_of(t) == FLF]
        if not calls:
            continue
        loops = natural_loops(f)
        defs = f.defs()
        sl = Slice(f)

        def root_of(o):
            l = op_local(o)
            seen = set()
            while l is not None and l not in seen:
                seen.add(l)
                if f.locals[l].get("name"):
                    return l
                nxt = None
                for d in defs.get(l, []):
                    if d["k"] == "assign" and d["rv"]["k"] == "ref":
                        nxt = d["rv"]["place"]["l"]
                    elif d["k"] == "assign" and d["rv"]["k"] in ("use", "cast"):
                        nxt = op_local(d["rv"]["a"])
                l = nxt
            return l
        for b, t in calls:
            cache, seg = root_of(t["args"][0]), root_of(t["args"][2])
            if cache is None or seg is None:
                continue
            seg_def_blocks = {d["b"] for d in defs.get(seg, [])}
            seg_loops = [body for h, body in loops if b in body and (seg_def_blocks & body)]
            if not seg_loops:
                continue          # `seg` is not bound per iteration here (a parameter): one segment per call
            n += 1
            ctx.saw(f)
            body = max(seg_loops, key=len)
            cache_defs_in = [d for d in defs.get(cache, []) if d["b"] in body and not d.get("partial")]
            ok = bool(cache_defs_in)
            ctx.ob(rid, "%s:%s:cache-per-segment" % (rid, f.short.rsplit("::", 1)[-1]), ok,
                   "`%s` is re-created for every segment" % f.locals[cache].get("name") if ok else
                   "`%s` is created outside the loop that binds `%s` and filled by field_lengths_for at %s: the length table of the first "
                   "segment is reused for the others, indexed by their local document ids" % (
                       f.locals[cache].get("name"), f.locals[seg].get("name"), Site(f, b).loc()), Site(f, b).loc())
    ctx.floor(rid, n, 1, "field_lengths_for calls inside a loop over segments (rescore_hits)")


THOROUGH_FEATURES = ['r19a', 'r19b', 'r19c', 'r19d']


def run(ctx, progs):
    P = progs.get("default")
    r19d(ctx, P)
    r19a(ctx, P)
    r19b(ctx, P)
    r19c(ctx, P)
    ctx.assumptions += ["to_remove / per-segment work lists are filled only by the statements visible in rescore_hits (values are followed "
                        "into containers through `&mut` receivers)",
                        "the scores themselves and the order inside the window are runtime results and not decided"]
