"""C12 — aggregations are exact and independent of segmentation (partial)."""
import re
from sa import names as N
from sa.prog import Site, Slice, TERM, callee_of, op_local, op_place, op_const, place_fields
from sa.rules.common import is_test_or_bench

EXPLANATION = ("Decides two structural necessary conditions: (a) nothing is cut before all segments are merged — in every "
               "per-segment finisher of an exact aggregation kind and in the pairwise merge step, no truncate/filter/retain/take on "
               "a bucket list has a bound or predicate that derives from the request's size, min_doc_count or max_doc_count (only "
               "shard_size, documented as approximate, and the MAX_BUCKETS constant are allowed); a bucket below a threshold or "
               "outside the top-`size` in one segment can be above it after merging, so an earlier cut makes the result depend on "
               "the commit layout. (b) every aggregation collector whose field is admitted by ensure_numeric_fast (i64 and f64 fast "
               "fields) reads per-document values through an accessor that covers both column types; (c) every field of the "
               "per-segment collector that holds aggregation nodes and is drained by finish is fed, unconditionally, by the "
               "per-document collect. Equality with an independent computation is not decided.")

AGGS = "searchlite_core::query::aggs::"
THRESHOLDS = ("size", "min_doc_count", "max_doc_count")
CUT_CALLS = {"alloc::vec::Vec::<T, A>::truncate": "truncate", "core::iter::traits::iterator::Iterator::filter": "filter",
             "alloc::vec::Vec::<T, A>::retain": "retain", "core::iter::traits::iterator::Iterator::take": "take",
             "core::iter::traits::iterator::Iterator::take_while": "take_while", "core::iter::traits::iterator::Iterator::skip_while": "skip_while",
             "alloc::vec::Vec::<T, A>::drain": "drain", "alloc::vec::Vec::<T, A>::split_off": "split_off"}
EXACT_SKIP = ("SignificantTerms",)


def finishers(P):
    out = []
    for p, f in P.fns.items():
        if not p.startswith(AGGS) or is_test_or_bench(f) or f.kind == "closure":
            continue
        if p.endswith("::finish") and "AggregationIntermediate" in f.ret_ty and "Collector" in p:
            out.append(f)
    return out


def variant_of(place):
    for e in place["p"]:
        if isinstance(e, dict) and "downcast" in e:
            return e["downcast"]
    return None


def threshold_sources(P, f, operand, depth=0):
    """Names among size/min_doc_count/max_doc_count (and the enum variant, if visible) that the operand derives from."""
    out = set()
    # a list length is not a request threshold: do not look through len()
    sl = Slice(f, through_all_calls=True, opaque=lambda c: c.endswith("::len"))
    for s in sl.sources(operand):
        if s[0] == "field":
            for nm in s[2]:
                base = nm.split(".")[-1].replace("upvar:", "").replace("*", "")
                if base in THRESHOLDS:
                    out.add((base, variant_of(s[3])))
    return out


def closure_threshold_sources(P, parent, closure_path):
    """Thresholds read by a closure: its upvars, traced to the operands of its construction site in the parent."""
    out = set()
    c = P.fn(closure_path)
    if c is None:
        return out
    # direct: upvar names such as `self.min_doc_count`
    for b, i, s in c.stmts():
        if s["k"] != "assign":
            continue
        places = []
        rv = s["rv"]
        if rv["k"] in ("use", "cast", "unop"):
            pl = op_place(rv["a"])
            if pl:
                places.append(pl)
        elif rv["k"] in ("ref", "discr"):
            places.append(rv["place"])
        elif rv["k"] == "binop":
            for o in (rv["a"], rv["b"]):
                pl = op_place(o)
                if pl:
                    places.append(pl)
        for pl in places:
            for nm in place_fields(pl):
                base = nm.split(".")[-1].replace("upvar:", "").replace("*", "")
                if base in THRESHOLDS:
                    out.add((base, None))
    # via construction operands in the parent
    for b, i, s in parent.stmts():
        if s["k"] == "assign" and s["rv"]["k"] == "agg" and s["rv"].get("closure") == closure_path:
            for o in s["rv"]["ops"]:
                out |= threshold_sources(P, parent, o)
    return out


def cut_sites(P, f):
    """[(Site, op name, {(threshold, variant)})] for cut operations in f whose bound/predicate derives from a threshold."""
    out = []
    sl = Slice(f, through_all_calls=True)
    for b, t in f.calls():
        cal = t["callee"]
        op = CUT_CALLS.get(cal) or CUT_CALLS.get(callee_of(t))
        if op is None:
            continue
        srcs = set()
        if op in ("truncate", "take", "drain", "split_off"):
            for a in t["args"][1:]:
                srcs |= threshold_sources(P, f, a)
        else:
            for a in t["args"][1:]:
                cl = [y[3]["closure"] for y in sl.sources(a) if y[0] == "agg" and y[3].get("ak") == "closure"]
                c0 = op_const(a)
                if c0 and "closure" in c0:
                    cl.append(c0["closure"])
                for c in cl:
                    srcs |= closure_threshold_sources(P, f, c)
        # which variant does the receiver list belong to (merge arms)?
        recv_var = None
        for y in sl.sources(t["args"][0]):
            if y[0] == "field":
                recv_var = recv_var or variant_of(y[3])
        out.append((Site(f, b), op, srcs, recv_var))
    return out


def r12a(ctx, P):
    rid = "R12.a"
    ctx.rule(rid, "FLOW: in every per-segment finisher (*Collector::finish returning AggregationIntermediate) of an exact kind and in "
                  "merge_intermediate_in_place, no Vec::truncate/retain/drain or Iterator::filter/take on a bucket list has a bound or "
                  "predicate that derives from `size`, `min_doc_count` or `max_doc_count`; such cut-offs belong in finalize_response / "
                  "finalize_composite, which run once on the fully merged intermediate (shard_size and MAX_BUCKETS are allowed; "
                  "significant_terms is outside the property's exact kinds)")
    fs = finishers(P)
    ctx.floor(rid + ".finishers", len(fs), 9, "per-segment finishers returning an AggregationIntermediate with bucket lists")
    merge = P.fn(AGGS + "merge_intermediate_in_place")
    if not ctx.anchor(rid, merge, "merge_intermediate_in_place"):
        return
    n = 0
    for f in sorted(fs, key=lambda x: x.path) + [merge]:
        ctx.saw(f)
        kind = re.search(r"aggs::(\w+)Collector", f.path)
        kind = kind.group(1) if kind else None
        cuts = cut_sites(P, f)
        if not cuts:
            ctx.ob(rid, "%s:%s:no-cut" % (rid, f.short), True, "%s performs no cut-off on a bucket list" % f.short, "%s:%s" % (f.file, f.line))
            n += 1
            continue
        for site, op, srcs, recv_var in cuts:
            k = kind or recv_var or "?"
            if any(k.startswith(x) for x in EXACT_SKIP) or (f is merge and recv_var is None and not srcs):
                continue
            n += 1
            names = sorted({s[0] for s in srcs})
            label = "%s[%s]" % (f.short, recv_var) if f is merge else f.short
            if not names:
                ctx.ob(rid, "%s:%s:%s:ok" % (rid, label, op), True,
                       "%s at %s is bounded by shard_size / MAX_BUCKETS / a content predicate only" % (op, site.loc()), site.loc())
            for nm in names:
                ctx.ob(rid, "%s:%s:%s:%s" % (rid, label, op, nm), False,
                       "%s at %s cuts the per-segment bucket list by `%s` before all segments are merged: a bucket below the "
                       "threshold / outside the top-size in one segment can be above it after merging, so the response depends on "
                       "how documents are spread over segments" % (op, site.loc(), nm), site.loc())
    ctx.floor(rid, n, 12, "finishers / cut-off sites examined")
    # positive control: the final cut-offs exist where they belong
    fin = P.fn(AGGS + "finalize_response")
    if ctx.anchor(rid, fin, "finalize_response"):
        cl = [fin] + P.closures_of(fin)
        found = set()
        for g in cl:
            for site, op, srcs, _rv in cut_sites(P, g if g.kind != "closure" else g):
                found |= {s[0] for s in srcs}
            # closures read thresholds through upvars too
        ctx.ob(rid, "%s:finalize_response:positive-control" % rid, "size" in found,
               "control: finalize_response applies `size` to the merged buckets (the query can see the pattern: %s)" % sorted(found)
               if "size" in found else "positive control failed: no size cut-off found in finalize_response", "%s:%s" % (fin.file, fin.line))


def r12b(ctx, P):
    rid = "R12.b"
    ctx.rule(rid, "AGREE: every aggregation collector that reads a numeric fast field (validated by ensure_numeric_fast, which admits "
                  "i64 and f64) goes through FastFieldsReader::numeric_values (or the module-local numeric_values wrapper); a collector "
                  "that calls f64_values or i64_values alone skips every document of the other column type")
    both = ("searchlite_core::index::fastfields::FastFieldsReader::numeric_values", AGGS + "numeric_values")
    single = ("searchlite_core::index::fastfields::FastFieldsReader::f64_values",
              "searchlite_core::index::fastfields::FastFieldsReader::i64_values")
    n = 0
    for p, f in sorted(P.fns.items()):
        if not p.startswith(AGGS) or is_test_or_bench(f):
            continue
        root = f
        while root.kind == "closure" and root.parent and P.fn(root.parent):
            root = P.fn(root.parent)
        calls = [(b, callee_of(t)) for b, t in f.calls() if callee_of(t) in both + single]
        if not calls:
            continue
        ctx.saw(f)
        uses_single = {c for b, c in calls if c in single}
        for b, c in calls:
            if c in both:
                n += 1
                ctx.ob(rid, "%s:%s:numeric_values" % (rid, root.short), True,
                       "%s reads the column through numeric_values (covers i64 and f64)" % root.short, Site(f, b).loc())
            else:
                n += 1
                paired = len(uses_single) == 2
                ctx.ob(rid, "%s:%s:%s" % (rid, root.short, c.rsplit("::", 1)[1]), paired,
                       "%s reads both typed accessors" % root.short if paired else
                       "%s reads the column with %s only, while its field is admitted by ensure_numeric_fast for i64 and f64: every "
                       "document of the other column type is skipped" % (root.short, c.rsplit("::", 1)[1]), Site(f, b).loc())
    ctx.floor(rid, n, 6, "numeric column reads in aggregation collectors")
    # the shared accessor really covers both column families
    nv = P.fn("searchlite_core::index::fastfields::FastFieldsReader::numeric_values")
    col = P.adts.get("searchlite_core::index::fastfields::Column")
    if ctx.anchor(rid, nv, "FastFieldsReader::numeric_values") and ctx.anchor(rid, col, "fastfields::Column"):
        names = [v["name"] for v in col["variants"]]
        handled = set()
        for b in sorted(nv.reachable()):
            t = nv.blocks[b]["term"]
            if t["k"] == "switch" and len(t["values"]) >= 2:
                for v, tg in zip(t["values"], t["targets"]):
                    if tg != t["otherwise"] and v < len(names):
                        handled.add(names[v])
        need = {x for x in names if x in ("I64", "F64", "I64List", "F64List")}
        ok = need <= handled
        ctx.ob(rid, "%s:FastFieldsReader::numeric_values:covers-both" % rid, ok,
               "numeric_values has arms for %s" % sorted(need) if ok else
               "numeric_values lacks an arm for %s" % sorted(need - handled), "%s:%s" % (nv.file, nv.line))


def r12c(ctx, P):
    rid = "R12.c"
    ctx.rule(rid, "AGREE (collect vs finish): every field of SegmentAggregationCollector that holds AggregationNode values and is "
                  "consumed by `finish` is also iterated by the per-document `collect`, whose loop calls AggregationNode::collect on "
                  "each element unconditionally; the same holds for the bucket collectors' child maps (a node that is finished but "
                  "never fed reports an empty result for documents it should have counted, e.g. its `missing` bucket)")
    adt = P.adts.get(AGGS + "SegmentAggregationCollector")
    col = P.fn("<searchlite_core::query::aggs::SegmentAggregationCollector<'_> as searchlite_core::query::collector::DocCollector>::collect")
    fin = P.fn("<searchlite_core::query::aggs::SegmentAggregationCollector<'_> as searchlite_core::query::collector::AggregationSegmentCollector>::finish")
    if not (ctx.anchor(rid, adt, "SegmentAggregationCollector") and ctx.anchor(rid, col, "SegmentAggregationCollector::collect") and
            ctx.anchor(rid, fin, "SegmentAggregationCollector::finish")):
        return
    ctx.saw(col)
    ctx.saw(fin)
    node_fields = [f[0] for f in adt["variants"][0]["fields"] if "AggregationNode" in f[1] or "Aggregation" in f[1] and "BTreeMap" in f[1]]
    ctx.floor(rid, len(node_fields), 1, "node-holding fields of SegmentAggregationCollector")

    def fields_touched(g):
        out = set()
        for h in [g] + P.closures_of(g):
            for b, i, s in h.stmts():
                if s["k"] != "assign":
                    continue
                rv = s["rv"]
                pls = []
                if rv["k"] in ("ref", "discr"):
                    pls.append(rv["place"])
                elif rv["k"] in ("use", "cast"):
                    pl = op_place(rv["a"])
                    if pl:
                        pls.append(pl)
                for pl in pls:
                    out |= {e["f"] for e in pl["p"] if isinstance(e, dict) and "f" in e and e.get("of") == AGGS + "SegmentAggregationCollector"}
        return out
    in_col, in_fin = fields_touched(col), fields_touched(fin)
    for fl in node_fields:
        ok = (fl in in_col) or (fl not in in_fin)
        ctx.ob(rid, "%s:SegmentAggregationCollector.%s" % (rid, fl), ok,
               "every node in `%s` is fed by collect and finished by finish" % fl if ok else
               "nodes in `%s` are finished but never fed by the per-document collect: their aggregations silently miss documents" % fl,
               "%s:%s" % (col.file, col.line))
    # the feeding call is unconditional inside the loop (only the iterator's Some/None test controls it)
    calls = [b for b, t in col.calls() if callee_of(t).endswith("AggregationNode::<'a>::collect")]
    for cb in calls:
        deps = col.control_deps_transitive(cb)
        extra = []
        for (a, succ) in deps:
            t = col.blocks[a]["term"]
            if t["k"] == "switch" and not any("ForLoop" in m for m in t.get("macros", [])):
                extra.append(Site(col, a))
        ctx.ob(rid, "%s:SegmentAggregationCollector::collect:unconditional-feed" % rid, not extra,
               "every top-level node receives every collected document" if not extra else
               "the per-document feed at %s is conditional on the test at %s: some aggregations skip documents" % (Site(col, cb).loc(), extra[0].loc()),
               Site(col, cb).loc())
    ctx.floor(rid + ".feed", len(calls), 1, "AggregationNode::collect call in the per-document loop")


THOROUGH_FEATURES = ['r12c']


def run(ctx, progs):
    P = progs.get("default")
    r12a(ctx, P)
    r12b(ctx, P)
    r12c(ctx, P)
    from sa.rules.common import column_slots_rule
    column_slots_rule(ctx, P, "R12.d")
    ctx.assumptions += ["shard_size is documented as an approximation knob and is outside the property's exact kinds",
                        "bucket lists are recognised as the receivers of truncate/retain/filter/take in finishers and merge arms"]
