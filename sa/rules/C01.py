"""C01 — commits are atomic and durable across crashes (partial: ordering / fsync / who-may-write skeleton)."""
from sa import names as N
from sa.prog import Effect, Site, Slice, TERM, callee_of, must_order, ok_sites, op_local, outcome_arms, in_arm
from sa.rules.common import publish_sites, callers_of, root_fn, is_test_or_bench, entry_ancestors, direct_callers, tops_of

EXPLANATION = ("Decides the structural skeleton that crash atomicity and durability rest on, for every path of the "
               "commit / compaction / storage code: order of log sync, segment fsync, atomic manifest replace, commit "
               "marker, in-memory publish and log truncation; fsync pairing of every file opened for writing; who may "
               "write the manifest, delete files, or touch the log handle. Does not decide post-crash content equality.")


def find_commit(P):
    """The pub method of IndexWriter that reaches Wal::append_commit."""
    c = []
    for p, f in P.fns.items():
        if f.kind == "assoc_fn" and f.impl_self == N.W and not f.impl_trait and f.vis == "Public":
            if N.WAL_APPEND_COMMIT in P.reach(p):
                c.append(f)
    # the view with private same-file helpers spliced in (returns of known Ok / Err variant are threaded to the caller's matching
    # arm), so that extracting parts of commit into helpers changes no verdict
    return P.inlined(c[0].path) if len(c) == 1 else None


def early_exit_oks(fn):
    """Ok-returns that sit on the true arm of `pending_ops.is_empty()` (nothing to commit)."""
    out = []
    sl = Slice(fn)
    for s in ok_sites(fn):
        for (a, succ) in fn.control_deps_transitive(s.b):
            t = fn.blocks[a]["term"]
            if t["k"] != "switch":
                continue
            for (b2, t2) in sl.calls(t["on"]):
                if callee_of(t2).endswith("::is_empty") and "pending_ops" in sl.fields(t2["args"][0]):
                    # true arm = the successor that is not the target of value 0
                    zero = dict(zip(t["values"], t["targets"])).get(0)
                    if succ != zero:
                        out.append(s)
    return out


def commit_effects(P, commit):
    return [
        Effect("wal-sync(queued ops durable)", N.is_(N.WAL_SYNC), no_early=False),
        Effect("segment-write", N.is_(N.S_OPEN_WRITE), optional=True),
        Effect("manifest-store(new)", N.is_(N.MAN_STORE)),
        Effect("wal-append-commit-marker", N.is_(N.WAL_APPEND_COMMIT)),
        Effect("wal-sync(marker durable)", N.is_(N.WAL_SYNC), no_early=False),
        Effect("publish(in-memory manifest)", None, sites=lambda f: publish_sites(P, f)),
        Effect("wal-truncate", N.is_(N.WAL_TRUNCATE)),
    ]


def r01a(ctx, P):
    rid = "R01.a"
    ctx.rule(rid, "ORDER: on every path of IndexWriter::commit to a success return (other than the empty-queue early "
                  "exit): Wal::sync < segment write (when present) < Manifest::store(new) < Wal::append_commit < Wal::sync "
                  "< in-memory publish < Wal::truncate; no later effect occurs before its predecessor")
    commit = find_commit(P)
    if not ctx.anchor(rid, commit, "pub IndexWriter method reaching Wal::append_commit"):
        return
    ctx.saw(commit)
    for c in P.closures_of(commit):
        ctx.saw(c)
    early = {s.key() for s in early_exit_oks(commit)}
    targets = [s for s in ok_sites(commit) if s.key() not in early]
    ctx.floor(rid + ".targets", len(targets), 1, "non-trivial Ok-returns of commit")
    effs = commit_effects(P, commit)
    ok, res = must_order(P, commit, effs, targets)
    nsites = 0
    for r in res:
        for c in r.get("chain", []):
            nsites += 1
    ctx.ob(rid, "%s:%s:order" % (rid, commit.short), ok,
           "commit protocol order on every success path" if ok else "commit protocol order broken: %s" % _first_fail(res),
           "%s:%s" % (commit.file, commit.line), {"result": res})
    ctx.floor(rid, nsites, 6, "ordered commit effects bound to sites (the conditional segment write is counted separately)")
    # optional effect: every segment write lies after the first sync and never after the manifest store
    sync_sites = [s for s in P.sites_calling(commit, N.is_(N.WAL_SYNC), include_closure_construction=False)
                  if not P.call_reaches(commit.blocks[s.b]["term"], N.is_(N.MAN_STORE))]
    store_sites = P.sites_calling(commit, N.is_(N.MAN_STORE), include_closure_construction=False)
    segw = P.sites_calling(commit, N.is_(N.S_OPEN_WRITE), include_closure_construction=False)
    ctx.floor(rid + ".segwrite", len(segw), 1, "segment-write sites in commit")
    for s in segw:
        after_sync = any(commit.dominates(x, s) for x in sync_sites)
        after_store = any(s.b in commit.reachable_from(x.b) and x.key() != s.key() for x in store_sites)
        ctx.ob(rid, "%s:%s:segment-write-window" % (rid, commit.short), after_sync and not after_store,
               "segment files are written after the log sync and before any manifest store"
               if after_sync and not after_store else
               "segment write at %s is %s" % (s.loc(), "not preceded by Wal::sync" if not after_sync else "reachable after Manifest::store"),
               s.loc())


def _first_fail(res):
    for r in res:
        if "failed" in r:
            return str(r["failed"])[:400]
        if "early" in r:
            return r["early"]
    return "?"


def r01b(ctx, P):
    rid = "R01.b"
    ctx.rule(rid, "PAIR: every Storage::open_write handle outside the Storage impls receives StorageFile::sync_all at a "
                  "site dominating every success return reachable from the open")
    n = 0
    for p, f in sorted(P.fns.items()):
        if f.crate != "searchlite_core" or f.impl_trait == N.STOR or is_test_or_bench(f):
            continue
        opens = [(b, t) for b, t in f.calls() if t["callee"] == N.S_OPEN_WRITE]
        if not opens:
            continue
        ctx.saw(f)
        sl = Slice(f)
        syncs = [(b, t) for b, t in f.calls() if t["callee"] == N.F_SYNC_ALL]
        oks = ok_sites(f)
        for ob_, ot in opens:
            n += 1
            osite = Site(f, ob_)
            mine = []
            for sb, st in syncs:
                if any(b2 == ob_ for (b2, _t2) in sl.calls(st["args"][0])):
                    mine.append(Site(f, sb))
            reach = f.reachable_from(ob_)
            bad = [r for r in oks if r.b in reach and not any(f.dominates(s, r) for s in mine)]
            pathfield = ",".join(sorted(Slice(f).fields(ot["args"][1]))) or "path"
            key = "%s:%s:open_write(%s)" % (rid, f.short, pathfield)
            ctx.ob(rid, key, not bad and bool(mine),
                   "handle opened at %s is fsynced (%s) before every success return" % (osite.loc(), ", ".join(s.loc() for s in mine))
                   if (not bad and mine) else
                   "handle opened at %s reaches success return %s without StorageFile::sync_all" % (osite.loc(), (bad[0].loc() if bad else "(no sync found)")),
                   osite.loc(), {"syncs": [s.loc() for s in mine]})
    ctx.floor(rid, n, 5, "Storage::open_write sites (docstore, postings, terms, fast, meta)")


def r01c(ctx, P):
    rid = "R01.c"
    ctx.rule(rid, "ORDER: FsStorage::atomic_write = create(tmp) < write_all < sync_all < rename(tmp,path) < sync_dir; "
                  "FsStorage::write_all = create < write_all < sync_all < sync_dir; sync_dir opens the parent and fsyncs it; "
                  "the rename source derives from path.with_extension")
    aw = P.fn(N.impl_of(N.S_ATOMIC_WRITE, "searchlite_core::storage::FsStorage"))
    wa = P.fn(N.impl_of(N.S_WRITE_ALL, "searchlite_core::storage::FsStorage"))
    sd = P.fn("searchlite_core::storage::sync_dir")
    if not (ctx.anchor(rid, aw, "FsStorage::atomic_write") and ctx.anchor(rid, wa, "FsStorage::write_all")):
        return
    for f in (aw, wa, sd):
        ctx.saw(f)
    def dirsync_sites(f):
        out = []
        for b, t in f.calls():
            g = P.fn(callee_of(t))
            if g is not None and {"std::fs::File::open", "std::fs::File::sync_all"} <= P.reach(g.path):
                out.append(Site(f, b))
        return out

    effs_aw = [Effect("create(tmp)", N.is_("std::fs::File::create")),
               Effect("write_all", N.is_("std::io::Write::write_all")),
               Effect("sync_all(file)", None, sites=lambda f: [Site(f, b) for b, t in f.calls() if callee_of(t) == "std::fs::File::sync_all"]),
               Effect("rename", N.is_("std::fs::rename")),
               Effect("fsync(parent dir)", None, sites=dirsync_sites)]
    ok, res = must_order(P, aw, effs_aw, ok_sites(aw))
    ctx.ob(rid, "%s:FsStorage::atomic_write:order" % rid, ok,
           "atomic replace protocol ordered on every success path" if ok else "atomic_write order broken: %s" % _first_fail(res),
           "%s:%s" % (aw.file, aw.line), {"result": res})
    effs_wa = [Effect("create", N.is_("std::fs::File::create")),
               Effect("write_all", N.is_("std::io::Write::write_all")),
               Effect("sync_all(file)", None, sites=lambda f: [Site(f, b) for b, t in f.calls() if callee_of(t) == "std::fs::File::sync_all"]),
               Effect("fsync(parent dir)", None, sites=dirsync_sites)]
    ok, res = must_order(P, wa, effs_wa, ok_sites(wa))
    ctx.ob(rid, "%s:FsStorage::write_all:order" % rid, ok,
           "write_all fsyncs file then directory on every success path" if ok else "write_all order broken: %s" % _first_fail(res),
           "%s:%s" % (wa.file, wa.line), {"result": res})
    # rename source is the tmp path derived from `path`, destination is `path` itself
    sl = Slice(aw)
    for b, t in aw.calls():
        if callee_of(t) == "std::fs::rename":
            src_ok = "std::path::Path::with_extension" in sl.callees(t["args"][0])
            dst_ok = 2 in sl.args(t["args"][1]) and "std::path::Path::with_extension" not in sl.callees(t["args"][1])
            ctx.ob(rid, "%s:FsStorage::atomic_write:rename-operands" % rid, src_ok and dst_ok,
                   "rename(tmp derived from path.with_extension, path)" if src_ok and dst_ok else
                   "rename operands do not have the shape (tmp-of-path, path)", Site(aw, b).loc())
        if callee_of(t) == "std::fs::File::create":
            ok_c = "std::path::Path::with_extension" in sl.callees(t["args"][0])
            ctx.ob(rid, "%s:FsStorage::atomic_write:create-operand" % rid, ok_c,
                   "the file created and fsynced is the tmp file" if ok_c else "atomic_write creates a file that is not the tmp path",
                   Site(aw, b).loc())
    # the directory that is fsynced is the parent of the path; the only success path that skips the fsync is
    # the one on which the path has no parent
    if ctx.anchor(rid, sd, "storage::sync_dir"):
        sl = Slice(sd)
        opens = [(b, t) for b, t in sd.calls() if callee_of(t) == "std::fs::File::open"]
        syncs = [Site(sd, b) for b, t in sd.calls() if callee_of(t) == "std::fs::File::sync_all"]
        good = bool(opens) and all("std::path::Path::parent" in sl.callees(t["args"][0]) for b, t in opens)
        ctx.ob(rid, "%s:sync_dir:opens-parent" % rid, good, "sync_dir opens path.parent()" if good else
               "sync_dir does not open the parent directory", "%s:%s" % (sd.file, sd.line))
        for ob_, ot in opens:
            osite = Site(sd, ob_)
            arms = outcome_arms(sd, osite)
            bad = []
            for r in ok_sites(sd):
                for a in arms["ok"]:
                    if sd.cfg_path(a, r.b, avoid=[x.b for x in syncs]) is not None:
                        bad.append(r)
            ctx.ob(rid, "%s:sync_dir:fsync-after-open" % rid, bool(arms["ok"]) and bool(syncs) and not bad,
                   "once the parent directory is opened, every success path fsyncs it" if arms["ok"] and syncs and not bad
                   else "sync_dir can return Ok after opening the directory without File::sync_all", osite.loc())

def r01d(ctx, P):
    rid = "R01.d"
    ctx.rule(rid, "ORDER: Index::compact = segment write < Manifest::store < cleanup_segments(old) < success return; the "
                  "cleanup argument derives from the pre-compaction snapshot, never from the new segment")
    comp = P.fn(N.INDEX + "::compact")
    if not ctx.anchor(rid, comp, "Index::compact"):
        return
    ctx.saw(comp)
    early = []
    sl = Slice(comp)
    targets = []
    for s in ok_sites(comp):
        # the `segments.len() <= 1` early exit performs no effect; it is recognised as: no storage-write effect can reach it
        pre = [x for x in P.sites_calling(comp, N.any_of(N.STORAGE_WRITE_EFFECTS), include_closure_construction=False)
               if s.b in comp.reachable_from(x.b)]
        if pre:
            targets.append(s)
        else:
            early.append(s)
    ctx.floor(rid + ".targets", len(targets), 1, "Ok-returns of compact reached after a storage write")
    effs = [Effect("segment-write", N.is_(N.S_OPEN_WRITE)),
            Effect("manifest-store", N.is_(N.MAN_STORE)),
            Effect("cleanup(old segments)", N.is_(N.CLEANUP))]
    ok, res = must_order(P, comp, effs, targets)
    ctx.ob(rid, "%s:Index::compact:order" % rid, ok,
           "compaction stores the manifest before removing old files on every success path" if ok
           else "compaction order broken: %s" % _first_fail(res), "%s:%s" % (comp.file, comp.line), {"result": res})
    # removals never precede the store
    stores = P.sites_calling(comp, N.is_(N.MAN_STORE), include_closure_construction=False)
    rem = P.sites_calling(comp, N.any_of({N.S_REMOVE, N.S_REMOVE_DIR}), include_closure_construction=False)
    ctx.floor(rid + ".remove", len(rem), 1, "file-removal sites in compact")
    for r in rem:
        good = any(comp.dominates(s, r) and in_arm(comp, r, outcome_arms(comp, s)["ok"]) for s in stores)
        ctx.ob(rid, "%s:Index::compact:remove-after-store" % rid, good,
               "old files are removed only after Manifest::store succeeded" if good else
               "file removal at %s is not dominated by the success arm of Manifest::store" % r.loc(), r.loc())
        # argument provenance: old snapshot, not the new segment
        t = comp.blocks[r.b]["term"]
        if callee_of(t) == N.CLEANUP:
            srcs = sl.sources(t["args"][1])
            from_new = any(k[0] == "call" and P.call_reaches(k[2], N.is_(N.S_OPEN_WRITE)) for k in srcs)
            from_snapshot = any(k[0] == "field" and "segments" in k[2] for k in srcs)
            ctx.ob(rid, "%s:Index::compact:cleanup-argument" % rid, from_snapshot and not from_new,
                   "cleanup argument derives from the pre-compaction segment list" if from_snapshot and not from_new
                   else "cleanup argument derives from the newly written segment or not from the snapshot", r.loc())


def r01e(ctx, P):
    rid = "R01.e"
    ctx.rule(rid, "WHO: the manifest file is only ever replaced through Storage::atomic_write, and Manifest::store is called "
                  "only from index creation/open(create_if_missing), commit (and its rollback arm) and compact")
    st = P.fn(N.MAN_STORE)
    if not ctx.anchor(rid, st, "Manifest::store"):
        return
    ctx.saw(st)
    writes = [(b, t) for b, t in st.calls() if t["callee"] in N.STORAGE_WRITE_EFFECTS]
    ctx.floor(rid + ".store-writes", len(writes), 1, "storage writes inside Manifest::store")
    for b, t in writes:
        ctx.ob(rid, "%s:Manifest::store:%s" % (rid, t["callee"].rsplit("::", 1)[1]), t["callee"] == N.S_ATOMIC_WRITE,
               "Manifest::store writes through atomic_write" if t["callee"] == N.S_ATOMIC_WRITE else
               "Manifest::store writes the manifest with %s (not an atomic replace)" % t["callee"], Site(st, b).loc())
    # any other storage write whose path derives from manifest_path must be atomic_write
    n = 0
    for p, f in P.fns.items():
        if f.crate != "searchlite_core" or f.impl_trait == N.STOR or is_test_or_bench(f):
            continue
        sl = None
        for b, t in f.calls():
            if t["callee"] in (N.S_WRITE_ALL, N.S_OPEN_WRITE, N.S_OPEN_APPEND) or callee_of(t) in ("std::fs::write", "std::fs::File::create", "std::fs::OpenOptions::open") \
                    or (P.fns.get(callee_of(t)) is not None and P.fns[callee_of(t)].impl_trait == N.STOR and callee_of(t).endswith(("::write_all", "::open_write", "::open_append"))):
                sl = sl or Slice(f)
                cs = set()
                for a in t["args"]:
                    cs |= Slice(f, through_all_calls=True).callees(a)
                if any(c.endswith("::manifest_path") for c in cs):
                    n += 1
                    ctx.ob(rid, "%s:%s:non-atomic-manifest-write" % (rid, f.short), False,
                           "manifest path written with %s" % t["callee"], Site(f, b).loc())
    allowed = {N.INDEX + "::create_with_storage", N.INDEX + "::open_with_storage", N.W + "::commit", N.INDEX + "::compact"}
    callers = entry_ancestors(P, N.MAN_STORE, skip=is_test_or_bench)
    ctx.floor(rid + ".callers", len(callers), 4, "callers of Manifest::store")
    for c in sorted(callers):
        ctx.ob(rid, "%s:caller:%s" % (rid, c.split("::", 1)[1]), c in allowed,
               "Manifest::store called from %s" % c if c in allowed else
               "Manifest::store called from %s, which is not one of the persistence entry points" % c,
               "%s:%s" % (P.fn(c).file, P.fn(c).line) if P.fn(c) else None)


def r01f(ctx, P):
    rid = "R01.f"
    ctx.rule(rid, "WHO: Storage::remove/remove_dir_all are reached only through cleanup_segments; cleanup_segments is called "
                  "only from compact (after its store) and from commit's error arm with segments written in this call; "
                  "StorageFile::set_len and Storage::open_append are used only inside index::wal")
    n = 0
    storage_impl = lambda f: f.impl_trait in (N.STOR, N.SFILE) or is_test_or_bench(f)  # noqa: E731

    def is_removal(c):
        if c in (N.S_REMOVE, N.S_REMOVE_DIR, "std::fs::remove_file", "std::fs::remove_dir_all", "std::fs::remove_dir"):
            return True
        g = P.fns.get(c)
        return g is not None and g.impl_trait == N.STOR and c.endswith(("::remove", "::remove_dir_all"))
    dc = direct_callers(P, is_removal, skip=storage_impl)
    is_pub = lambda p: P.fn(p) is not None and P.fn(p).vis == "Public" and P.fn(p).kind != "closure"  # noqa: E731
    tops = tops_of(P, dc.keys(), stop=lambda p: p == N.CLEANUP or is_pub(p))
    for c in sorted(tops):
        f = P.fn(c)
        if f is not None and f.crate != "searchlite_core":
            continue
        n += 1
        ctx.ob(rid, "%s:removal:%s" % (rid, c.split("::", 1)[1]), c == N.CLEANUP,
               "file removal (Storage::remove*, std::fs::remove_*) is reached only through cleanup_segments" if c == N.CLEANUP else
               "file removal is reachable from %s without passing through cleanup_segments" % c,
               "%s:%s" % (f.file, f.line) if f else None)
    ctx.floor(rid + ".remove", n, 1, "file-removal call chains")
    cl_callers = entry_ancestors(P, N.CLEANUP, skip=is_test_or_bench)
    allowed = {N.W + "::commit", N.INDEX + "::compact"}
    ctx.floor(rid + ".cleanup-callers", len(cl_callers), 2, "callers of cleanup_segments")
    for c in sorted(cl_callers):
        ctx.ob(rid, "%s:cleanup-caller:%s" % (rid, c.split("::", 1)[1]), c in allowed,
               "cleanup_segments called from %s" % c, "%s:%s" % (P.fn(c).file, P.fn(c).line) if P.fn(c) else None)
    # commit's cleanup only touches segments produced by the segment writer in this call
    commit = find_commit(P)
    if commit is not None:
        sl = Slice(commit, through_all_calls=False)
        for b, t in commit.calls():
            if callee_of(t) == N.CLEANUP:
                arg = t["args"][1]
                base = _base_vec_local(commit, sl, arg)
                ok = False
                why = "argument is not a local vector"
                if base is not None:
                    ok, why = _vec_filled_only_from(P, commit, base, N.is_(N.S_OPEN_WRITE))
                ctx.ob(rid, "%s:commit:cleanup-argument" % rid, ok,
                       "commit's error arm deletes only segments written by this call (%s)" % why if ok else
                       "commit's cleanup argument may contain published segments: %s" % why, Site(commit, b).loc())
    def is_set_len(c):
        g = P.fns.get(c)
        return c in (N.F_SET_LEN, "std::fs::File::set_len") or (g is not None and g.impl_trait == N.SFILE and c.endswith("::set_len"))

    def is_open_append(c):
        g = P.fns.get(c)
        return c == N.S_OPEN_APPEND or (g is not None and g.impl_trait == N.STOR and c.endswith("::open_append"))
    for pred, what in ((is_set_len, "StorageFile::set_len"), (is_open_append, "Storage::open_append")):
        dcs = {c: s_ for c, s_ in direct_callers(P, pred, skip=storage_impl).items() if P.fn(c).crate == "searchlite_core"}
        ctx.floor(rid + "." + what, len(dcs), 1, "callers of " + what)
        for c, site in sorted(dcs.items()):
            ok = c.startswith("searchlite_core::index::wal::")
            ctx.ob(rid, "%s:%s:%s" % (rid, what, c.split("::", 1)[1]), ok,
                   "%s used inside index::wal" % what if ok else "%s used outside index::wal in %s" % (what, c), site.loc())


def _base_vec_local(fn, sl, operand):
    """The user-variable local a `&[T]` argument borrows from (through deref/ref chains)."""
    for s in sl.sources(operand):
        if s[0] == "call":
            continue
    seen = set()
    work = [op_local(operand)]
    while work:
        l = work.pop()
        if l is None or l in seen:
            continue
        seen.add(l)
        if fn.locals[l].get("name") and fn.locals[l]["ty"].startswith("alloc::vec::Vec<"):
            return l
        for df in fn.defs().get(l, ()):
            if df["k"] == "call":
                a = df["t"]["args"][:1]
                for o in a:
                    work.append(op_local(o))
            elif df["rv"]["k"] in ("use", "cast"):
                work.append(op_local(df["rv"]["a"]))
            elif df["rv"]["k"] == "ref":
                work.append(df["rv"]["place"]["l"])
    return None


def _vec_filled_only_from(P, fn, vec_local, eff_pred):
    """Every element pushed into the local vector derives from a call performing `eff_pred`
    (and the vector starts empty)."""
    sl = Slice(fn)
    pushes = 0
    for b, t in fn.calls():
        cal = callee_of(t)
        if not t["args"]:
            continue
        recv = t["args"][0]
        rl = op_local(recv)
        if rl is None:
            continue
        # does the receiver borrow vec_local mutably?
        borrows = False
        for df in fn.defs().get(rl, ()):
            if df["k"] == "assign" and df["rv"]["k"] == "ref" and df["rv"]["place"]["l"] == vec_local and df["rv"].get("mut"):
                borrows = True
        if not borrows:
            continue
        if cal.endswith("::push") or cal.endswith("::extend") or cal.endswith("::insert") or cal.endswith("::append"):
            pushes += 1
            srcs = sl.sources(t["args"][-1])
            if not any(k[0] == "call" and P.call_reaches(k[2], eff_pred) for k in srcs):
                return False, "an element pushed at %s does not derive from a segment write" % Site(fn, b).loc()
    for df in fn.defs().get(vec_local, ()):
        if df["k"] == "call" and not callee_of(df["t"]).endswith("::new") and not df["partial"]:
            return False, "vector initialised from %s" % callee_of(df["t"])
    if pushes == 0:
        return False, "no push into the vector found"
    return True, "%d push site(s), all of segment-writer results" % pushes


def r01h(ctx, P):
    rid = "R01.h"
    import re
    ctx.rule(rid, "EXPLICIT FLUSH (no write error is swallowed by a destructor): every std::io::BufWriter / LineWriter created in the "
                  "non-test core is a local of a function that calls flush() (or into_inner()) on it with the result propagated, at a "
                  "site dominating every success return; a buffered writer stored in a struct (its tail would go out in Drop, which "
                  "discards the I/O error, so the following sync_all succeeds on a short file) is accepted only if the struct has a "
                  "method that flushes that field with the result propagated and every function constructing the struct calls it "
                  "before each of its success returns")
    n = 0
    CTOR = re.compile(r"std::io::(buffered::)?(bufwriter::)?BufWriter::<W>::(new|with_capacity)$|std::io::(buffered::)?(linewriter::)?LineWriter::<W>::(new|with_capacity)$")
    FLUSH = ("as std::io::Write>::flush", "BufWriter::<W>::into_inner", "BufWriter::<W>::into_parts", "LineWriter::<W>::into_inner")

    def flushes_propagated(g, recv_pred):
        """sites in g that flush something satisfying recv_pred and whose Result is not discarded"""
        from sa.rules.C03 import disposition
        out = []
        gs = Slice(g, through_all_calls=True)
        for b, t in g.calls():
            if callee_of(t).endswith(FLUSH) and t["args"] and recv_pred(g, gs, t["args"][0]):
                d = disposition(g, b, t)
                if d not in ("discarded",) and "discard" not in str(d):
                    out.append(Site(g, b))
        return out
    for q, f in sorted(P.fns.items()):
        if f.crate != "searchlite_core" or is_test_or_bench(f):
            continue
        for b, t in f.calls():
            if not CTOR.search(callee_of(t)):
                continue
            n += 1
            ctx.saw(f)
            w = t["dst"]["l"]
            # does the writer escape into an aggregate (struct literal / return value)?
            escapes = None
            for b2, i2, st in f.stmts():
                if st["k"] == "assign" and st["rv"]["k"] == "agg" and st["rv"].get("ak") == "adt":
                    for o in st["rv"]["ops"]:
                        if op_local(o) is not None and w in (Slice(f).locals(o) | {op_local(o)}):
                            escapes = (st["rv"].get("adt"), Site(f, b2, i2))
            ok = False
            why = ""
            if escapes is None:
                fl = flushes_propagated(f, lambda g, gs, o: w in (gs.locals(o) | {op_local(o)}))
                oks = ok_sites(f) or [Site(f, rb) for rb in f.reachable() if f.blocks[rb]["term"]["k"] == "return"]
                ok = bool(fl) and all(any(f.dominates(x, o) for x in fl) for o in oks)
                why = "is dropped on a success path without an explicit flush() whose error is propagated"
            else:
                adt_path, where = escapes
                adt = P.adts.get(adt_path)
                fname = None
                if adt:
                    names = [x[0] for x in adt["variants"][0]["fields"]]
                    st = f.blocks[where.b]["stmts"][where.i]
                    for k_, o in enumerate(st["rv"]["ops"]):
                        if op_local(o) is not None and w in (Slice(f).locals(o) | {op_local(o)}) and k_ < len(names):
                            fname = names[k_]
                finishers = []
                if fname:
                    for q2, g in P.fns.items():
                        if g.crate == "searchlite_core" and not is_test_or_bench(g) and g.arg_count >= 1 and adt_path.rsplit("::", 1)[-1] in g.arg_ty(1):
                            if flushes_propagated(g, lambda g_, gs, o, fname=fname: fname in gs.fields(o)):
                                finishers.append(q2)
                users_ok = bool(finishers)
                if finishers:
                    for q3, h in P.fns.items():
                        if h.crate != "searchlite_core" or is_test_or_bench(h):
                            continue
                        cons = [Site(h, hb) for hb, ht in h.calls() if callee_of(ht) == q]
                        if not cons:
                            continue
                        fins = [Site(h, hb) for hb, ht in h.calls() if callee_of(ht) in finishers]
                        oks = ok_sites(h)
                        if not (fins and all(any(h.dominates(x, o) for x in fins) for o in oks)):
                            users_ok = False
                ok = users_ok
                why = "is stored in %s.%s and goes out in Drop (no finishing method that flushes it with the error propagated is called by every constructor's caller)" % (
                    adt_path.rsplit("::", 1)[-1], fname or "?")
            ctx.ob(rid, "%s:%s:buffered-writer-flushed" % (rid, f.short), ok,
                   "the buffered writer created at %s is flushed explicitly before every success return" % Site(f, b).loc() if ok else
                   "the buffered writer created at %s %s: a failed write of the buffered tail is discarded by the destructor, the file "
                   "stays short, sync_all succeeds and the commit is acknowledged without its data" % (Site(f, b).loc(), why), Site(f, b).loc())
    ctx.floor(rid, n, 2, "buffered writers created in the core write path (segment meta, fast fields)")


def run(ctx, progs):
    P = progs.get("default")
    r01h(ctx, P)
    r01a(ctx, P)
    r01b(ctx, P)
    r01c(ctx, P)
    r01d(ctx, P)
    r01e(ctx, P)
    r01f(ctx, P)
    # R01.g = R02.e: a shortened log (rollback, batch rewind, torn-tail cut) is synced before success is returned — otherwise a
    # power loss resurrects discarded records and the next commit publishes them
    from sa.rules.C02 import r02e
    r02e(ctx, P, rid="R01.g")
    if ctx.tier == "thorough":
        ctx.config = "features"
        Pf = progs.get("features")
        r01a(ctx, Pf)
        r01b(ctx, Pf)
        r01d(ctx, Pf)
        r01f(ctx, Pf)
        ctx.config = "default"
    ctx.assumptions += [
        "Storage/StorageFile trait methods are the only storage primitives (who-may-call rules check that nothing bypasses them)",
        "fsync/rename have POSIX semantics; directory-entry durability of new segment files is provided by the directory "
        "fsync that follows the manifest rename (documented remark, not armed)",
        "dominance on the normal-control-flow CFG (unwind edges removed): panics are the subject of C16, not of path rules",
    ]
