"""C18 — collapse returns the best hit of each group (partial: the grouping skeleton of collapse_hits)."""
import re
from sa import names as N
from sa.prog import Site, Slice, TERM, callee_of, op_local, op_place, op_const, place_fields
from sa.rules.common import is_test_or_bench

EXPLANATION = ("Which documents share a collapse value and how they rank are runtime facts and are NOT decided. The grouping skeleton of "
               "IndexReader::collapse_hits is structural, each clause a necessary condition of the statement: (a) ONE PER VALUE — a "
               "group key enters the output order only under the miss arm of a contains_key test on the group map, and each group is "
               "taken out of the map (remove) when it is emitted; (b) BEST FIRST — each group's list is sorted with a comparator that "
               "compares (a.key, b.key) in that order (the request's sort key), the representative is the first element of that sorted "
               "list, and the inner hits are the REST of that same list (the same iterator), so they contain only members of the group "
               "and never the representative; (c) INNER SORT — when inner_hits has its own sort, the rest is re-sorted through "
               "resort_hits with the inner plan, whose comparator compares (a.0, b.0) in that order; (d) WINDOW — `from` is applied "
               "(drain of 0..from, or clear when from >= len) before `size` (truncate), both taken from the inner_hits configuration.")

COLLAPSE = N.READER + "::collapse_hits"
RESORT = N.READER + "::resort_hits"


def _cmp_closure_order(P, fn, sort_call, field):
    """The closure handed to sort_by compares <a>.field with <b>.field in (a, b) order: returns True / False / None (not found)."""
    sl = Slice(fn, through_all_calls=True)
    for a in sort_call["args"][1:]:
        for x in sl.sources(a):
            if x[0] == "agg" and x[3].get("closure"):
                g = P.fn(x[3]["closure"])
                if g is None:
                    continue
                gs = Slice(g, through_all_calls=True)
                for b, t in g.calls():
                    if re.search(r"::(cmp|partial_cmp|total_cmp)$", callee_of(t)) and len(t["args"]) == 2:
                        a0 = {y[1] for y in gs.sources(t["args"][0]) if y[0] == "arg"}
                        a1 = {y[1] for y in gs.sources(t["args"][1]) if y[0] == "arg"}
                        f0, f1 = gs.fields(t["args"][0]), gs.fields(t["args"][1])
                        if field in f0 and field in f1:
                            return a0 == {2} and a1 == {3}
    return None


def run(ctx, progs):
    P = progs.get("default")
    # private same-file helpers (a bucketing helper, a window helper) are spliced into the view; resort_hits stays a call (R18.c)
    f = P.inlined(COLLAPSE, depth=2, keep=(RESORT,))
    ctx.rule("R18.a", "ONE PER VALUE: in collapse_hits (private helpers inlined) the push of a group key onto the output order is controlled "
                      "by the miss arm of contains_key on the group map — or by the Vacant arm of its entry() — and the emitting loop "
                      "takes each group out of the map with `remove`")
    ctx.rule("R18.b", "BEST FIRST / SAME GROUP: the group's list is sorted by (a.key, b.key); the representative is `next()` of the sorted "
                      "list's iterator and the inner hits are `collect()` of that same iterator")
    ctx.rule("R18.c", "INNER SORT: a differing inner sort goes through resort_hits(rest, inner plan), which sorts by (a.0, b.0) keys built "
                      "with plan.build_key")
    ctx.rule("R18.d", "WINDOW: `from` (drain(0..from) / clear) is applied before `size` (truncate), both from the inner_hits configuration")
    if not ctx.anchor("R18.a", f, "IndexReader::collapse_hits"):
        return
    ctx.saw(f)
    sl = Slice(f, through_all_calls=True)
    sl0 = Slice(f)
    # ---- (a)
    pushes = [(b, t) for b, t in f.calls() if callee_of(t).endswith("Vec::<T, A>::push") and t["args"] and
              "String" in f.local_ty(op_local(t["args"][0]) or 0)]
    ok_a = False
    where = None
    for b, t in pushes:
        where = Site(f, b)
        for (a, succ) in f.control_deps_transitive(b):
            ta = f.blocks[a]["term"]
            if ta["k"] != "switch":
                continue
            if any(x[0] == "call" and re.search(r"Map(<[^>]*>|::<[^>]*>)::contains_key$", callee_of(x[2])) for x in sl0.sources(ta["on"])):
                vals = dict(zip(ta["values"], ta["targets"]))
                neg = any(d["k"] == "assign" and d["rv"]["k"] == "unop" for d in f.defs().get(op_local(ta["on"]), []))
                miss = (ta["otherwise"] if 0 in vals else vals.get(1)) if neg else vals.get(0)
                if succ == miss:
                    ok_a = True
            # `match map.entry(key) { Vacant(slot) => { order.push(..); slot.insert(..) } Occupied(..) => .. }`
            for x in sl0.sources(ta["on"]):
                if x[0] != "discr":
                    continue
                pl = f.blocks[x[1]]["stmts"][x[2]]["rv"]["place"]
                if not re.search(r"map::entry::Entry<|map::Entry<", f.local_ty(pl["l"])) or pl["p"]:
                    continue
                # the arm taken is the Vacant one: the entry is downcast to Vacant on the way to the push
                arm = f.reachable_from(succ, stop=[a])
                vac = occ = False
                for bb in arm:
                    if not f.dominates_block(succ, bb) or not (bb == b or b in f.reachable_from(bb)):
                        continue
                    for st_ in f.blocks[bb]["stmts"]:
                        txt = str(st_)
                        if st_["k"] == "assign" and "'downcast': 'Vacant'" in txt and ("'l': %d," % pl["l"]) in txt:
                            vac = True
                        if st_["k"] == "assign" and "'downcast': 'Occupied'" in txt and ("'l': %d," % pl["l"]) in txt:
                            occ = True
                if vac and not occ:
                    ok_a = True
    removes = [(b, t) for b, t in f.calls() if re.search(r"BTreeMap::<K, V(, A)?>::remove$|HashMap::<K, V, S(, A)?>::remove$", callee_of(t))]
    ctx.floor("R18.a", len(pushes), 1, "push onto the group order in collapse_hits")
    ctx.ob("R18.a", "R18.a:collapse_hits:one-group-per-value", ok_a and bool(removes),
           "a value enters the order once (contains_key miss) and its group is removed from the map when emitted" if ok_a and removes else
           "collapse_hits can emit a collapse value twice: %s" % ("the order push at %s is not guarded by a contains_key miss" % (where.loc() if where else "?")
                                                                if not ok_a else "groups are not removed from the map when emitted"),
           where.loc() if where else "%s:%s" % (f.file, f.line))
    # ---- (b)
    sorts = [(b, t) for b, t in f.calls() if re.search(r"::(sort_by|sort_unstable_by)$", callee_of(t))]
    nexts = [(b, t) for b, t in f.calls() if callee_of(t).endswith("Iterator>::next") and "IntoIter<searchlite_core::api::reader::RankedHit" in f.local_ty(op_local(t["args"][0]) or 0).replace("&mut ", "") and
             not any("ForLoop" in m for m in (t.get("macros") or []))]
    collects = [(b, t) for b, t in f.calls() if callee_of(t).endswith("Iterator::collect") and "RankedHit" in t.get("dst_ty", "")]
    ctx.floor("R18.b", min(len(sorts), len(nexts), len(collects)), 1, "sort_by / next() / collect() on a group's list")
    if sorts and nexts and collects:
        sb, st = sorts[0]
        order = _cmp_closure_order(P, f, st, "key")
        nb, nt = nexts[0]
        cb, ct = collects[0]

        def iter_root(o):
            l = op_local(o)
            seen = set()
            while l is not None and l not in seen:
                seen.add(l)
                if f.locals[l].get("name"):
                    return l
                nxt = None
                for d in f.defs().get(l, []):
                    if d["k"] == "assign" and d["rv"]["k"] == "ref":
                        nxt = d["rv"]["place"]["l"]
                    elif d["k"] == "assign" and d["rv"]["k"] in ("use", "cast"):
                        nxt = op_local(d["rv"]["a"])
                l = nxt
            return l
        same_iter = iter_root(nt["args"][0]) is not None and iter_root(nt["args"][0]) == iter_root(ct["args"][0])
        # the iterator comes from into_iter() of the sorted list
        it = iter_root(nt["args"][0])
        from_sorted = False
        sorted_list = None
        for x in sl0.sources(st["args"][0]):
            if x[0] == "field" or x[0] == "arg":
                pass
        srt_locals = sl0.locals(st["args"][0])
        if it is not None:
            for d in f.defs().get(it, []):
                if d["k"] == "call" and callee_of(d["t"]).endswith("IntoIterator>::into_iter"):
                    if sl0.locals(d["t"]["args"][0]) & {l for l in srt_locals if f.locals[l].get("name")}:
                        from_sorted = True
        after = nb in f.reachable_from(sb) and cb in f.reachable_from(nb)
        ok_b = order is True and same_iter and from_sorted and after
        why = []
        if order is not True:
            why.append("the group's list is not sorted by (a.key, b.key)")
        if not same_iter:
            why.append("representative and inner hits do not come from the same iterator")
        if not from_sorted:
            why.append("the iterator is not over the sorted list")
        if not after:
            why.append("sort / next / collect are not in that order")
        ctx.ob("R18.b", "R18.b:collapse_hits:representative-is-first-of-sorted-group", ok_b,
               "the representative is the first element of the group sorted by the request's key; the inner hits are the rest of that list" if ok_b else
               "collapse_hits: %s" % "; ".join(why), Site(f, sb).loc())
    # ---- (c)
    rs = [(b, t) for b, t in f.calls() if callee_of(t) == RESORT]
    g = P.fn(RESORT)
    ok_c = False
    if rs and g is not None:
        ctx.saw(g)
        rb, rt = rs[0]
        arg_plan_inner = any((f.locals[l].get("name") or "") == "inner_plan" for l in sl0.locals(rt["args"][2]))
        gsorts = [(b, t) for b, t in g.calls() if re.search(r"::(sort_by|sort_unstable_by)$", callee_of(t))]
        order_g = None
        for b, t in gsorts:
            gs = Slice(g, through_all_calls=True)
            for a in t["args"][1:]:
                for x in gs.sources(a):
                    if x[0] == "agg" and x[3].get("closure"):
                        h = P.fn(x[3]["closure"])
                        if h is None:
                            continue
                        hs = Slice(h, through_all_calls=True)
                        for hb, ht in h.calls():
                            if re.search(r"::(cmp|partial_cmp)$", callee_of(ht)) and len(ht["args"]) == 2:
                                a0 = {y[1] for y in hs.sources(ht["args"][0]) if y[0] == "arg"}
                                a1 = {y[1] for y in hs.sources(ht["args"][1]) if y[0] == "arg"}
                                order_g = a0 == {2} and a1 == {3}
        builds = any(callee_of(t).endswith("SortPlan::build_key") for h_ in [g] + P.closures_of(g) for b, t in h_.calls())
        ok_c = arg_plan_inner and order_g is True and builds
    ctx.ob("R18.c", "R18.c:collapse_hits:inner-sort", ok_c,
           "a differing inner sort re-sorts the rest with keys built by the inner plan, compared as (a, b)" if ok_c else
           "the inner hits are not re-sorted by resort_hits(rest, inner plan) with an (a, b) comparison of keys built by plan.build_key",
           Site(f, rs[0][0]).loc() if rs else "%s:%s" % (f.file, f.line))
    # ---- (d)
    drains = [(b, t) for b, t in f.calls() if callee_of(t).endswith("Vec::<T, A>::drain")]
    truncs = [(b, t) for b, t in f.calls() if callee_of(t).endswith("Vec::<T, A>::truncate")]
    ctx.floor("R18.d", min(len(drains), len(truncs)), 1, "drain (from) and truncate (size) of the inner hits")
    if drains and truncs:
        db, dt = drains[0]
        tb, tt = truncs[0]
        rng = None
        for x in sl0.sources(dt["args"][1]):
            if x[0] == "agg" and (x[3].get("adt") or "").endswith(("ops::range::Range", "ops::range::RangeTo")):
                rng = x[3]
        def reads_field(operand, name):
            if name in sl.fields(operand):
                return True
            for x in sl.sources(operand):
                if x[0] == "agg" and x[3].get("closure") and P.fn(x[3]["closure"]) is not None:
                    h = P.fn(x[3]["closure"])
                    for hb, hi, hst in h.stmts():
                        if hst["k"] == "assign":
                            rv = hst["rv"]
                            pl = rv.get("place") if rv["k"] in ("ref", "discr") else (op_place(rv["a"]) if rv["k"] in ("use", "cast") else None)
                            if pl and name in place_fields(pl):
                                return True
            return False
        if rng is not None and rng["adt"].endswith("RangeTo"):
            from_ok = reads_field(rng["ops"][0], "from")            # `..from` starts at 0 by construction
        else:
            from_ok = rng is not None and (op_const(rng["ops"][0]) or {}).get("int") == 0 and reads_field(rng["ops"][1], "from")
        size_ok = reads_field(tt["args"][1], "size")
        order_ok = tb in f.reachable_from(db) and db not in f.reachable_from(tb, stop=[b for b, t in f.calls() if any("ForLoop" in m for m in (t.get("macros") or []))])
        ok_d = from_ok and size_ok and order_ok
        ctx.ob("R18.d", "R18.d:collapse_hits:from-then-size", ok_d,
               "inner hits: drain(0..from) then truncate(size)" if ok_d else
               "the inner-hit window is not `from` (drain of 0..from) followed by `size` (truncate): %s" % (
                   "drain range is not 0..from" if not from_ok else "truncate is not to inner_hits.size" if not size_ok else "size is applied before from"),
               Site(f, db).loc())
    # ---- (e) one global sort in resort_hits
    ctx.rule("R18.e", "ONE SORT (the inner hits are ordered as a whole): in resort_hits the sort that orders the result is applied once, "
                      "outside every loop, to the list the return value is built from, and nothing is combined into that list afterwards "
                      "(extend / append / chain / flatten / flat_map / concat): sorting per segment (or per any sub-list) and "
                      "concatenating orders the inner hits only within each part")
    if g is not None:
        from sa.rules.C25 import natural_loops
        gl = natural_loops(g)
        gsorts2 = [(b, t) for h_ in [g] for b, t in h_.calls() if re.search(r"::(sort_by|sort_unstable_by|sort_by_key|sort_by_cached_key|sort|sort_unstable)$", callee_of(t))]
        in_loop = [b for b, t in gsorts2 if any(b in body for h, body in gl)]
        COMB = r"::(extend|append|chain|flatten|flat_map|concat|extend_from_slice|flat_map)$"
        after = []
        for b, t in gsorts2:
            for b2, t2 in g.calls():
                if re.search(COMB, callee_of(t2)) and b2 in g.reachable_from(b) and b2 != b:
                    after.append((b2, callee_of(t2)))
        # closures of resort_hits sorting sub-lists
        clos_sorts = [(c_, b) for c_ in P.closures_of(g) for b, t in c_.calls()
                      if re.search(r"::(sort_by|sort_unstable_by|sort_by_key|sort|sort_unstable)$", callee_of(t))]
        gs2 = Slice(g, through_all_calls=True)
        ret_from_sorted = False
        for b, t in gsorts2:
            names = {l for l in Slice(g).locals(t["args"][0]) if g.locals[l].get("name")}
            for d in g.defs().get(0, []):
                ops = d["t"]["args"] if d["k"] == "call" else d["rv"].get("ops", [d["rv"].get("a")])
                for o in ops:
                    if o is not None and isinstance(o, dict) and names & gs2.locals(o):
                        ret_from_sorted = True
        ok_e = len(gsorts2) == 1 and not in_loop and not after and not clos_sorts and ret_from_sorted
        ctx.ob("R18.e", "R18.e:resort_hits:one-global-sort", ok_e,
               "resort_hits sorts the whole list once and returns it in that order" if ok_e else
               "resort_hits does not order the inner hits as a whole: %s" % (
                   "the sort runs inside a loop (per sub-list)" if in_loop or clos_sorts else
                   "%d sorts" % len(gsorts2) if len(gsorts2) != 1 else
                   "lists are combined after the sort (%s)" % after[0][1].rsplit("::", 1)[-1] if after else
                   "the value returned is not built from the sorted list"), "%s:%s" % (g.file, g.line))
    ctx.assumptions += ["the hit list handed to collapse_hits is sorted by the request's sort key (C10 / C11)",
                        "collapse_value returns the single keyword value of the hit's document (or an error for multi-valued fields)"]
