"""C08 — filters follow the documented filter semantics (partial: four structural clauses)."""
import re
from sa import names as N
from sa.prog import Site, Slice, TERM, callee_of, op_local, op_place, op_const, place_fields
from sa.rules.common import is_test_or_bench

EXPLANATION = ("Which documents pass a filter tree is a runtime question and is NOT decided. Four clauses of the statement are visible "
               "in the shape of the code and are genuine necessary conditions: (a) keyword equality / membership is case-insensitive — "
               "every string comparison made while evaluating KeywordEq / KeywordIn (flat columns and nested objects) goes through the "
               "one case-insensitive comparator, which lower-cases both sides when not ASCII; no direct `==` on the strings; "
               "(b) numeric ranges are inclusive on both ends — every comparison of a column value with the filter's min / max, on "
               "every column layout of both numeric types and in the nested-object path, is `>=` resp. `<=` (sibling agreement over "
               "all sites); (c) a nested clause is evaluated per object of the bound parent — the per-object recursion passes the "
               "object index it iterates, and objects whose recorded parent differs from the enclosing binding are skipped (as an "
               "in-loop guard, or as a parent-comparing filter on every candidate list produced while a binding exists); (d) on the "
               "writer side the objects of one nested path are numbered in one index space per document: the count recorded and the "
               "object indices handed on continue from the count already recorded for the path.")

FILTERS = "searchlite_core::query::filters::"
FF = "searchlite_core::index::fastfields::"
CIE = FF + "case_insensitive_equals"
STR_EQ = ("core::str::traits::<impl core::cmp::PartialEq for str>::eq", "core::str::traits::<impl core::cmp::PartialEq for str>::ne",
          "<alloc::string::String as core::cmp::PartialEq>::eq", "<alloc::string::String as core::cmp::PartialEq>::ne",
          "<alloc::string::String as core::cmp::PartialEq<str>>::eq", "<alloc::string::String as core::cmp::PartialEq<&str>>::eq",
          "core::str::<impl str>::eq_ignore_ascii_case")


def with_closures(P, f):
    return [f] + P.closures_of(f)


def r08a(ctx, P):
    rid = "R08.a"
    ctx.rule(rid, "AGREE: FastFieldsReader::matches_keyword / matches_keyword_in and the KeywordEq / KeywordIn arms of filter_matches "
                  "compare strings only through case_insensitive_equals (no direct str/String ==, no eq_ignore_ascii_case of their own); "
                  "case_insensitive_equals lower-cases both operands on its non-ASCII path")
    sites = 0
    for name in ("FastFieldsReader::matches_keyword", "FastFieldsReader::matches_keyword_in"):
        f = P.fn(FF + name)
        if not ctx.anchor(rid, f, name):
            continue
        fs = with_closures(P, f)
        cie = direct = 0
        bad = None
        for g in fs:
            ctx.saw(g)
            for b, t in g.calls():
                cal = callee_of(t)
                if cal == CIE:
                    cie += 1
                elif cal in STR_EQ:
                    direct += 1
                    bad = bad or Site(g, b)
        sites += cie
        ctx.ob(rid, "%s:%s" % (rid, name), cie >= 2 and direct == 0,
               "%s compares through case_insensitive_equals at %d site(s) and nowhere else" % (name, cie) if cie >= 2 and direct == 0 else
               "%s compares keyword values %s" % (name, ("directly at %s (case-sensitive)" % bad.loc()) if direct else "without the case-insensitive comparator"),
               "%s:%s" % (f.file, f.line))
    fm = P.fn(FILTERS + "filter_matches")
    if ctx.anchor(rid, fm, "filters::filter_matches"):
        cie = direct = 0
        bad = None
        for g in with_closures(P, fm):
            ctx.saw(g)
            for b, t in g.calls():
                cal = callee_of(t)
                if cal == CIE:
                    cie += 1
                elif cal in STR_EQ:
                    direct += 1
                    bad = bad or Site(g, b)
        sites += cie
        ctx.ob(rid, "%s:filter_matches:nested-keyword" % rid, cie >= 2 and direct == 0,
               "the nested-object keyword paths compare through case_insensitive_equals (%d sites)" % cie if cie >= 2 and direct == 0 else
               "filter_matches compares keyword values %s" % (("directly at %s" % bad.loc()) if direct else "without the case-insensitive comparator"),
               "%s:%s" % (fm.file, fm.line))
    ctx.floor(rid, sites, 6, "case_insensitive_equals call sites in keyword filter evaluation")
    c = P.fn(CIE)
    if ctx.anchor(rid, c, "case_insensitive_equals"):
        ctx.saw(c)
        lows = [b for b, t in c.calls() if callee_of(t).endswith("str>::to_lowercase") or callee_of(t).endswith("::to_lowercase")]
        eic = [b for b, t in c.calls() if callee_of(t).endswith("::eq_ignore_ascii_case")]
        ok = len(lows) >= 2 and len(eic) >= 1
        ctx.ob(rid, "%s:case_insensitive_equals:both-sides" % rid, ok,
               "case_insensitive_equals folds case on both operands (ASCII fast path, to_lowercase x2 otherwise)" if ok else
               "case_insensitive_equals no longer folds case on both operands", "%s:%s" % (c.file, c.line))


def bound_name(P, f, operand):
    """'min' / 'max' if the operand derives from the filter bound of that name (parameter, upvar or pattern binding)."""
    l = op_local(operand)
    seen = set()
    while l is not None and l not in seen:
        seen.add(l)
        nm = f.locals[l].get("name") if not f.locals[l].get("inlined") else None     # a helper's own parameter names prove nothing
        if nm in ("min", "max"):
            return nm
        if 1 <= l <= f.arg_count:
            return nm if nm in ("min", "max") else None
        dfs = [d for d in f.defs().get(l, []) if not d["partial"]]
        if len(dfs) != 1 or dfs[0]["k"] != "assign":
            return None
        rv = dfs[0]["rv"]
        pl = op_place(rv["a"]) if rv["k"] in ("use", "cast") else (rv["place"] if rv["k"] == "ref" else None)
        if pl is None:
            return None
        for e in pl["p"]:
            if isinstance(e, dict) and "f" in e:
                base = e["f"].replace("upvar:", "").replace("*", "")
                if base in ("min", "max"):
                    return base
        l = pl["l"]
    return None


def r08b(ctx, P):
    rid = "R08.b"
    ctx.rule(rid, "AGREE: every comparison of a column value with a range filter's bound — in matches_i64_range, matches_f64_range "
                  "(all column layouts) and in the nested-object arms of filter_matches — is `value >= min` / `value <= max` (or the "
                  "mirrored form); no strict comparison involves a bound")
    n = 0
    roots = []
    for name in ("FastFieldsReader::matches_i64_range", "FastFieldsReader::matches_f64_range"):
        f = P.fn(FF + name)
        if ctx.anchor(rid, f, name):
            roots.append(f)
    fm = P.fn(FILTERS + "filter_matches")
    if fm is not None:
        roots.append(fm)
    for r in roots:
        per = {"min": 0, "max": 0}
        bad = None
        for g0 in with_closures(P, r):
            g = P.inlined(g0.path, depth=1, small=30) or g0       # a generic `within(v, min, max)` helper is read in place
            cmps = []
            for b, i, s in g.stmts():
                if s["k"] == "assign" and s["rv"]["k"] == "binop" and s["rv"]["op"] in ("Ge", "Gt", "Le", "Lt"):
                    cmps.append((b, i, s["rv"]["op"], s["rv"]["a"], s["rv"]["b"]))
            for b, t in g.calls():
                m = re.search(r"PartialOrd(<[^>]*>)?>?::(ge|gt|le|lt)$", callee_of(t))
                if m and len(t["args"]) == 2:
                    cmps.append((b, TERM, m.group(2).capitalize(), t["args"][0], t["args"][1]))
            for b, i, op, a, bb in cmps:
                na, nb = bound_name(P, g, a), bound_name(P, g, bb)
                if na is None and nb is None:
                    continue
                if nb is not None and na is None:      # value OP bound
                    want = "Ge" if nb == "min" else "Le"
                    which = nb
                elif na is not None and nb is None:    # bound OP value
                    want = "Le" if na == "min" else "Ge"
                    which = na
                else:
                    continue
                n += 1
                per[which] += 1
                if op != want:
                    bad = bad or (Site(g, b, i), which, op)
        label = r.short.split("::")[-1]
        ok = bad is None and per["min"] >= 1 and per["max"] >= 1
        ctx.saw(r)
        ctx.ob(rid, "%s:%s" % (rid, label), ok,
               "%s: %d comparisons with min (>=) and %d with max (<=), all inclusive" % (label, per["min"], per["max"]) if ok else
               ("%s compares with `%s` using %s at %s: the range is not inclusive at that end" % (label, bad[1], bad[2], bad[0].loc()) if bad else
                "%s: no comparison with min/max found (%s)" % (label, per)), bad[0].loc() if bad else "%s:%s" % (r.file, r.line))
    ctx.floor(rid, n, 16, "comparisons of column values with range bounds")


def r08c(ctx, P):
    rid = "R08.c"
    ctx.rule(rid, "GUARD: in nested_group_passes the recursive evaluation receives Some(<the iterated object index>); when an enclosing "
                  "binding exists, an object whose recorded parent (nested_parents) differs from it is skipped before the recursion; a "
                  "document without objects at the path does not pass")
    for fname in ("nested_group_passes", "nested_filter_passes"):
        _r08c_one(ctx, P, rid, fname)


def _r08c_one(ctx, P, rid, fname):
    f = P.fn(FILTERS + fname)
    if not ctx.anchor(rid, f, "filters::" + fname):
        return
    ctx.saw(f)
    sl = Slice(f, through_all_calls=True)
    rec = [(b, t) for b, t in f.calls() if callee_of(t) in (FILTERS + "passes_filters_at", FILTERS + "filter_matches")]
    if not rec:
        # iterator form: the per-object evaluation sits in a closure handed to any()/find()/... over the candidate objects
        n = _r08c_adapter_form(ctx, P, rid, fname, f)
        ctx.floor(rid + "." + fname, n, 1, "per-object recursion in " + fname + " (loop or iterator form)")
        return
    ctx.floor(rid + "." + fname, len(rec), 1, "per-object recursion in " + fname)
    for b, t in rec:
        idx_src = sl.sources(t["args"][4])
        some_idx = any(x[0] == "agg" and x[3].get("adt") == "core::option::Option" and x[3].get("variant") == "Some" for x in idx_src)
        from_loop = any(x[0] == "call" and "ops::range::Range" in callee_of(x[2]) and callee_of(x[2]).endswith("::next") for x in idx_src)
        ctx.ob(rid, "%s:%s:recursion-binds-iterated-object" % (rid, fname), some_idx and from_loop,
               "the recursion evaluates the clause group against Some(idx) of the loop over the document's objects" if some_idx and from_loop else
               "the per-object recursion does not bind the iterated object index", Site(f, b).loc())
        # parent check: a `ne` between nested_parents-derived value and the parent_idx parameter, whose true arm avoids the recursion
        ok = False
        where = None
        for b2, t2 in f.calls():
            if not callee_of(t2).endswith(("PartialEq::ne", "PartialEq::eq")):
                continue
            srcs = []
            for a in t2["args"]:
                srcs += sl.sources(a)
            from_parents = any(x[0] == "call" and callee_of(x[2]).endswith("FastFieldsReader::nested_parents") for x in srcs)
            named = set()
            for a in t2["args"]:
                named |= _named_in(f, a)
            from_binding = "parent_idx" in named or any(x[0] == "arg" and (f.locals[x[1]].get("name") == "parent_idx") for x in srcs) or \
                any(_derives_from_param(f, l, "parent_idx") for l in _named_locals(f, t2["args"]))
            if not (from_parents and from_binding):
                continue
            res = t2["dst"]["l"]
            for b3 in f.reachable():
                t3 = f.blocks[b3]["term"]
                if t3["k"] == "switch" and op_local(t3["on"]) == res:
                    vals = dict(zip(t3["values"], t3["targets"]))
                    ne = callee_of(t2).endswith("::ne")
                    differs = (t3["otherwise"] if 0 in vals else vals.get(1)) if ne else vals.get(0)
                    nexts = [x for x, tt in f.calls() if "ops::range::Range" in callee_of(tt) and callee_of(tt).endswith("::next")]
                    # when a binding exists (Some arm of the test on parent_idx) every path to the recursion passes this test
                    some_arms = []
                    for b4 in f.reachable():
                        t4 = f.blocks[b4]["term"]
                        if t4["k"] == "switch":
                            for d4 in f.defs().get(op_local(t4["on"]), []):
                                if d4["k"] == "assign" and d4["rv"]["k"] == "discr" and _derives_from_param(f, d4["rv"]["place"]["l"], "parent_idx"):
                                    v4 = dict(zip(t4["values"], t4["targets"]))
                                    if v4.get(1) is not None:
                                        some_arms.append(v4[1])
                    guarded = bool(some_arms) and all(f.cfg_path(sa_, b, avoid=[b3] + nexts) is None for sa_ in some_arms)
                    if differs is not None and b not in f.reachable_from(differs, stop=nexts) and (f.dominates_block(b3, b) or guarded):
                        ok = True
                        where = Site(f, b2).loc()
        ctx.ob(rid, "%s:%s:foreign-parent-skipped" % (rid, fname), ok,
               "objects whose parent differs from the enclosing binding are skipped (test at %s)" % where if ok else
               "%s does not skip objects that belong to a different parent object" % fname, where or Site(f, b).loc())
    # no objects => false
    cnt = [(b, t) for b, t in f.calls() if callee_of(t).endswith("FastFieldsReader::nested_object_count")]
    okz = False
    for b, t in cnt:
        res = t["dst"]["l"]
        for b3 in f.reachable():
            t3 = f.blocks[b3]["term"]
            if t3["k"] != "switch":
                continue
            l = op_local(t3["on"])
            for d in f.defs().get(l, []):
                if d["k"] == "assign" and d["rv"]["k"] == "binop" and d["rv"]["op"] == "Eq" and op_local(d["rv"]["a"]) is not None and \
                        (op_const(d["rv"]["b"]) or {}).get("int") == 0 and res in _copy_roots(f, op_local(d["rv"]["a"])):
                    vals = dict(zip(t3["values"], t3["targets"]))
                    zero_arm = t3["otherwise"] if 0 in vals else vals.get(1)
                    for s in f.blocks[zero_arm]["stmts"]:
                        if s["k"] == "assign" and s["dst"]["l"] == 0 and (op_const(s["rv"].get("a", {})) or {}).get("int") == 0:
                            okz = True
    ctx.ob(rid, "%s:%s:no-objects-no-match" % (rid, fname), okz, "a document with no object at the nested path does not pass" if okz else
           "%s does not return false for a document without objects at the path" % fname, "%s:%s" % (f.file, f.line))


def _is_parent_filter(P, fn, agg):
    """agg = closure aggregate built in fn: does the closure compare the recorded parent of an object with the binding?
    Its captures must include a value derived from FastFieldsReader::nested_parents and one derived from the parent binding,
    and its body must contain an equality test."""
    g = P.fn(agg.get("closure"))
    if g is None:
        return False
    sl = Slice(fn, through_all_calls=True)
    from_parents = from_binding = False
    for o in agg["ops"]:
        srcs = sl.sources(o)
        if any(x[0] == "call" and callee_of(x[2]).endswith("FastFieldsReader::nested_parents") for x in srcs):
            from_parents = True
        l = op_local(o)
        if any(x[0] == "arg" and (fn.locals[x[1]].get("name") or "").startswith("parent") for x in srcs) or \
                (l is not None and (_derives_from_param(fn, l, "parent_idx") or "parent_idx" in _named_in(fn, o) or "parent" in _named_in(fn, o))) or \
                any(x[0] == "field" and (fn.locals[x[1]].get("name") or "").startswith("parent") for x in srcs):
            from_binding = True
    has_eq = any(callee_of(t).endswith(("PartialEq::eq", "PartialEq::ne", "PartialEq<U>>::eq", "PartialEq<U>>::ne")) or "PartialEq" in callee_of(t)
                 for h in [g] + P.closures_of(g) for b, t in h.calls()) or \
        any(st["k"] == "assign" and st["rv"]["k"] == "binop" and st["rv"]["op"] in ("Eq", "Ne") for h in [g] + P.closures_of(g) for b, i, st in h.stmts())
    return from_parents and from_binding and has_eq


def _chain_has_parent_filter(P, fn, operand):
    sl = Slice(fn, through_all_calls=True)
    for x in sl.sources(operand):
        if x[0] == "call" and callee_of(x[2]).endswith(("Iterator::filter", "Iterator::filter_map", "Iterator::take_while", "Iterator::skip_while")):
            for a in x[2]["args"][1:]:
                for y in sl.sources(a):
                    if y[0] == "agg" and y[3].get("closure") and _is_parent_filter(P, fn, y[3]):
                        return True
    return False


def _none_arm_blocks(fn, pname="parent_idx"):
    """Blocks that run only when the parent binding parameter is None."""
    out = set()
    for b in fn.reachable():
        t = fn.blocks[b]["term"]
        if t["k"] != "switch":
            continue
        for d in fn.defs().get(op_local(t["on"]), []):
            if d["k"] == "assign" and d["rv"]["k"] == "discr" and _derives_from_param(fn, d["rv"]["place"]["l"], pname):
                vals = dict(zip(t["values"], t["targets"]))
                none = vals.get(0) if 0 in vals else (t.get("otherwise") if 1 in vals else None)
                some = vals.get(1) if 1 in vals else (t.get("otherwise") if 0 in vals else None)
                if none is not None:
                    reach_none = fn.reachable_from(none)
                    reach_some = fn.reachable_from(some) if some is not None else set()
                    out |= {x for x in reach_none if x not in reach_some}
    return out


def _r08c_adapter_form(ctx, P, rid, fname, f):
    """The candidates come from an iterator chain (or from a helper returning them) and the evaluation is the closure of
    any()/find()/all()/position().  Decided positively only: a violation needs a concrete unfiltered source."""
    n = 0
    for g in P.closures_of(f):
        rec = [(b, t) for b, t in g.calls() if callee_of(t) in (FILTERS + "passes_filters_at", FILTERS + "filter_matches")]
        if not rec:
            continue
        par = P.fn(g.parent)
        sl = Slice(par, through_all_calls=True)
        gsl = Slice(g, through_all_calls=True)
        for b, t in rec:
            n += 1
            idx_src = gsl.sources(t["args"][4])
            binds = any(x[0] == "agg" and x[3].get("adt") == "core::option::Option" and x[3].get("variant") == "Some" for x in idx_src) and \
                any(x[0] == "arg" and x[1] >= 2 for x in idx_src)
            ctx.ob(rid, "%s:%s:recursion-binds-iterated-object" % (rid, fname), binds,
                   "the evaluation closure binds Some(<its element>)" if binds else "the per-object evaluation does not bind the element it is given",
                   Site(g, b).loc())
            # adapter call(s) in the parent that receive this closure
            verdict = None
            where = None
            why = "the candidate objects do not come from a recognised source"
            for pb, pt in par.calls():
                if not any(y[0] == "agg" and y[3].get("closure") == g.path for a in pt["args"][1:] for y in sl.sources(a)):
                    continue
                recv = pt["args"][0]
                where = Site(par, pb).loc()
                if _chain_has_parent_filter(P, par, recv):
                    # the filter must not be bypassed when a binding exists: it is, if another definition of the chain lacks it
                    verdict = True
                    continue
                if callee_of(pt) in P.fns and P.fns[callee_of(pt)].crate == "searchlite_core":
                    # the closure is handed to a function of the crate that decides which objects it is called for
                    cv = _r08c_callable_form(ctx, P, f, par, pb, pt, g)
                    if cv is not None:
                        verdict = cv[0]
                        if not cv[0]:
                            why = cv[1]
                        continue
                # helpers that RETURN the candidate indices (a collection or iterator of usize), not any function mentioned on the way
                helpers = [x for x in sl.sources(recv) if x[0] == "call" and callee_of(x[2]) in P.fns and
                           P.fns[callee_of(x[2])].crate == "searchlite_core" and callee_of(x[2]).startswith(FILTERS) and
                           re.search(r"usize", (P.fns[callee_of(x[2])].ret_ty or "")) and
                           re.search(r"Vec<|Iterator|\[usize|SmallVec|Range", (P.fns[callee_of(x[2])].ret_ty or ""))]
                for x in helpers:
                    h = P.fns[callee_of(x[2])]
                    ctx.saw(h)
                    exempt = _none_arm_blocks(h)
                    hv = True
                    for d0 in h.defs().get(0, []):
                        if d0["b"] in exempt:
                            continue
                        ops = d0["t"]["args"] if d0["k"] == "call" else ([d0["rv"]["a"]] if d0["rv"]["k"] in ("use", "cast") else d0["rv"].get("ops", []))
                        if not any(_chain_has_parent_filter(P, h, o) for o in ops if isinstance(o, dict) and op_local(o) is not None):
                            hv = False
                            why = "%s returns candidates at %s that are not filtered by their recorded parent although a binding exists" % (
                                h.short, Site(h, d0["b"], d0.get("i", TERM)).loc())
                    if verdict is None or not hv:
                        verdict = hv
            if verdict is None:
                ctx.note("R08.c: %s: candidate source at %s not recognised; parent binding not decided for this shape" % (fname, where))
                continue
            ctx.ob(rid, "%s:%s:foreign-parent-skipped" % (rid, fname), verdict,
                   "candidates are filtered by their recorded parent whenever a binding exists (%s)" % where if verdict else
                   "%s: %s" % (fname, why), where or Site(g, b).loc())
    return n


def _r08c_callable_form(ctx, P, f, par, pb, pt, g):
    """`candidates.any(|idx| recurse(.., Some(idx)))` where `any` is a function of the crate: follow the callable.
    Returns (True, "") when every invocation of the callable inside that function is guarded by a parent test on the value it is
    invoked with, (False, why) when an invocation is found that is not, None when the shape is not recognised."""
    F = P.fns[callee_of(pt)]
    psl = Slice(par, through_all_calls=True)
    pos = None
    for j, a in enumerate(pt["args"]):
        if any(y[0] == "agg" and y[3].get("closure") == g.path for y in psl.sources(a)):
            pos = j
    if pos is None:
        return None
    pname = F.locals[pos + 1].get("name") if pos + 1 < len(F.locals) else None
    invs = []
    for h in [F] + P.closures_of(F):
        hs = Slice(h, through_all_calls=True)
        for b, t in h.calls():
            if not callee_of(t).endswith(("FnMut::call_mut", "Fn::call", "FnOnce::call_once")) or len(t["args"]) < 2:
                continue
            src = hs.sources(t["args"][0])
            is_param = any(x[0] == "arg" and x[1] == pos + 1 for x in src) if h is F else \
                any(x[0] == "field" and any(str(z).replace("upvar:", "").lstrip("*") == pname for z in x[2]) for x in src)
            if is_param:
                invs.append((h, b, t))
    if not invs:
        return None
    for h, b, t in invs:
        ctx.saw(h)
        hs0 = Slice(h)
        hs = Slice(h, through_all_calls=True)
        v_roots = {x[1] for x in hs.sources(t["args"][1]) if x[0] == "arg" and x[1] >= 2}
        guarded = False
        for (a, succ) in h.control_deps_transitive(b):
            ta = h.blocks[a]["term"]
            if ta["k"] != "switch":
                continue
            vals = dict(zip(ta["values"], ta["targets"]))
            true_succ = ta.get("otherwise") if 0 in vals else vals.get(1)
            if succ != true_succ:
                continue
            for x in hs0.sources(ta["on"]):
                if x[0] != "call":
                    continue
                G = P.fns.get(callee_of(x[2]))
                if G is None or G.crate != "searchlite_core":
                    continue
                # the guard is asked about the same value
                same = any({y[1] for y in hs.sources(a_) if y[0] == "arg" and y[1] >= 2} & v_roots for a_ in x[2]["args"][1:])
                if same and _is_parent_guard(P, G, f):
                    ctx.saw(G)
                    guarded = True
        if not guarded:
            return (False, "%s invokes the per-object evaluation at %s for objects that were not tested against the bound parent" % (
                F.short, Site(h, b).loc()))
    return (True, "")


def _is_parent_guard(P, G, caller):
    """G(self, idx) -> bool returns true only (a) on the None arm of a test of an Option<usize> field of self (no binding), or (b) as
    the result of comparing that field with the recorded parent of idx (a Vec<Option<usize>> field of self, read at idx); and every
    construction of self's type fills the parents field from FastFieldsReader::nested_parents and the binding from a parameter that
    `caller` feeds with its own parent binding."""
    gs = Slice(G, through_all_calls=True)
    gs0 = Slice(G)
    self_ty = G.local_ty(1).lstrip("&").strip()
    adt = P.adts.get(self_ty)
    if adt is None or len(adt["variants"]) != 1:
        return False
    fields = {x[0]: x[1] for x in adt["variants"][0]["fields"]}
    bind_f = [n for n, ty in fields.items() if re.fullmatch(r"core::option::Option<usize>", ty)]
    par_f = [n for n, ty in fields.items() if "Vec<core::option::Option<usize>>" in ty]
    if len(bind_f) != 1 or len(par_f) != 1:
        return False
    bind_f, par_f = bind_f[0], par_f[0]
    # definitions of the result
    ok_defs = True
    n_cmp = 0
    for d in G.defs().get(0, []):
        if d["k"] == "assign" and d["rv"]["k"] == "use" and (op_const(d["rv"]["a"]) or {}).get("int") == 1:
            # `true`: only on the None arm of the binding
            arm = False
            for (a, succ) in G.control_deps_transitive(d["b"]):
                ta = G.blocks[a]["term"]
                if ta["k"] == "switch" and bind_f in gs0.fields(ta["on"]) and any(x[0] == "discr" for x in gs0.sources(ta["on"])):
                    vals = dict(zip(ta["values"], ta["targets"]))
                    if succ == vals.get(0, ta.get("otherwise") if 0 not in vals else None):
                        arm = True
            ok_defs = ok_defs and arm
        elif d["k"] == "assign" and d["rv"]["k"] == "use" and (op_const(d["rv"]["a"]) or {}).get("int") == 0:
            continue
        elif d["k"] == "call" and callee_of(d["t"]).endswith(("PartialEq>::eq", "PartialEq::eq")) or \
                (d["k"] == "call" and re.search(r"PartialEq(<[^>]*>)?>?::eq$", callee_of(d["t"]))):
            a0, a1 = d["t"]["args"][0], d["t"]["args"][1]
            f0, f1 = gs.fields(a0), gs.fields(a1)
            idx0 = any(x[0] == "arg" and x[1] == 2 for x in gs.sources(a0))
            idx1 = any(x[0] == "arg" and x[1] == 2 for x in gs.sources(a1))
            good = (par_f in f0 and idx0 and bind_f in f1) or (par_f in f1 and idx1 and bind_f in f0)
            ok_defs = ok_defs and good
            n_cmp += 1
        else:
            ok_defs = False
    if not ok_defs or n_cmp < 1:
        return False
    # constructions of the type
    built = 0
    for q, h in P.fns.items():
        if h.crate != "searchlite_core":
            continue
        for b, i, st in h.stmts():
            if st["k"] == "assign" and st["rv"]["k"] == "agg" and st["rv"].get("adt") == self_ty:
                built += 1
                names = [x[0] for x in adt["variants"][0]["fields"]]
                hsl = Slice(h, through_all_calls=True)
                po = st["rv"]["ops"][names.index(par_f)]
                bo = st["rv"]["ops"][names.index(bind_f)]
                if not any(x[0] == "call" and callee_of(x[2]).endswith("FastFieldsReader::nested_parents") for x in hsl.sources(po)):
                    return False
                bargs = {x[1] for x in hsl.sources(bo) if x[0] == "arg"}
                if not bargs or any(x[0] in ("agg", "call") for x in Slice(h).sources(bo)):
                    return False
                # the constructor's callers in `caller` pass their own binding
                for cb, ct in caller.calls():
                    if callee_of(ct) == h.path:
                        csl = Slice(caller, through_all_calls=True)
                        for k in bargs:
                            if k - 1 < len(ct["args"]):
                                if not any(x[0] == "arg" and caller.locals[x[1]].get("name") == "parent_idx" for x in csl.sources(ct["args"][k - 1])):
                                    return False
    return built >= 1


def _named_in(f, operand, depth=0):
    """Names of user variables an operand is built from (through refs, uses, aggregates)."""
    out = set()
    work = [op_local(operand)]
    seen = set()
    while work:
        l = work.pop()
        if l is None or l in seen:
            continue
        seen.add(l)
        if f.locals[l].get("name"):
            out.add(f.locals[l]["name"])
        for d in f.defs().get(l, []):
            if d["k"] != "assign":
                continue
            rv = d["rv"]
            if rv["k"] in ("use", "cast"):
                work.append(op_local(rv["a"]))
            elif rv["k"] in ("ref", "discr"):
                work.append(rv["place"]["l"])
            elif rv["k"] == "agg":
                for o in rv["ops"]:
                    work.append(op_local(o))
    return out


def _named_locals(f, args):
    out = set()
    for a in args:
        work = [op_local(a)]
        seen = set()
        while work:
            l = work.pop()
            if l is None or l in seen:
                continue
            seen.add(l)
            if f.locals[l].get("name"):
                out.add(l)
            for d in f.defs().get(l, []):
                if d["k"] != "assign":
                    continue
                rv = d["rv"]
                if rv["k"] in ("use", "cast"):
                    work.append(op_local(rv["a"]))
                elif rv["k"] in ("ref", "discr"):
                    work.append(rv["place"]["l"])
                elif rv["k"] == "agg":
                    for o in rv["ops"]:
                        work.append(op_local(o))
    return out


def _derives_from_param(f, l, pname):
    """Is local l bound from (a projection of) the parameter named pname?"""
    seen = set()
    work = [l]
    while work:
        x = work.pop()
        if x is None or x in seen:
            continue
        seen.add(x)
        if f.locals[x].get("name") == pname:
            return True
        for d in f.defs().get(x, []):
            if d["k"] == "assign" and d["rv"]["k"] in ("use", "cast"):
                pl = op_place(d["rv"]["a"])
                if pl:
                    work.append(pl["l"])
            elif d["k"] == "assign" and d["rv"]["k"] == "ref":
                work.append(d["rv"]["place"]["l"])
    return False


def _locals(srcs):
    out = set()
    for x in srcs:
        if x[0] in ("arg", "field"):
            out.add(x[1])
    return out


def _copy_roots(f, l):
    out = set()
    seen = set()
    while l is not None and l not in seen:
        seen.add(l)
        out.add(l)
        dfs = f.defs().get(l, [])
        if len(dfs) == 1 and dfs[0]["k"] == "assign" and dfs[0]["rv"]["k"] == "use":
            l = op_local(dfs[0]["rv"]["a"])
        else:
            break
    return out


def r08d(ctx, P):
    rid = "R08.d"
    ctx.rule(rid, "FLOW (writer side of the parent binding): the objects of one nested path share one index space per document, and "
                  "collect_nested runs once per PARENT object. So the count it records for the path, and every object index it hands "
                  "to collect_nested_object, must derive from the count already recorded for that path (a read of `nested_counts`): a "
                  "count or index computed from the current array alone restarts at 0 for each parent, merging the children of "
                  "different parents and binding them to the last one")
    # small private helpers (a `next base index` function, a slot accessor) are read as part of collect_nested
    f = P.inlined("searchlite_core::index::segment::collect_nested", depth=1, small=40,
                  keep=("searchlite_core::index::segment::collect_nested_object",))
    if not ctx.anchor(rid, f, "segment::collect_nested"):
        return
    ctx.saw(f)
    sl = Slice(f, through_all_calls=True)
    sl0 = Slice(f)

    def reads_counts(operand):
        for x in sl.sources(operand):
            if x[0] == "call" and re.search(r"Map(<[^>]*>|::<[^>]*>)::(get|get_mut|entry|contains_key)$", callee_of(x[2])) and \
                    x[2]["args"] and "nested_counts" in sl0.fields(x[2]["args"][0]):
                return True
        return False
    n_ins, n_rec = 0, 0
    for b, t in f.calls():
        cal = callee_of(t)
        if re.search(r"Map(<[^>]*>|::<[^>]*>)::insert$", cal) and "nested_counts" in sl0.fields(t["args"][0]):
            n_ins += 1
            ok = reads_counts(t["args"][2])
            ctx.ob(rid, "%s:collect_nested:count-accumulates" % rid, ok,
                   "the object count recorded at %s continues from the count already recorded for the path" % Site(f, b).loc() if ok else
                   "the object count recorded at %s is computed from the current value alone: each parent object overwrites the count "
                   "left by the previous one" % Site(f, b).loc(), Site(f, b).loc())
        if cal == "searchlite_core::index::segment::collect_nested_object":
            n_rec += 1
            ok = reads_counts(t["args"][4])
            ctx.ob(rid, "%s:collect_nested:object-index-offset" % rid, ok,
                   "the object index passed at %s is offset by the objects already recorded for the path" % Site(f, b).loc() if ok else
                   "the object index passed at %s restarts at 0 for every parent object: children of different parents share slots"
                   % Site(f, b).loc(), Site(f, b).loc())
    ctx.floor(rid + ".insert", n_ins, 1, "nested_counts.insert in collect_nested")
    ctx.floor(rid + ".objects", n_rec, 2, "collect_nested_object calls in collect_nested (array and single-object arms)")


def run(ctx, progs):
    P = progs.get("default")
    r08a(ctx, P)
    r08b(ctx, P)
    r08c(ctx, P)
    r08d(ctx, P)
    from sa.rules.common import column_slots_rule
    column_slots_rule(ctx, P, "R08.e")
    from sa.rules.C15 import path_threading_rule
    path_threading_rule(ctx, P, "R08.f", scope=("query::filters", "index::segment"), floor=6)
    ctx.assumptions += ["the object indices and parent links stored in the nested columns are those of the document (written by the segment build; "
                        "their agreement with the reader's type table is checked under C17 R17.c)",
                        "everything else in the statement (multi-valued semantics, nested-in-nested binding across several levels, And/Or/Not "
                        "combination) is runtime and not decided"]
