"""C28 — a copied index directory is self-contained (partial)."""
import re
from sa import names as N
from sa.prog import Site, Slice, TERM, callee_of, op_local, op_place, place_fields
from sa.rules.common import is_test_or_bench, entry_ancestors

EXPLANATION = ("Decides that no storage access can go through a path that was deserialised from the manifest: every Manifest "
               "that comes out of Manifest::load is re-rooted (every segment's `paths` overwritten with "
               "directory::segment_paths(<opened root>, <its own id>)) before it reaches the shared index state; Manifest::load "
               "has no other caller; SegmentPaths values are built only by directory::segment_paths, whose every field is "
               "root.join(<name containing the id>); and every root handed to the path builders derives from the opened "
               "directory (IndexOptions.path / InnerIndex.path). Equality of results on the copy is not decided.")

SEGPATHS = "searchlite_core::index::manifest::SegmentPaths"
SEG_PATHS_FN = "searchlite_core::index::directory::segment_paths"
OPEN = N.INDEX + "::open_with_storage"


def reroot_stores(P, f):
    """Stores `(*e).paths = directory::segment_paths(root, (*e).id)` in f -> [(Site, root operand, elem local, ok)]"""
    out = []
    sl = Slice(f)
    for b, i, s in f.stmts():
        if s["k"] != "assign":
            continue
        fl = place_fields(s["dst"])
        if not fl or fl[-1] != "paths":
            continue
        elem = s["dst"]["l"]
        calls = [(cb, ct) for (cb, ct) in sl.calls(s["rv"].get("a", {})) if callee_of(ct) == SEG_PATHS_FN] if s["rv"]["k"] == "use" else []
        for cb, ct in calls:
            id_ok = any(x[0] == "field" and x[1] == elem and x[2][-1:] == ("id",) for x in sl.sources(ct["args"][1]))
            out.append((Site(f, b, i), ct["args"][0], elem, id_ok))
    return out


def _reroot_closure_stores(P, f):
    """[(for_each block, terminator, closure, store Site, root ok, id ok)]: closures handed to Iterator::for_each in f whose body stores
    directory::segment_paths(<captured root>, <element>.id) into <element>.paths on every path"""
    out = []
    sl = Slice(f, through_all_calls=True)
    for b, t in f.calls():
        if not re.search(r"Iterator>?::for_each$", callee_of(t)) or len(t["args"]) < 2:
            continue
        for y in sl.sources(t["args"][1]):
            if not (y[0] == "agg" and y[3].get("closure") and P.fn(y[3]["closure"]) is not None):
                continue
            g = P.fn(y[3]["closure"])
            for (ssite, root_op, elem, id_ok) in reroot_stores(P, g):
                # the store is unconditional in the closure, the element is the closure's parameter
                uncond = all(g.dominates_block(ssite.b, rb) for rb in g.reachable() if g.blocks[rb]["term"]["k"] == "return")
                elem_is_param = any(x[0] == "arg" and x[1] >= 2 for x in Slice(g).sources({"cp": {"l": elem, "p": []}})) or elem >= 2 and elem <= g.arg_count
                # the captured root: follow the upvar to the aggregate's operand in f
                root_ok = False
                gs = Slice(g)
                ups = [str(z).replace("upvar:", "").lstrip("*") for x in gs.sources(root_op) if x[0] == "field" for z in x[2] if str(z).startswith("upvar:")]
                names = y[3].get("upvars") or []
                for k_, o in enumerate(y[3]["ops"]):
                    nm = names[k_] if k_ < len(names) else None
                    if ups and (nm is None or nm in ups):
                        srcs = Slice(f).sources(o)
                        if any(x[0] == "field" and x[1] == 1 and "path" in x[2] for x in srcs) or (1 in Slice(f).args(o) and "path" in Slice(f).fields(o)):
                            root_ok = True
                out.append((b, t, g, ssite, root_ok, id_ok and uncond and elem_is_param))
    return out


def r28a(ctx, P):
    rid = "R28.a"
    ctx.rule(rid, "FLOW: in Index::open_with_storage a Manifest obtained from Manifest::load reaches the InnerIndex value only after "
                  "a loop over its segments (iter_mut, no skipping path) stored directory::segment_paths(<derived from opts.path>, "
                  "<that segment's id>) into every SegmentMeta.paths; Manifest::load is called from nowhere else")
    f = P.inlined(OPEN, depth=2, keep=(N.MAN_LOAD, SEG_PATHS_FN))      # a re-rooting helper / a constructor helper are read in place
    if not ctx.anchor(rid, f, "Index::open_with_storage"):
        return
    ctx.saw(f)
    sl = Slice(f)
    loads = [(b, t) for b, t in f.calls() if callee_of(t) == N.MAN_LOAD]
    ctx.floor(rid, len(loads), 1, "Manifest::load call in open_with_storage")
    aggs = [Site(f, b, i) for b, i, s in f.stmts() if s["k"] == "assign" and s["rv"]["k"] == "agg"
            and s["rv"].get("adt") == N.INNER]
    ctx.floor(rid + ".sink", len(aggs), 1, "InnerIndex construction in open_with_storage")
    stores = reroot_stores(P, f)
    closure_stores = _reroot_closure_stores(P, f)
    key = "%s:Index::open_with_storage:reroot-loaded-manifest" % rid
    for lb, lt in loads:
        lsite = Site(f, lb)
        good = None
        why = "no store of directory::segment_paths(..) into SegmentMeta.paths found"
        for (ssite, root_op, elem, id_ok) in stores:
            root_ok = any(x[0] == "field" and x[1] == 1 and "path" in x[2] for x in sl.sources(root_op)) or \
                (1 in sl.args(root_op) and "path" in sl.fields(root_op))
            if not id_ok:
                why = "the id passed to segment_paths is not the id of the segment being rewritten"
                continue
            if not root_ok:
                why = "the root passed to segment_paths does not derive from opts.path"
                continue
            # the element iterates `iter_mut` over the loaded manifest's segments
            it_calls = [(b, t) for (b, t) in Slice(f, through_all_calls=True).calls(elem)
                        if callee_of(t).endswith("::iter_mut")]
            loop_ok = False
            for ib, it in it_calls:
                src = Slice(f, through_all_calls=True).sources(it["args"][0])
                from_load = any(x[0] == "call" and x[1] == lb for x in src)
                seg_field = any(x[0] == "field" and "segments" in x[2] for x in src)
                isite = Site(f, ib)
                doms = all(f.cfg_path(lb, a.b, avoid=[isite.b]) is None for a in aggs)
                if from_load and seg_field and f.dominates(lsite, isite) and doms:
                    # no path from the `Some(elem)` arm back to `next()` that avoids the store
                    nexts = [b for b, t in f.calls() if callee_of(t).endswith("Iterator>::next") and
                             any(x[0] == "call" and x[1] == ib for x in Slice(f, through_all_calls=True).sources(t["args"][0]))]
                    skip = False
                    for nb in nexts:
                        for dfb in f.reachable():
                            pass
                        # blocks where elem is defined (Some.0 projection)
                        for df in f.defs().get(elem, []):
                            if f.cfg_path(df["b"], nb, avoid=[ssite.b]) is not None and df["b"] != ssite.b:
                                skip = True
                    loop_ok = not skip
                    if skip:
                        why = "an iteration of the re-rooting loop can skip the store"
            if loop_ok:
                good = ssite
        if good is None:
            # `manifest.segments.iter_mut().for_each(|seg| seg.paths = segment_paths(root, &seg.id))`: every element is visited
            for (fb, ft, g_, ssite, root_ok_, id_ok_) in closure_stores:
                src = Slice(f, through_all_calls=True).sources(ft["args"][0])
                from_load = any(x[0] == "call" and x[1] == lb for x in src)
                seg_field = any(x[0] == "field" and "segments" in x[2] for x in src)
                it_mut = any(x[0] == "call" and callee_of(x[2]).endswith("::iter_mut") for x in src)
                doms = all(f.cfg_path(lb, a.b, avoid=[fb]) is None for a in aggs)
                if not id_ok_:
                    why = "the id passed to segment_paths is not the id of the segment being rewritten"
                elif not root_ok_:
                    why = "the root passed to segment_paths does not derive from opts.path"
                elif from_load and seg_field and it_mut and doms and f.dominates(lsite, Site(f, fb)):
                    from sa.rules.common import chain_filters
                    dropping = chain_filters(P, f, ft["args"][0])
                    if dropping:
                        why = "the re-rooting iterator chain drops elements (Iterator::%s): some segments keep their deserialised paths" % dropping[0][0]
                    else:
                        good = ssite
        ctx.ob(rid, key, good is not None,
               "the manifest loaded at %s is re-rooted at the opened directory (store at %s) before it is published" % (lsite.loc(), good.loc())
               if good else "the manifest loaded at %s reaches the index state with the segment paths that were deserialised from "
                            "MANIFEST.json (%s): a copied index reads, rewrites and deletes files under its original path" % (lsite.loc(), why),
               lsite.loc())
    callers = entry_ancestors(P, N.MAN_LOAD, stop=lambda p: True, skip=is_test_or_bench)
    def only_from_open(c, depth=0):
        h = P.fns.get(c)
        if c == OPEN:
            return True
        if h is None or h.vis == "Public" or depth > 3:
            return False
        cs = {q for q, g_ in P.fns.items() if not is_test_or_bench(g_) and any(callee_of(t_) == c for b_, t_ in g_.calls())}
        roots_ = set()
        for q in cs:
            g_ = P.fns[q]
            while g_.kind == "closure" and g_.parent and P.fn(g_.parent):
                g_ = P.fn(g_.parent)
            roots_.add(g_.path)
        return bool(roots_) and all(only_from_open(q, depth + 1) for q in roots_)
    for c in sorted(callers):
        if c != OPEN and only_from_open(c):
            ctx.ob(rid, "%s:Manifest::load:caller:%s" % (rid, "index::Index::open_with_storage"), True,
                   "Manifest::load is called from %s, a private helper of Index::open_with_storage only (read in place above)" % P.fns[c].short,
                   "%s:%s" % (P.fns[c].file, P.fns[c].line))
            continue
        ctx.ob(rid, "%s:Manifest::load:caller:%s" % (rid, P.fns[c].short if c in P.fns else c), c == OPEN,
               "Manifest::load is called from Index::open_with_storage" if c == OPEN else
               "Manifest::load is also called from %s, which does not re-root the segment paths" % c,
               "%s:%s" % (P.fns[c].file, P.fns[c].line) if c in P.fns else None)
    # other deserialisers of Manifest / SegmentMeta in non-test code of the core crate
    n = 0
    for p, g in P.fns.items():
        if g.crate != "searchlite_core" or is_test_or_bench(g) or p.startswith("<") and "serde::" in p:
            continue
        for b, t in g.calls():
            if callee_of(t).startswith("serde_json::de::from_") and ("manifest::Manifest" in t["dst_ty"] or
                                                                     "manifest::SegmentMeta" in t["dst_ty"] or "SegmentPaths" in t["dst_ty"]):
                n += 1
                ctx.ob(rid, "%s:%s:deserialises-manifest" % (rid, g.short), p == N.MAN_LOAD,
                       "the manifest is deserialised in Manifest::load only" if p == N.MAN_LOAD else
                       "%s deserialises a manifest/segment-path value outside Manifest::load" % g.short, Site(g, b).loc())
    ctx.floor(rid + ".deser", n, 1, "manifest deserialisation sites")


def r28b(ctx, P):
    rid = "R28.b"
    ctx.rule(rid, "AGREE/WHO: SegmentPaths values are constructed only in directory::segment_paths; each of its fields is "
                  "Path::join(<root parameter>, format!(.. <id parameter> ..)); every call of segment_paths / wal_path / "
                  "manifest_path / SegmentWriter::new passes a root derived from IndexOptions.path / InnerIndex.path / "
                  "SegmentWriter.root")
    sp = P.inlined(SEG_PATHS_FN, depth=1)        # a `root.join(name)` helper shared by the fields is read in place
    adt = P.adts.get(SEGPATHS)
    if not (ctx.anchor(rid, sp, "directory::segment_paths") and ctx.anchor(rid, adt, "SegmentPaths")):
        return
    ctx.saw(sp)
    n = 0
    for p, g in P.fns.items():
        if is_test_or_bench(g) or (p.startswith("<") and "serde" in p):
            continue
        for b, i, s in g.stmts():
            if s["k"] == "assign" and s["rv"]["k"] == "agg" and s["rv"].get("adt") == SEGPATHS:
                n += 1
                inside_derive = any("Deserialize" in m or "Clone" in m or "derive" in m for m in s.get("macros", []))
                ok = p == SEG_PATHS_FN or inside_derive
                ctx.ob(rid, "%s:%s:constructs-SegmentPaths" % (rid, g.short), ok,
                       "SegmentPaths constructed in %s" % g.short if ok else
                       "SegmentPaths constructed outside directory::segment_paths in %s" % g.short, Site(g, b, i).loc())
                if p == SEG_PATHS_FN:
                    sl = Slice(sp, through_all_calls=True)
                    # the same literal in the inlined view
                    s = next((s2 for b2, i2, s2 in sp.stmts() if s2["k"] == "assign" and s2["rv"]["k"] == "agg" and s2["rv"].get("adt") == SEGPATHS), s)
                    for fname, o in zip(s["rv"]["fields"], s["rv"]["ops"]):
                        src = sl.sources(o)
                        joins = [x for x in src if x[0] == "call" and callee_of(x[2]) == "std::path::Path::join"]
                        good = bool(joins)
                        for j in joins:
                            root_ok = 1 in Slice(sp).args(j[2]["args"][0])
                            name_src = sl.sources(j[2]["args"][1])
                            id_ok = any(x[0] == "arg" and x[1] == 2 for x in name_src)
                            good = good and root_ok and id_ok
                        ctx.ob(rid, "%s:segment_paths:field:%s" % (rid, fname), good,
                               "SegmentPaths.%s = root.join(<name with id>)" % fname if good else
                               "SegmentPaths.%s is not built as root.join(<name containing the id>)" % fname, Site(g, b, i).loc())
    ctx.floor(rid, n, 1, "SegmentPaths construction sites")
    # roots handed to the path builders
    builders = {SEG_PATHS_FN: 0, "searchlite_core::index::directory::wal_path": 0, N.MAN + "::manifest_path": 0,
                N.SEGW + "::<'a>::new": 0}
    m = 0
    for p, g in P.fns.items():
        if g.crate != "searchlite_core" or is_test_or_bench(g):
            continue
        for b, t in g.calls():
            cal = callee_of(t)
            if cal not in builders:
                continue
            m += 1
            sl = Slice(g)
            root = t["args"][builders[cal]]
            fl = sl.fields(root)
            if g.kind == "closure" and g.parent and P.fn(g.parent) is not None and any(str(z).startswith("upvar:") for z in fl):
                # the root is captured: continue with what the enclosing function captured
                par_ = P.fn(g.parent)
                up_ = [str(z).replace("upvar:", "").lstrip("*") for z in fl if str(z).startswith("upvar:")]
                for pb_, pi_, ps_ in par_.stmts():
                    if ps_["k"] == "assign" and ps_["rv"]["k"] == "agg" and ps_["rv"].get("closure") == g.path:
                        for o_ in ps_["rv"]["ops"]:
                            nm_ = {par_.locals[l_].get("name") for l_ in Slice(par_).locals(o_) | ({op_local(o_)} if op_local(o_) is not None else set())}
                            if nm_ & set(up_):
                                g, sl, root = par_, Slice(par_), o_
                                fl = sl.fields(root)
            ok = bool({"path", "root"} & fl) or (g.path in (N.INDEX + "::create_with_storage", N.INDEX + "::create") and 1 in sl.args(root)) \
                or (g.path == N.INNER + "::manifest_path")
            if not ok and g.vis != "Public" and g.kind != "closure":
                # a private helper that gets the root as a parameter: every caller must pass a derived root
                params = {k for k in sl.args(root) if 1 <= k <= g.arg_count}
                callers_ok = bool(params)
                ncall = 0
                for q2, g2 in P.fns.items():
                    if g2.crate != "searchlite_core" or is_test_or_bench(g2):
                        continue
                    for b2, t2 in g2.calls():
                        if callee_of(t2) != g.path:
                            continue
                        ncall += 1
                        sl2 = Slice(g2)
                        for k in params:
                            if k - 1 >= len(t2["args"]) or not ({"path", "root"} & sl2.fields(t2["args"][k - 1])):
                                callers_ok = False
                ok = callers_ok and ncall >= 1
                if ok:
                    fl = fl | {"path"}
            ctx.ob(rid, "%s:%s:root-of:%s" % (rid, g.short, cal.rsplit("::", 1)[1]), ok,
                   "root passed to %s in %s derives from the opened directory (%s)" % (cal.rsplit("::", 1)[1], g.short, sorted(fl & {"path", "root"}) or "path parameter")
                   if ok else "root passed to %s in %s does not derive from IndexOptions.path / InnerIndex.path" % (cal, g.short),
                   Site(g, b).loc())
    ctx.floor(rid + ".roots", m, 8, "call sites of the path builders")


def run(ctx, progs):
    P = progs.get("default")
    r28a(ctx, P)
    r28b(ctx, P)
    if ctx.tier == "thorough":
        ctx.config = "features"
        Pf = progs.get("features")
        r28a(ctx, Pf)
        r28b(ctx, Pf)
        ctx.config = "default"
    ctx.assumptions += ["the vector file paths (feature `vectors`) are derived from SegmentPaths.vector_dir by vector_paths(), i.e. from the re-rooted value",
                        "IndexOptions.path is the directory the caller asked to open"]
