"""C14 — compaction preserves observable contents (partial)."""
from sa import names as N
from sa.prog import Site, Slice, TERM, callee_of, op_local, op_place, place_fields, outcome_arms, in_arm, lock_acquisitions
from sa.rules.common import is_test_or_bench

EXPLANATION = ("Decides: (a) Index::compact refuses before touching anything — the safety check dominates, on its success arm, the first "
               "call with a storage-write effect and the manifest write lock; (b) the safety check covers everything ingestion "
               "consumes: every Schema field list read by the per-document segment build is also read by ensure_compact_safe "
               "(directly or through Schema::resolved_fields), so a field class whose data cannot be rebuilt from stored values "
               "cannot be silently dropped. Under the `vectors` feature vector_fields is consumed but not examined (known finding). "
               "Equality of query results before/after compaction is not decided.")

STREAM = "searchlite_core::index::segment::SegmentWriter::<'a>::write_segment_stream"
SAFE = "searchlite_core::index::ensure_compact_safe"
SCHEMA = "searchlite_core::index::manifest::Schema"


def r14a(ctx, P):
    rid = "R14.a"
    ctx.rule(rid, "ORDER: in Index::compact the call that reaches the safety check (ensure_compact_safe) dominates, on its success arm, "
                  "every call with a storage-write effect and the manifest write-lock acquisition; its failure returns an error")
    comp = P.fn(N.INDEX + "::compact")
    if not ctx.anchor(rid, comp, "Index::compact"):
        return
    ctx.saw(comp)
    checks = [Site(comp, b) for b, t in comp.calls() if callee_of(t) == SAFE or P.call_reaches(t, N.is_(SAFE))]
    ctx.floor(rid, len(checks), 1, "ensure_compact_safe call in compact")
    writes = [Site(comp, b) for b, t in comp.calls() if P.call_reaches(t, N.any_of(N.STORAGE_WRITE_EFFECTS))]
    locks = [s for (s, g, c) in lock_acquisitions(comp, field="manifest") if c == N.RW_WRITE]
    ctx.floor(rid + ".writes", len(writes), 2, "storage-write call sites in compact")
    for w in writes + locks:
        ok = any(comp.dominates(c, w) and in_arm(comp, w, outcome_arms(comp, c)["ok"]) for c in checks)
        t = comp.blocks[w.b]["term"]
        ctx.ob(rid, "%s:Index::compact:%s-after-safety-check" % (rid, callee_of(t).rsplit("::", 1)[1]), ok,
               "%s at %s runs only after the safety check succeeded" % (callee_of(t).rsplit("::", 1)[1], w.loc()) if ok else
               "%s at %s is not dominated by the success arm of ensure_compact_safe: compaction can change the index before refusing"
               % (callee_of(t).rsplit("::", 1)[1], w.loc()), w.loc())


def schema_lists(P):
    adt = P.adts.get(SCHEMA)
    if adt is None:
        return None
    return [f[0] for f in adt["variants"][0]["fields"] if f[0].endswith("_fields") and f[1].startswith("alloc::vec::Vec<")]


def lists_read(P, root, lists, stop_at=()):
    """Schema list fields read (as field projections on a Schema value) by `root` and everything reachable from it in core."""
    out = {}
    fns = {root} | {q for q in P.reach(root) if q in P.fns}
    for q in fns:
        f = P.fns[q]
        if f.crate != "searchlite_core" or is_test_or_bench(f):
            continue
        for b, i, s in f.stmts():
            if s["k"] != "assign":
                continue
            rv = s["rv"]
            places = []
            if rv["k"] in ("ref", "discr"):
                places.append(rv["place"])
            elif rv["k"] in ("use", "cast"):
                pl = op_place(rv["a"])
                if pl:
                    places.append(pl)
            for pl in places:
                for e in pl["p"]:
                    if isinstance(e, dict) and e.get("f") in lists and e.get("of") == SCHEMA:
                        out.setdefault(e["f"], Site(f, b, i).loc())
        for b, t in f.calls():
            for a in t["args"]:
                pl = op_place(a)
                if pl:
                    for e in pl["p"]:
                        if isinstance(e, dict) and e.get("f") in lists and e.get("of") == SCHEMA:
                            out.setdefault(e["f"], Site(f, b).loc())
    return out


def r14b(ctx, P):
    rid = "R14.b"
    ctx.rule(rid, "AGREE: {Schema *_fields lists read by the per-document segment build (write_segment_stream and its callees)} is a "
                  "subset of {lists read by ensure_compact_safe and its callees}")
    lists = schema_lists(P)
    if not (ctx.anchor(rid, lists, "Schema struct") and ctx.anchor(rid, P.fn(STREAM), "segment writer") and ctx.anchor(rid, P.fn(SAFE), "ensure_compact_safe")):
        return
    consumed = lists_read(P, STREAM, lists)
    checked = lists_read(P, SAFE, lists)
    ctx.saw(P.fn(STREAM))
    ctx.saw(P.fn(SAFE))
    ctx.floor(rid, len(consumed), 4, "Schema field lists consumed by ingestion")
    for l in sorted(consumed):
        ok = l in checked
        ctx.ob(rid, "%s:ensure_compact_safe:%s" % (rid, l), ok,
               "Schema.%s is consumed by ingestion (%s) and examined by the compaction safety check (%s)" % (l, consumed[l], checked.get(l)) if ok else
               "Schema.%s is consumed by the segment build (%s) but never examined by ensure_compact_safe: compaction rebuilds the "
               "segment from stored fields only and silently drops this field class" % (l, consumed[l]), consumed[l])


def run(ctx, progs):
    P = progs.get("default")
    r14a(ctx, P)
    r14b(ctx, P)
    if ctx.tier == "thorough":
        ctx.config = "features"
        Pf = progs.get("features")
        r14a(ctx, Pf)
        r14b(ctx, Pf)
        ctx.config = "default"
    ctx.assumptions += ["a field whose `stored` flag is set can be rebuilt from the stored projection (that is what ensure_compact_safe tests)"]
