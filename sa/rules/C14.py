"""C14 — compaction preserves observable contents (partial)."""
from sa import names as N
from sa.prog import Site, Slice, TERM, callee_of, op_local, op_place, place_fields, outcome_arms, in_arm, lock_acquisitions, ok_sites
from sa.rules.common import is_test_or_bench

EXPLANATION = ("Decides: (a) Index::compact refuses before touching anything — the safety check dominates, on its success arm, the first "
               "call with a storage-write effect and the manifest write lock; (b) the safety check covers everything ingestion "
               "consumes: every Schema field list read by the per-document segment build is also read by ensure_compact_safe "
               "(directly or through Schema::resolved_fields), so a field class whose data cannot be rebuilt from stored values "
               "cannot be silently dropped. Under the `vectors` feature vector_fields is consumed but not examined (known finding). "
               "(c) the guard's per-field decision, extracted as a decision table over (kind, indexed, fast, stored) by path enumeration, "
               "refuses every combination for which the segment build writes segment-only data (table W, anchored to the build's reads "
               "of the flags) while stored is false. Equality of query results before/after compaction is not decided.")

STREAM = "searchlite_core::index::segment::SegmentWriter::<'a>::write_segment_stream"
SAFE = "searchlite_core::index::ensure_compact_safe"
SCHEMA = "searchlite_core::index::manifest::Schema"


def r14a(ctx, P):
    rid = "R14.a"
    ctx.rule(rid, "ORDER: in Index::compact the call that reaches the safety check (ensure_compact_safe) dominates, on its success arm, "
                  "every call with a storage-write effect and the manifest write-lock acquisition; its failure returns an error")
    comp = P.fn(N.INDEX + "::compact")
    if not ctx.anchor(rid, comp, "Index::compact"):
        return
    ctx.saw(comp)
    checks = [Site(comp, b) for b, t in comp.calls() if callee_of(t) == SAFE or P.call_reaches(t, N.is_(SAFE))]
    ctx.floor(rid, len(checks), 1, "ensure_compact_safe call in compact")
    writes = [Site(comp, b) for b, t in comp.calls() if P.call_reaches(t, N.any_of(N.STORAGE_WRITE_EFFECTS))]
    locks = [s for (s, g, c) in lock_acquisitions(comp, field="manifest") if c == N.RW_WRITE]
    ctx.floor(rid + ".writes", len(writes), 2, "storage-write call sites in compact")
    for w in writes + locks:
        ok = any(comp.dominates(c, w) and in_arm(comp, w, outcome_arms(comp, c)["ok"]) for c in checks)
        t = comp.blocks[w.b]["term"]
        ctx.ob(rid, "%s:Index::compact:%s-after-safety-check" % (rid, callee_of(t).rsplit("::", 1)[1]), ok,
               "%s at %s runs only after the safety check succeeded" % (callee_of(t).rsplit("::", 1)[1], w.loc()) if ok else
               "%s at %s is not dominated by the success arm of ensure_compact_safe: compaction can change the index before refusing"
               % (callee_of(t).rsplit("::", 1)[1], w.loc()), w.loc())


def schema_lists(P):
    adt = P.adts.get(SCHEMA)
    if adt is None:
        return None
    return [f[0] for f in adt["variants"][0]["fields"] if f[0].endswith("_fields") and f[1].startswith("alloc::vec::Vec<")]


def lists_read(P, root, lists, stop_at=()):
    """Schema list fields read (as field projections on a Schema value) by `root` and everything reachable from it in core."""
    out = {}
    fns = {root} | {q for q in P.reach(root) if q in P.fns}
    for q in fns:
        f = P.fns[q]
        if f.crate != "searchlite_core" or is_test_or_bench(f):
            continue
        for b, i, s in f.stmts():
            if s["k"] != "assign":
                continue
            rv = s["rv"]
            places = []
            if rv["k"] in ("ref", "discr"):
                places.append(rv["place"])
            elif rv["k"] in ("use", "cast"):
                pl = op_place(rv["a"])
                if pl:
                    places.append(pl)
            for pl in places:
                for e in pl["p"]:
                    if isinstance(e, dict) and e.get("f") in lists and e.get("of") == SCHEMA:
                        out.setdefault(e["f"], Site(f, b, i).loc())
        for b, t in f.calls():
            for a in t["args"]:
                pl = op_place(a)
                if pl:
                    for e in pl["p"]:
                        if isinstance(e, dict) and e.get("f") in lists and e.get("of") == SCHEMA:
                            out.setdefault(e["f"], Site(f, b).loc())
    return out


def r14b(ctx, P):
    rid = "R14.b"
    ctx.rule(rid, "AGREE: {Schema *_fields lists read by the per-document segment build (write_segment_stream and its callees)} is a "
                  "subset of {lists read by ensure_compact_safe and its callees}")
    lists = schema_lists(P)
    if not (ctx.anchor(rid, lists, "Schema struct") and ctx.anchor(rid, P.fn(STREAM), "segment writer") and ctx.anchor(rid, P.fn(SAFE), "ensure_compact_safe")):
        return
    consumed = lists_read(P, STREAM, lists)
    checked = lists_read(P, SAFE, lists)
    ctx.saw(P.fn(STREAM))
    ctx.saw(P.fn(SAFE))
    ctx.floor(rid, len(consumed), 4, "Schema field lists consumed by ingestion")
    for l in sorted(consumed):
        ok = l in checked
        ctx.ob(rid, "%s:ensure_compact_safe:%s" % (rid, l), ok,
               "Schema.%s is consumed by ingestion (%s) and examined by the compaction safety check (%s)" % (l, consumed[l], checked.get(l)) if ok else
               "Schema.%s is consumed by the segment build (%s) but never examined by ensure_compact_safe: compaction rebuilds the "
               "segment from stored fields only and silently drops this field class" % (l, consumed[l]), consumed[l])


# Which (kind, flags) make the segment build write data that only the segment holds.  Read off write_segment_stream:
#   text     -> postings (and the doc-length column) unless `!meta.indexed`                      [loop over collected.text]
#   keyword  -> postings when `indexed`; a Str/StrList column when kind == Keyword && fast      [loop over collected.keywords]
#   numeric  -> an I64/F64 column when `fast`; nothing else (`indexed` is constant true and unused) [loops over collected.i64s/f64s]
#   unknown  -> never produced by Schema::resolved_fields; no bucket in CollectedDocument
W_TABLE = {"Text": lambda indexed, fast: indexed, "Keyword": lambda indexed, fast: indexed or fast,
           "Numeric": lambda indexed, fast: fast, "Unknown": lambda indexed, fast: False}
# the builder-side reads of ResolvedField flags W_TABLE was read from: (function root, flag)
#   nested   -> handle_field gates the text bucket on `indexed`; collect_nested_object writes per-object columns when `fast` and the
#               kind is Keyword or Numeric (Text | Unknown => nothing): same table
W_ANCHORS = {("SegmentWriter::<'a>::write_segment_stream", "indexed"), ("SegmentWriter::<'a>::write_segment_stream", "fast"),
             ("handle_field", "indexed"), ("collect_nested_object", "fast")}


def r14c(ctx, P):
    rid = "R14.c"
    from sa import boolpaths
    ctx.rule(rid, "DECISION TABLE: the per-field decision of ensure_compact_safe is extracted by enumerating the paths of its loop body "
                  "(branching only on ResolvedField.{indexed,fast,stored} and discr(kind), symbolic store for locals); for every "
                  "kind and flag combination in which the segment build writes segment-only data (table W, read off "
                  "write_segment_stream and anchored to its reads of the flags) and `stored` is false, every consistent path must "
                  "end in the refusal. Conditions on anything else are treated as free")
    f = P.fn(SAFE)
    if not ctx.anchor(rid, f, "ensure_compact_safe"):
        return
    ctx.saw(f)
    RF = "searchlite_core::index::manifest::ResolvedField"
    kind_adt = P.adts.get("searchlite_core::index::manifest::FieldKind")
    if not ctx.anchor(rid, kind_adt, "FieldKind"):
        return
    kinds = [v["name"] for v in kind_adt["variants"]]
    unknown_kinds = [k for k in kinds if k not in W_TABLE]
    ctx.ob(rid, "%s:kinds-covered" % rid, not unknown_kinds,
           "table W covers every FieldKind variant %s" % kinds if not unknown_kinds else
           "FieldKind has variant(s) %s that table W does not cover: decide what the segment build writes for them" % unknown_kinds,
           "%s:%s" % (f.file, f.line))
    # builder-side anchors: which functions under the build read ResolvedField.indexed / .fast
    reads = set()
    for q in {STREAM} | {x for x in P.reach(STREAM) if x in P.fns}:
        g = P.fns[q]
        if g.crate != "searchlite_core" or is_test_or_bench(g):
            continue
        root = g
        while root.kind == "closure" and root.parent and P.fn(root.parent):
            root = P.fn(root.parent)
        for b, i, st in g.stmts():
            if st["k"] != "assign":
                continue
            rv = st["rv"]
            pl = rv.get("place") if rv["k"] in ("ref", "discr") else (op_place(rv["a"]) if rv["k"] in ("use", "cast") else None)
            if pl:
                for e in pl["p"]:
                    if isinstance(e, dict) and e.get("of") == RF and e.get("f") in ("indexed", "fast"):
                        reads.add((root.short.split("index::segment::")[-1], e["f"]))
    ctx.ob(rid, "%s:builder-flag-reads" % rid, reads == W_ANCHORS,
           "the segment build reads ResolvedField.indexed/.fast where table W was read from (%s)" % sorted(reads) if reads == W_ANCHORS else
           "the segment build's reads of ResolvedField.indexed/.fast changed (%s, table W was read from %s): re-derive table W" % (
               sorted(reads), sorted(W_ANCHORS)), "%s:%s" % (f.file, f.line))
    # loop body of the guard
    hdr = None
    start = None
    for b in sorted(f.reachable()):
        t = f.blocks[b]["term"]
        if t["k"] == "call" and callee_of(t).endswith("Iterator>::next") and any("ForLoop" in m for m in t.get("macros", [])) and \
                RF in t.get("dst_ty", ""):
            hdr = b
        if t["k"] == "switch" and any("ForLoop" in m for m in t.get("macros", [])) and hdr is not None and start is None:
            vals = dict(zip(t["values"], t["targets"]))
            start = vals.get(1)
    if start is None:
        ps = _r14c_adapter_paths(ctx, P, f, rid, RF, kinds)
        if ps is None:
            ctx.anchor(rid, None, "loop over Schema::resolved_fields() in ensure_compact_safe (for loop, or find/any/position with a "
                                  "closure whose `true` ends in the refusal)")
            return
        _r14c_decide(ctx, rid, f, ps, kinds)
        return
    from sa.rules.C15 import error_origins
    refuse_blocks = {s.b for s in error_origins(f)}
    hdr_chain = {hdr}
    ch = True
    while ch:
        ch = False
        for b in f.reachable():
            t = f.blocks[b]["term"]
            if b not in hdr_chain and t["k"] == "goto" and t["target"] in hdr_chain and not f.blocks[b]["stmts"]:
                hdr_chain.add(b); ch = True

    def end_kind(b):
        if b in hdr_chain:
            return "next"
        if b in refuse_blocks:
            return "refuse"
        return None

    def atom_of_place(pl):
        fl = [e for e in pl["p"] if isinstance(e, dict) and "f" in e]
        if len(fl) >= 1 and fl[-1].get("of") == RF and fl[-1]["f"] in ("indexed", "fast", "stored", "kind"):
            return ("flag", fl[-1]["f"])
        if fl:
            return ("other", ".".join(e["f"] for e in fl))
        return None
    ps = boolpaths.paths(f, start, end_kind, atom_of_place, discr_variants=lambda a: kinds)
    _r14c_decide(ctx, rid, f, ps, kinds)


def _r14c_atom(RF):
    def atom_of_place(pl):
        fl = [e for e in pl["p"] if isinstance(e, dict) and "f" in e]
        if len(fl) >= 1 and fl[-1].get("of") == RF and fl[-1]["f"] in ("indexed", "fast", "stored", "kind"):
            return ("flag", fl[-1]["f"])
        if fl:
            return ("other", ".".join(e["f"] for e in fl))
        return None
    return atom_of_place


def _r14c_adapter_paths(ctx, P, f, rid, RF, kinds):
    """Iterator form of the guard: `schema.resolved_fields().into_iter().find(|f| <cond>)` (or any / position) whose hit is
    turned into the refusal.  The decision table is the closure's: returning true = refuse, false = next field."""
    from sa import boolpaths
    from sa.prog import outcome_arms, Site
    from sa.rules.C15 import error_origins
    sl = Slice(f, through_all_calls=True)
    for b, t in f.calls():
        cal = callee_of(t)
        if not cal.endswith(("Iterator::find", "Iterator::any", "Iterator::position")) or len(t["args"]) < 2:
            continue
        if not any(x[0] == "call" and callee_of(x[2]).endswith("Schema::resolved_fields") for x in sl.sources(t["args"][0])):
            continue
        clo = None
        for y in sl.sources(t["args"][1]):
            if y[0] == "agg" and y[3].get("closure") and P.fn(y[3]["closure"]) is not None:
                clo = P.fn(y[3]["closure"])
        if clo is None:
            continue
        # the hit must end in the refusal: the Some / true arm cannot reach a success return
        refuse_blocks = {s.b for s in error_origins(f)}
        hit_blocks = []
        if cal.endswith("Iterator::any"):
            for sb in f.reachable():
                tt = f.blocks[sb]["term"]
                if tt["k"] == "switch" and any(x[0] == "call" and x[1] == b for x in Slice(f).sources(tt["on"])):
                    vals = dict(zip(tt["values"], tt["targets"]))
                    hit_blocks.append(vals.get(1, tt.get("otherwise")) if 1 in vals or 0 in vals else None)
                    if 1 not in vals and 0 in vals:
                        hit_blocks[-1] = tt.get("otherwise")
        else:
            hit_blocks = outcome_arms(f, Site(f, b))["ok"]
        hit_blocks = [h for h in hit_blocks if h is not None]
        if not hit_blocks:
            continue
        ok_ret = {s.b for s in ok_sites(f)}
        refuses = True
        for h in hit_blocks:
            reach = f.reachable_from(h) if hasattr(f, "reachable_from") else None
            if reach is None:
                reach, st = set(), [h]
                while st:
                    x = st.pop()
                    if x in reach:
                        continue
                    reach.add(x)
                    st.extend(f.succ(x))
            if reach & ok_ret or not (reach & refuse_blocks):
                refuses = False
        ctx.saw(clo)
        ctx.ob(rid, "%s:ensure_compact_safe:hit-is-refused" % rid, refuses,
               "a field found by the guard's %s(..) ends in the refusal (no success return reachable from the hit arm)" % cal.rsplit("::", 1)[1]
               if refuses else "a field found by the guard's %s(..) does not always end in the refusal" % cal.rsplit("::", 1)[1],
               "%s:%s" % (f.file, t.get("line", f.line)))
        raw = boolpaths.paths(clo, 0, lambda blk: None, _r14c_atom(RF), discr_variants=lambda a: kinds, track_return=True)
        out = []
        for pth in raw:
            r = pth.ret
            if pth.end[0] != "return":
                out.append(boolpaths.Path(pth.cons, ("next", pth.end[1]), True))
            elif r is not None and r[0] == "const":
                out.append(boolpaths.Path(pth.cons, ("refuse" if r[1] else "next", pth.end[1]), pth.opaque))
            elif r is not None and r[0] == "atom":
                for val in (True, False):
                    if pth.cons.get(r[1], val) != val:
                        continue
                    c2 = dict(pth.cons)
                    c2[r[1]] = val
                    out.append(boolpaths.Path(c2, ("refuse" if (val != r[2]) else "next", pth.end[1]), pth.opaque))
            else:
                out.append(boolpaths.Path(pth.cons, ("next", pth.end[1]), True))
        return out
    return None


def _r14c_decide(ctx, rid, f, ps, kinds):
    ctx.floor(rid, len(ps), 2, "paths through the guard's loop body")
    n = 0
    bad = []
    for kind in kinds:
        if kind not in W_TABLE:
            continue
        for indexed in (True, False):
            for fast in (True, False):
                if not W_TABLE[kind](indexed, fast):
                    continue
                n += 1
                asg = {("flag", "indexed"): indexed, ("flag", "fast"): fast, ("flag", "stored"): False, ("discr", "kind"): kind}
                ends = {}
                for pth in ps:
                    if all(asg.get(a, v) == v for a, v in pth.cons.items() if a in asg):
                        ends.setdefault(pth.end[0], pth)
                if set(ends) != {"refuse"}:
                    other = [p_ for k_, p_ in ends.items() if k_ != "refuse"]
                    bad.append((kind, indexed, fast, other[0] if other else None))
    for kind, indexed, fast, pth in bad:
        extra = {a: v for a, v in (pth.cons.items() if pth else []) if a[0] == "other"}
        ctx.ob(rid, "%s:ensure_compact_safe:%s:indexed=%s:fast=%s" % (rid, kind, indexed, fast), False,
               "an unstored %s field with indexed=%s fast=%s passes ensure_compact_safe%s, but the segment build writes data for it that "
               "the stored document cannot reproduce: compaction silently drops it" % (
                   kind, indexed, fast, " (when %s)" % extra if extra else ""), "%s:%s" % (f.file, f.line))
    if not bad:
        ctx.ob(rid, "%s:ensure_compact_safe:refuses-all-unrebuildable" % rid, True,
               "all %d (kind, indexed, fast) combinations with segment-only data and stored=false end in the refusal (%d paths)" % (n, len(ps)),
               "%s:%s" % (f.file, f.line))


def r14d(ctx, P):
    rid = "R14.d"
    from sa.rules.C13 import _is_error_exit_test
    ctx.rule(rid, "GUARD (only deleted documents are left out): in Index::compact (and its closures) the re-ingestion of a document — the "
                  "SegmentReader::get_doc call that feeds the new segment — is controlled by nothing but the iteration over segments "
                  "and ordinals, error exits, and the `is_deleted` test (R04.c requires that test; this is its converse). Any other "
                  "condition under which a live document is skipped changes which documents are live after compaction")
    comp = P.fn(N.INDEX + "::compact")
    if not ctx.anchor(rid, comp, "Index::compact"):
        return
    n = 0
    from sa.rules.common import compaction_chain, adapter_calls_with_closure, chain_filters, is_not_deleted_filter
    sites, helpers = compaction_chain(P, comp)
    for g, b, t, direct in sites:
        sl = Slice(g)
        n += 1 if direct else 0
        ctx.saw(g)
        extra = []
        # iterator form: the stages in front of this closure may only drop deleted documents
        if g.kind == "closure":
            for (par, ab, at) in adapter_calls_with_closure(P, g):
                for (kind, fb, clos) in chain_filters(P, par, at["args"][0]):
                    if not (kind == "filter" and clos and all(is_not_deleted_filter(P, h) for h in clos)):
                        extra.append((Site(par, fb), ["Iterator::" + kind]))
        for (a, succ) in g.control_deps_transitive(b):
            ta = g.blocks[a]["term"]
            if ta["k"] != "switch":
                continue
            if any("ForLoop" in m or "WhileLoop" in m for m in (ta.get("macros") or [])):
                continue
            # in compact ITSELF an early return abandons the whole compaction (nothing changes); inside a per-document closure or
            # helper an early return is a skipped document, so it is not excused there
            if g.path == comp.path and _is_error_exit_test(g, a):
                continue
            srcs = sl.sources(ta["on"])
            calls = [callee_of(x[2]) for x in srcs if x[0] == "call"]
            if calls and all(c.endswith(("SegmentReader::is_deleted", "Range<A> as core::iter::traits::iterator::Iterator>::next",
                                         "Iterator>::next", "::next")) for c in calls):
                continue
            if any("QuestionMark" in m for m in (ta.get("macros") or [])):
                continue
            extra.append((Site(g, a), calls))
        ctx.ob(rid, "%s:compact:only-deleted-documents-skipped" % rid, not extra,
               "a document is re-ingested unless is_deleted says otherwise" if not extra else
               "whether the document is re-ingested at %s also depends on the test at %s (%s): a live document can be left out of "
               "the compacted segment" % (Site(g, b).loc(), extra[0][0].loc(), ", ".join(c.rsplit("::", 1)[-1] for c in extra[0][1]) or "a comparison"),
               Site(g, b).loc())
    ctx.floor(rid, n, 1, "SegmentReader::get_doc call in the compaction stream")


THOROUGH_FEATURES = ['r14c', 'r14d']


def run(ctx, progs):
    P = progs.get("default")
    r14a(ctx, P)
    r14b(ctx, P)
    r14c(ctx, P)
    r14d(ctx, P)
    if ctx.tier == "thorough":
        ctx.config = "features"
        Pf = progs.get("features")
        r14a(ctx, Pf)
        r14b(ctx, Pf)
        ctx.config = "default"
    ctx.assumptions += ["a field whose `stored` flag is set can be rebuilt from the stored projection (that is what ensure_compact_safe tests)"]
