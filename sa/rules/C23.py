"""C23 — HTTP writes acknowledged as queued are never silently dropped (partial)."""
from sa import names as N
from sa.prog import Site, Slice, TERM, callee_of, op_local, outcome_arms, in_arm, ok_sites
from sa.rules.common import is_test_or_bench, is_queue_receiver
from sa.rules.http_common import routes, handler_fns

EXPLANATION = ("Decides for all request sequences: (a) no route handler can reach the queue-wiping IndexWriter::rollback, nor "
               "Wal::truncate other than through IndexWriter::commit — rollback clears every queued operation, including those "
               "acknowledged to earlier requests; (b) /add and /bulk queue through the all-or-nothing IndexWriter::add_documents "
               "only, in which no document check runs after the first log append, the queue is extended only after a successful "
               "append, and the append's failure arm restores queue length and log length recorded before the first append. "
               "Ordering of queued operations across requests is not decided.")

ROLLBACK = N.W + "::rollback"
ADD_DOCS = N.W + "::add_documents"
COMMIT = N.W + "::commit"


def reach_without(P, start, blocked):
    seen = set()
    st = [start]
    edges = P.edges()
    while st:
        n = st.pop()
        for (q, b, k) in edges.get(n, ()):
            if q in blocked or q in seen:
                continue
            seen.add(q)
            st.append(q)
    return seen


def r23a(ctx, P):
    rid = "R23.a"
    ctx.rule(rid, "WHO: no handler registered in `router` reaches IndexWriter::rollback, and none reaches Wal::truncate except "
                  "through IndexWriter::commit (positive control: IndexWriter::rollback -> Wal::truncate is visible in the same call graph)")
    r, rts, fbs = routes(P)
    if not ctx.anchor(rid, r, "searchlite_http::router") or rts is None:
        return None
    ctx.saw(r)
    ctx.floor(rid, len(rts), 11, "registered routes")
    for (path, method, h, site) in sorted(rts):
        hf = P.fn(h)
        if hf is None:
            ctx.ob(rid, "%s:%s:handler" % (rid, path), False, "handler %s of %s not in the fact base" % (h, path), site.loc())
            continue
        for f in handler_fns(P, h):
            ctx.saw(f)
        reach = P.reach(h)
        wipes = ROLLBACK in reach
        trunc_outside_commit = N.WAL_TRUNCATE in reach_without(P, h, {COMMIT})
        ok = not wipes and not trunc_outside_commit
        chain = None
        if not ok:
            cp = P.paths_to(h, lambda c: c == (ROLLBACK if wipes else N.WAL_TRUNCATE))
            chain = " -> ".join(x.split("::")[-1] for x in (cp or []))
        ctx.ob(rid, "%s:%s %s" % (rid, method.upper(), path), ok,
               "%s %s (%s) cannot wipe the shared queue" % (method.upper(), path, h.split("::")[-1]) if ok else
               "%s %s reaches %s (%s): a rejected request clears every queued operation, including documents and deletions that "
               "earlier requests were told are queued" % (method.upper(), path, "IndexWriter::rollback" if wipes else "Wal::truncate", chain),
               "%s:%s" % (hf.file, hf.line))
    pc = N.WAL_TRUNCATE in P.reach(ROLLBACK)
    ctx.ob(rid, "%s:positive-control" % rid, pc, "control: IndexWriter::rollback reaches Wal::truncate" if pc else
           "positive control failed: IndexWriter::rollback should reach Wal::truncate",
           "%s:%s" % (P.fn(ROLLBACK).file, P.fn(ROLLBACK).line) if P.fn(ROLLBACK) else None)
    return rts


def r23b(ctx, P, rts):
    rid = "R23.b"
    ctx.rule(rid, "ORDER: the handlers of /add and /bulk call into IndexWriter only through add_documents; in add_documents no "
                  "document check (validate_document / check_document / doc id extraction) is reachable from a log append, the queue "
                  "push lies on the append's success arm, and the append's failure arm truncates the queue and cuts the log back to "
                  "a length read before the first append")
    for (path, method, h, site) in sorted(rts):
        if path not in ("/add", "/bulk"):
            continue
        used = set()
        for f in handler_fns(P, h):
            for b, t in f.calls():
                cal = callee_of(t)
                if cal.startswith(N.W + "::"):
                    used.add(cal.rsplit("::", 1)[1])
        ok = used == {"add_documents"}
        ctx.ob(rid, "%s:%s:writer-api" % (rid, path), ok,
               "%s queues through IndexWriter::add_documents only" % path if ok else
               "%s uses IndexWriter::{%s}: per-document adds cannot be undone without dropping other requests' operations" % (path, ", ".join(sorted(used))),
               site.loc())
    f = P.inlined(ADD_DOCS)
    if not ctx.anchor(rid, f, "IndexWriter::add_documents"):
        return
    ctx.saw(f)
    sl = Slice(f)
    apps = [Site(f, b) for b, t in f.calls() if callee_of(t) == N.WAL + "::append_add_doc"]
    CHECKS = ("Schema::validate_document", "segment::check_document", "writer::doc_id_from_document")
    checks = [Site(f, b) for b, t in f.calls() if callee_of(t).endswith(CHECKS)]
    # a check that is a private helper of the same file is spliced into the analysed view: its entry marks the site
    checks += [Site(f, b) for b in f.reachable() if (f.blocks[b]["term"].get("inlined_call") or "").endswith(CHECKS)]
    kinds = {c for c in CHECKS if any((callee_of(t).endswith(c)) for b, t in f.calls()) or
             any((f.blocks[b]["term"].get("inlined_call") or "").endswith(c) for b in f.reachable())}
    # checks performed by a closure (iterator style: docs.iter().map(|d| check(d)).collect::<Result<_>>()?): they run where the
    # iterator is consumed — the last call of this function that receives the chain built around the closure
    slc = Slice(f, through_all_calls=True)
    for g in P.closures_of(P.fn(f.path) or f):
        reach_g = {g.path} | {q for q in P.reach(g.path)}
        inner = {c for c in CHECKS if any(callee_of(t).endswith(c) for b, t in g.calls()) or any(q.endswith(c) for q in reach_g)}
        if not inner:
            continue
        consumers = []
        for b, t in f.calls():
            for a in t["args"]:
                if any(x[0] == "agg" and x[3].get("closure") == g.path for x in slc.sources(a)):
                    consumers.append(b)
        if consumers:
            last = max(consumers, key=lambda bb: len(f.reachable_from(bb)) * -1)
            checks.append(Site(f, last))
            kinds |= inner
    ctx.floor(rid, min(len(apps), 1) + len(kinds), 4, "append + the three document checks (validate, id extraction, check_document) in add_documents")
    late = [c for c in checks for a in apps if c.b in f.reachable_from(a.b)]
    ctx.ob(rid, "%s:add_documents:checks-before-first-append" % rid, not late and bool(checks),
           "no document check can run after a log append: all documents are checked before the first one is written" if not late and checks else
           "document check at %s is reachable after the log append at %s: a later document can be rejected after earlier ones were "
           "written" % (late[0].loc() if late else "?", apps[0].loc() if apps else "?"), apps[0].loc() if apps else "%s:%s" % (f.file, f.line))
    for a in apps:
        arms = outcome_arms(f, a)
        pushes = [Site(f, b) for b, t in f.calls() if callee_of(t).endswith("Vec::<T, A>::push") and is_queue_receiver(f, sl, t["args"][0])]
        okp = bool(pushes) and all(in_arm(f, p, arms["ok"]) for p in pushes)
        ctx.ob(rid, "%s:add_documents:push-after-append" % rid, okp, "queue push only after a successful append" if okp else
               "queue push is not confined to the append's success arm", a.loc())
        # failure arm restores
        trunc_q = [Site(f, b) for b, t in f.calls() if callee_of(t).endswith("Vec::<T, A>::truncate") and "pending_ops" in sl.fields(t["args"][0])]
        trunc_w = [(Site(f, b), t) for b, t in f.calls() if callee_of(t) == N.WAL_TRUNCATE_TO]
        rq = any(in_arm(f, s, arms["err"]) for s in trunc_q)
        rw = False
        for s, t in trunc_w:
            if in_arm(f, s, arms["err"]):
                for (lb, lt) in sl.calls(t["args"][1]):
                    if callee_of(lt) == N.WAL + "::len" and not any(lb in f.reachable_from(x.b) for x in apps):
                        rw = True
        ctx.ob(rid, "%s:add_documents:failure-restores" % rid, rq and rw,
               "a failed append truncates the queue and cuts the log back to the length read before the first append" if rq and rw else
               "a failed append does not restore %s" % ("the queue" if not rq else "the log length recorded before the batch"), a.loc())
        errs = [s for s in arms["err"]]
        returns_err = bool(errs) and not any(o.b in f.reachable_from(e) for e in errs for o in ok_sites(f))
        ctx.ob(rid, "%s:add_documents:failure-is-error" % rid, returns_err, "a failed append returns an error" if returns_err else
               "a failed append can still return Ok", a.loc())


def r23c(ctx, P):
    rid = "R23.c"
    from sa.rules.C13 import _is_error_exit_test
    ctx.rule(rid, "EVERY ACKNOWLEDGED DELETE IS LOGGED: /delete answers `queued: n` for the ids it was given, so IndexWriter::"
                  "delete_documents must log and queue each of them. The Wal::append_delete_doc_id call inside its loop over the ids is "
                  "controlled by nothing but the loop test and error exits — no test on the handle's own view of the index (live_docs, "
                  "cached sets), which a freshly opened writer (one per HTTP request) does not share with the writer that queued an "
                  "earlier add")
    f = P.fn(N.W + "::delete_documents")
    if not ctx.anchor(rid, f, "IndexWriter::delete_documents"):
        return
    ctx.saw(f)
    apps = [b for b, t in f.calls() if callee_of(t) == N.WAL + "::append_delete_doc_id"]
    ctx.floor(rid, len(apps), 1, "Wal::append_delete_doc_id in delete_documents")
    for b in apps:
        extra = []
        for (a, succ) in f.control_deps_transitive(b):
            t = f.blocks[a]["term"]
            if t["k"] != "switch":
                continue
            if any("ForLoop" in m or "WhileLoop" in m or "QuestionMark" in m for m in (t.get("macros") or [])) or _is_error_exit_test(f, a):
                continue
            extra.append(Site(f, a))
        ctx.ob(rid, "%s:delete_documents:append-unconditional" % rid, not extra,
               "every id given to delete_documents is appended to the log" if not extra else
               "whether an id is logged at %s depends on the test at %s: a delete that was acknowledged can be dropped (for instance a "
               "delete of a document queued by an earlier request and not yet committed)" % (Site(f, b).loc(), extra[0].loc()), Site(f, b).loc())


THOROUGH_FEATURES = ['r23c']


def run(ctx, progs):
    P = progs.get("default")
    rts = r23a(ctx, P)
    if rts:
        r23b(ctx, P, rts)
    r23c(ctx, P)
    # R23.d = R02.f: the rollback point a failed /commit cuts the log back to is the real length of the log (every HTTP request opens a
    # fresh writer, whose append handle has not written yet)
    from sa.rules.C02 import r02f
    r02f(ctx, P, rid="R23.d")
    ctx.assumptions += ["one shared IndexWriter queue/WAL per index; HTTP handlers open a writer per request, which replays the queued operations of earlier requests from the WAL"]
