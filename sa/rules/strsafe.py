"""Byte-offset string APIs that panic when the offset is not a char boundary (or out of range), and a local discharge."""
import re
from sa.prog import Site, Slice, callee_of, op_const, op_local

# callee regex -> index of the byte-offset argument(s)
BYTE_OFFSET_APIS = [
    (re.compile(r"alloc::string::String::truncate$"), (1,)),
    (re.compile(r"alloc::string::String::(insert|insert_str|remove|split_off)$"), (1,)),
    (re.compile(r"alloc::string::String::(drain|replace_range)$"), (1,)),
    (re.compile(r"core::str::<impl str>::(split_at|split_at_mut)$"), (1,)),
    (re.compile(r"core::str::traits::<impl core::ops::index::Index(Mut)?<I> for str>::index(_mut)?$"), (1,)),
    (re.compile(r"<alloc::string::String as core::ops::index::Index(Mut)?<.*>>::index(_mut)?$"), (1,)),
]
SAFE_PRODUCERS = ("::len", "::find", "::rfind", "::char_indices", "::match_indices", "::rmatch_indices", "::floor_char_boundary",
                  "::ceil_char_boundary", "::len_utf8", "regex::regex::string::Match::<'h>::start", "regex::regex::string::Match::<'h>::end",
                  "::position", "::rposition")


def byte_offset_calls(f):
    out = []
    for b, t in f.calls():
        cal = callee_of(t)
        for rx, idxs in BYTE_OFFSET_APIS:
            if rx.search(cal):
                out.append((b, t, idxs))
    return out


def _leaf_offsets(f, sl, operand):
    """Operands that make up the offset: for a range aggregate its bounds, otherwise the operand itself."""
    outs = []
    for x in sl.sources(operand):
        if x[0] == "agg" and "ops::range::" in (x[3].get("adt") or ""):
            outs.extend(x[3]["ops"])
    return outs or [operand]


def char_boundary_safe(f, b, operand):
    """Why the byte offset is a char boundary, or None.  Accepted: the constant 0; a value produced only by boundary-returning
    calls (len, find, char_indices, Match::start/end, floor_char_boundary, ...) and sums of such; a named variable whose use is
    dominated by the true arm of an is_char_boundary test on it with no assignment in between."""
    sl = Slice(f, through_all_calls=False)
    reasons = []
    for o in _leaf_offsets(f, sl, operand):
        c = op_const(o) if isinstance(o, dict) else None
        if c is not None:
            if c.get("int") == 0:
                reasons.append("constant 0")
                continue
            return None
        srcs = sl.sources(o)
        consts = [x[1].get("int") for x in srcs if x[0] == "const"]
        calls = [callee_of(x[2]) for x in srcs if x[0] == "call"]
        binops = [x[1] for x in srcs if x[0] == "binop"]
        if calls and all(cl.endswith(SAFE_PRODUCERS) or cl.endswith(("Ord::min", "Ord::max", "::min", "::max", "::unwrap_or", "::unwrap_or_default", "Option::<T>::map"))
                         for cl in calls) and all(bo in ("Add", "AddWithOverflow") for bo in binops) and all(ci in (0, None) for ci in consts) and \
                any(cl.endswith(SAFE_PRODUCERS) for cl in calls):
            reasons.append("built from %s" % sorted({cl.rsplit("::", 1)[1] for cl in calls}))
            continue
        # is_char_boundary guard on the same variable
        named = _named_root(f, o)
        guarded = False
        if named is not None:
            for b2, t2 in f.calls():
                if callee_of(t2) != "core::str::<impl str>::is_char_boundary" or _named_root(f, t2["args"][1]) != named:
                    continue
                res = t2["dst"]["l"]
                for b3 in f.reachable():
                    t3 = f.blocks[b3]["term"]
                    if t3["k"] != "switch":
                        continue
                    l3 = op_local(t3["on"])
                    neg = False
                    if l3 != res:
                        dfs = f.defs().get(l3, [])
                        if len(dfs) == 1 and dfs[0]["k"] == "assign" and dfs[0]["rv"]["k"] == "unop" and op_local(dfs[0]["rv"]["a"]) == res:
                            neg = True
                        else:
                            continue
                    vals = dict(zip(t3["values"], t3["targets"]))
                    true_succ = t3["otherwise"] if 0 in vals else vals.get(1)
                    false_succ = vals.get(0)
                    if neg:
                        true_succ, false_succ = false_succ, true_succ
                    if true_succ is None or false_succ is None:
                        continue
                    if f.dominates_block(true_succ, b) and b not in f.reachable_from(false_succ, stop=[b2]):
                        mod = False
                        for x in f.reachable_from(true_succ, stop=[b2]):
                            if b in f.reachable_from(x, stop=[b2]) or x == b:
                                for s in f.blocks[x]["stmts"]:
                                    if s["k"] == "assign" and s["dst"]["l"] == named and not s["dst"]["p"]:
                                        mod = True
                        if not mod:
                            guarded = True
        if guarded:
            reasons.append("is_char_boundary-guarded")
            continue
        return None
    return "; ".join(reasons) if reasons else None


def _named_root(f, operand):
    l = op_local(operand)
    seen = set()
    while l is not None and l not in seen:
        seen.add(l)
        if f.locals[l].get("name"):
            return l
        dfs = [d for d in f.defs().get(l, []) if not d["partial"]]
        if len(dfs) != 1 or dfs[0]["k"] != "assign" or dfs[0]["rv"]["k"] not in ("use", "cast"):
            return None
        l = op_local(dfs[0]["rv"]["a"])
    return None
