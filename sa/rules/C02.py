"""C02 — queued operations survive crashes exactly once (partial)."""
import re
from sa import names as N
from sa.prog import (Site, Slice, TERM, callee_of, ok_sites, op_local, op_place, op_const, outcome_arms, in_arm,
                     lock_acquisitions, lock_states, return_sites, site_must_perform)
from sa.rules.common import is_test_or_bench

EXPLANATION = ("Decides the structural clauses recovery rests on: writer and reader agree on the record-type table and on what "
               "the CRC covers; replay leaves its loop at the first record failing an integrity test; the writer restores the "
               "queue under the writer lock from the log, handles every record kind, clears on a commit marker; rollback clears "
               "queue and log; Drop syncs a non-empty queue; and the log is cut back to its intact prefix before anything can "
               "be appended behind a torn tail. Does not decide exactly-once semantics over crash histories.")

WALENTRY = "searchlite_core::index::wal::WalEntry"


def find_replay(P):
    """The function of index::wal that reads the log file and builds WalEntry values."""
    c = []
    for p, f0 in P.fns.items():
        if not p.startswith("searchlite_core::index::wal::") or f0.kind == "closure" or is_test_or_bench(f0):
            continue
        # analysed with its private helpers of the same file spliced in (record parsing / checksum / decoding helpers)
        f = P.inlined(p)
        reads = any(t["callee"] == N.S_READ_TO_END for b, t in f.calls())
        builds = any(s["rv"]["k"] == "agg" and s["rv"].get("adt") == WALENTRY for b, i, s in f.stmts() if s["k"] == "assign")
        if reads and builds:
            c.append(f)
    return c[0] if len(c) == 1 else None


def norm_ty(t):
    t = t.strip()
    while t.startswith("&"):
        t = t[1:].lstrip()
        if t.startswith("'"):
            t = t.split(" ", 1)[1] if " " in t else t
        if t.startswith("mut "):
            t = t[4:]
    if t == "str":
        t = "alloc::string::String"
    return t


def _record_writer(P):
    """The private function of Wal through which the public append_* methods write a record (today: append_entry): the non-public
    function of index::wal that every public `Wal::append_*` calls with a constant type byte."""
    pubs = [f for q, f in P.fns.items() if q.startswith(N.WAL + "::append_") and f.vis == "Public" and f.kind != "closure"]
    cands = {}
    for f in pubs:
        for b, t in f.calls():
            g = P.fns.get(callee_of(t))
            if g is not None and g.path.startswith("searchlite_core::index::wal::") and g.vis != "Public" and len(t["args"]) >= 2 and \
                    any((op_const(a) or {}).get("int") is not None for a in t["args"][1:]):
                cands.setdefault(g.path, set()).add(f.path)
    best = [q for q, callers in cands.items() if len(callers) == len(pubs) and len(pubs) >= 2]
    return P.fns[best[0]] if len(best) == 1 else P.fn(N.WAL + "::append_entry")


def r02a(ctx, P):
    rid = "R02.a"
    ctx.rule(rid, "AGREE: the record-type byte written by each Wal::append_* (constant argument of append_entry) equals the byte "
                  "on which replay constructs the WalEntry variant with the same payload type; all variants are covered; the "
                  "writer's CRC covers type byte + payload in one update and the reader feeds type byte then payload")
    adt = P.adts.get(WALENTRY)
    rep = find_replay(P)
    app = _record_writer(P)
    if not (ctx.anchor(rid, adt, "WalEntry enum") and ctx.anchor(rid, rep, "wal replay function") and
            ctx.anchor(rid, app, "the record writer behind Wal::append_* (append_entry)")):
        return None
    ctx.saw(rep)
    ctx.saw(app)
    variants = {v["name"]: [norm_ty(f[1]) for f in v["fields"]] for v in adt["variants"]}
    # writer side
    writer = {}
    for p, f in P.fns.items():
        if f.kind == "closure" or is_test_or_bench(f) or p == app.path:
            continue
        for b, t in f.calls():
            if callee_of(t) == app.path:
                c = op_const(t["args"][1])
                code = c.get("int") if c else None
                payload_tys = [norm_ty(f.arg_ty(i)) for i in range(2, f.arg_count + 1)]
                writer[f.path] = (code, payload_tys, Site(f, b))
                ctx.saw(f)
    ctx.floor(rid + ".writers", len(writer), 3, "functions calling append_entry with a constant type code")
    # reader side: the switch on the entry-type byte
    reader = {}
    sw_block = None
    for b in sorted(rep.reachable()):
        t = rep.blocks[b]["term"]
        if t["k"] == "switch" and t.get("on_ty") == "u8" and len(t["values"]) >= 2:
            for v, tg in zip(t["values"], t["targets"]):
                region = rep.dominated_region(tg) | {tg}
                vs = set()

                def variants_in(g, blocks_, depth=0):
                    out = set()
                    for rb in blocks_:
                        for s_ in g.blocks[rb]["stmts"]:
                            if s_["k"] != "assign":
                                continue
                            rv_ = s_["rv"]
                            if rv_["k"] == "agg" and rv_.get("adt") == WALENTRY:
                                out.add(rv_["variant"])
                            # a closure built here that constructs the entry (`.map(|x| WalEntry::V(x))`)
                            if rv_["k"] == "agg" and rv_.get("closure") and depth < 2 and P.fn(rv_["closure"]) is not None:
                                h = P.fn(rv_["closure"])
                                out |= variants_in(h, sorted(h.reachable()), depth + 1)
                        tt = g.blocks[rb]["term"]
                        if tt["k"] == "call":
                            # the variant constructor passed as a function (`.map(WalEntry::V)`)
                            for a in tt["args"]:
                                c = op_const(a)
                                fnp = (c or {}).get("resolved") or (c or {}).get("fn") or ""
                                if fnp.startswith(WALENTRY + "::"):
                                    out.add(fnp.rsplit("::", 1)[1])
                            cal_ = callee_of(tt)
                            if cal_.startswith(WALENTRY + "::"):
                                out.add(cal_.rsplit("::", 1)[1])
                    return out
                vs = variants_in(rep, sorted(region))
                reader[v] = vs
            sw_block = b
    if not ctx.anchor(rid, sw_block is not None, "switch on the record-type byte in replay"):
        return rep
    seen_variants = set()
    for wpath, (code, ptys, site) in sorted(writer.items()):
        want = [vn for vn, ftys in variants.items() if ftys == ptys]
        got = reader.get(code, set())
        ok = code is not None and len(want) == 1 and got == set(want)
        seen_variants |= got
        ctx.ob(rid, "%s:%s:type-code" % (rid, P.fns[wpath].short), ok,
               "%s writes type %s, replay builds %s for it (payload %s)" % (P.fns[wpath].short, code, sorted(got), ptys) if ok else
               "%s writes type %s with payload %s, but replay maps %s to %s (expected variant %s)"
               % (P.fns[wpath].short, code, ptys, code, sorted(got), want), site.loc())
    missing = set(variants) - seen_variants
    ctx.ob(rid, "%s:variants-covered" % rid, not missing,
           "every WalEntry variant %s has a writer and a replay arm" % sorted(variants) if not missing else
           "WalEntry variants without a matching writer/replay arm: %s" % sorted(missing),
           "%s:%s" % (adt["file"], adt["line"]))
    extra = set(reader) - {c for c, _, _ in writer.values()}
    ctx.ob(rid, "%s:no-unwritten-codes" % rid, not extra,
           "replay decodes only type codes that a writer produces" if not extra else
           "replay decodes type codes %s that no writer produces" % sorted(extra), Site(rep, sw_block).loc())
    # CRC coverage (coarse, stated as such)
    app0 = app
    app = P.inlined(app.path)      # a shared checksum helper is spliced in
    upd_w = [(b, t) for b, t in app.calls() if callee_of(t) == "crc32fast::Hasher::update"]
    sl = Slice(app, through_all_calls=True)
    okw = False
    if len(upd_w) == 2:
        # two updates: [type byte] then the payload — the same shape the reader uses
        upd_w.sort(key=lambda x: sum(1 for y in upd_w if app.dominates(Site(app, y[0]), Site(app, x[0]))))
        s0, s1 = Slice(app).sources(upd_w[0][1]["args"][1]), Slice(app).sources(upd_w[1][1]["args"][1])
        first_is_type = any(x[0] == "agg" and x[3].get("ak") == "array" for x in s0) and 2 in Slice(app).args(upd_w[0][1]["args"][1]) and \
            3 not in Slice(app).args(upd_w[0][1]["args"][1])
        second_is_payload = 3 in Slice(app).args(upd_w[1][1]["args"][1]) and 2 not in Slice(app).args(upd_w[1][1]["args"][1])
        okw = first_is_type and second_is_payload
    if len(upd_w) == 1:
        src = sl.sources(upd_w[0][1]["args"][1])
        has_sub1 = any(s[0] == "binop" and s[1].startswith("Sub") for s in src) and \
            any(s[0] == "const" and s[1].get("int") == 1 for s in src)
        has_payload_len = any(s[0] == "call" and callee_of(s[2]).endswith("::len") and 3 in Slice(app).args(s[2]["args"][0]) for s in src)
        has_payload_len = has_payload_len and any(s[0] == "agg" and s[3].get("adt", "").endswith("RangeFrom") for s in src)
        okw = has_sub1 and has_payload_len
    ctx.ob(rid, "%s:Wal::append_entry:crc-input" % rid, okw,
           "writer CRC covers the type byte followed by the payload" if okw else
           "writer CRC input is neither 'one update over type byte + payload' nor 'update([type]); update(payload)'",
           Site(app, upd_w[0][0]).loc() if upd_w else "%s:%s" % (app.file, app.line))
    upd_r = [(b, t) for b, t in rep.calls() if callee_of(t) == "crc32fast::Hasher::update"]
    slr = Slice(rep)
    type_local = op_local(rep.blocks[sw_block]["term"]["on"])
    okr = False
    if len(upd_r) == 2:
        upd_r.sort(key=lambda x: sum(1 for y in upd_r if rep.dominates(Site(rep, y[0]), Site(rep, x[0]))))
        first = slr.sources(upd_r[0][1]["args"][1])
        second = slr.sources(upd_r[1][1]["args"][1])
        type_roots = _copies_of(rep, type_local)

        def byte_reads(local):
            """u8 locals read out of the log buffer (`data[i]`) that this local derives from (through copies, struct fields, arguments)"""
            out = set()
            for l_ in Slice(rep, through_all_calls=False).locals({"cp": {"l": local, "p": []}}) | {local}:
                if rep.local_ty(l_) != "u8":
                    continue
                for d_ in rep.defs().get(l_, []):
                    if d_["k"] == "assign" and d_["rv"]["k"] in ("use", "cast"):
                        pl_ = op_place(d_["rv"]["a"])
                        if pl_ and any(isinstance(e, dict) and "index" in e for e in pl_["p"]):
                            out.add(l_)
                        elif pl_ and pl_["p"] == ["deref"]:
                            # `*data.get(i)?`: a byte read through the reference slice::get handed out, out of the log buffer
                            srcs_ = Slice(rep, through_all_calls=True).sources({"cp": {"l": pl_["l"], "p": []}})
                            if any(x_[0] == "call" and re.search(r"slice::<impl \[T\]>::get$", callee_of(x_[2])) for x_ in srcs_) and \
                                    any(x_[0] == "call" and x_[2]["callee"] == N.S_READ_TO_END for x_ in srcs_):
                                out.add(l_)
            return out
        type_bytes = byte_reads(type_local)
        first_is_type = any(s[0] == "agg" and s[3].get("ak") == "array" and any(op_local(o) == type_local or
                            (_copies_of(rep, op_local(o)) & type_roots) or (op_local(o) is not None and byte_reads(op_local(o)) & type_bytes)
                            for o in s[3]["ops"]) for s in first)
        second_is_payload = any(s[0] == "call" and "::index" in callee_of(s[2]) for s in second) and not any(
            s[0] == "agg" and s[3].get("ak") == "array" for s in second)
        okr = first_is_type and second_is_payload
    ctx.ob(rid, "%s:replay:crc-input" % rid, okr,
           "reader CRC receives [type byte] then the payload slice" if okr else
           "reader CRC input does not have the shape 'update([type]); update(payload)'",
           Site(rep, upd_r[0][0]).loc() if upd_r else "%s:%s" % (rep.file, rep.line))
    return rep


def _copies_of(fn, l):
    out = set()
    seen = set()
    while l is not None and l not in seen:
        seen.add(l)
        out.add(l)
        dfs = fn.defs().get(l, [])
        if len(dfs) == 1 and dfs[0]["k"] == "assign" and dfs[0]["rv"]["k"] == "use":
            l = op_local(dfs[0]["rv"]["a"])
        else:
            break
    return out


def loop_header(fn, entries_push_blocks):
    """Header of the outermost loop containing the push blocks: the dominator of a push block that is reachable
    from it again (back edge target)."""
    cands = []
    for b in fn.reachable():
        if any(b in fn.reachable_from(s) for s in fn.succ(b)):
            if all(fn.dominates_block(b, pb) for pb in entries_push_blocks):
                cands.append(b)
    # outermost = the one dominating the others
    cands.sort(key=lambda b: sum(1 for o in cands if fn.dominates_block(o, b)))
    return cands[0] if cands else None


def r02b(ctx, P, rep):
    rid = "R02.b"
    ctx.rule(rid, "GUARD: in replay every integrity test (varint error, length conversion/overflow, bound comparisons against "
                  "the buffer length, checksum mismatch) leaves the loop on its failing arm: the loop header is not reachable "
                  "from that arm, so no later record is accepted after a bad one")
    sl = Slice(rep)
    pushes = [b for b, t in rep.calls() if callee_of(t).endswith("Vec::<T, A>::push") and
              "WalEntry" in rep.local_ty(op_local(t["args"][1]) or 0)]
    hdr = loop_header(rep, pushes) if pushes else None
    if not ctx.anchor(rid, hdr is not None, "replay loop"):
        return
    body = {b for b in rep.reachable_from(hdr) if hdr in rep.reachable_from(b)}
    n = 0
    data_locals = {i for i, l in enumerate(rep.locals) if l.get("name") == "data"}

    def is_len_of_data(operand):
        """operand is `len()` of the buffer returned by Storage::read_to_end"""
        for s in sl.sources(operand):
            if s[0] == "call" and callee_of(s[2]).endswith("::len"):
                base = sl.sources(s[2]["args"][0])
                if any(k[0] == "call" and k[2]["callee"] == N.S_READ_TO_END for k in base):
                    return True
        return False

    # (1) fallible helper calls inside the loop
    for b, t in rep.calls():
        if b not in body:
            continue
        cal = callee_of(t)
        integrity = cal.endswith("varint::read_u64") or "checked_add" in cal or "try_from" in cal or "TryFrom" in cal \
            or "checked_" in cal
        if not integrity:
            continue
        arms = outcome_arms(rep, Site(rep, b))
        fail_blocks = arms["err"]      # outcome_arms reads the polarity (Result / Option / ControlFlow) off the carrier's type
        n += 1
        back = [fb for fb in fail_blocks if hdr in rep.reachable_from(fb)]
        ctx.ob(rid, "%s:replay:%s:fail-exits-loop" % (rid, _tail(cal)), bool(fail_blocks) and not back,
               "failure of %s at %s leaves the replay loop" % (_tail(cal), Site(rep, b).loc()) if fail_blocks and not back else
               ("cannot identify the failure arm of %s" % _tail(cal) if not fail_blocks else
                "after %s fails at %s the loop continues with later records" % (_tail(cal), Site(rep, b).loc())),
               Site(rep, b).loc())
    # (2) comparisons against the buffer length / checksum comparison
    for b in sorted(body):
        t = rep.blocks[b]["term"]
        if t["k"] != "switch" or b == hdr:
            continue
        l = op_local(t["on"])
        if l is None:
            continue
        dfs = rep.defs().get(l, [])
        if len(dfs) != 1:
            continue
        df = dfs[0]
        beyond = None
        what = None
        if df["k"] == "assign" and df["rv"]["k"] == "binop" and df["rv"]["op"] in ("Ge", "Gt", "Lt", "Le"):
            a, bb = df["rv"]["a"], df["rv"]["b"]
            op = df["rv"]["op"]
            if is_len_of_data(bb) and not is_len_of_data(a):
                beyond = 1 if op in ("Ge", "Gt") else 0
            elif is_len_of_data(a) and not is_len_of_data(bb):
                beyond = 1 if op in ("Lt", "Le") else 0
            what = "bound-test(%s)" % op
        elif df["k"] == "call" and callee_of(df["t"]).endswith(("::ne", "::eq")):
            srcs = []
            for a in df["t"]["args"]:
                srcs += Slice(rep, through_all_calls=True).sources(a)
            if any(s[0] == "call" and callee_of(s[2]) == "crc32fast::Hasher::finalize" for s in srcs):
                beyond = 1 if callee_of(df["t"]).endswith("::ne") else 0
                what = "checksum-compare"
        if beyond is None:
            continue
        n += 1
        vals = dict(zip(t["values"], t["targets"]))
        fail_succ = vals.get(beyond, t["otherwise"]) if beyond == 0 else (vals[1] if 1 in vals else t["otherwise"])
        back = hdr in rep.reachable_from(fail_succ)
        ctx.ob(rid, "%s:replay:%s:fail-exits-loop" % (rid, what), not back,
               "failing %s at %s leaves the replay loop" % (what, Site(rep, b).loc()) if not back else
               "after a failing %s at %s the loop continues with later records" % (what, Site(rep, b).loc()), Site(rep, b).loc())
    ctx.floor(rid, n, 6, "integrity tests in the replay loop")


def _tail(c):
    return c.rsplit("::", 1)[1] if "::" in c else c


def _r02c_split_form(ctx, P, rid):
    """`let last = entries.iter().rposition(|e| matches!(e, Commit)); match last { Some(i) => entries.split_off(i + 1), None => entries }`:
    the pending list is what follows the LAST commit marker."""
    adt = P.adts.get(WALENTRY)
    if adt is None:
        return False
    commit_idx = [i for i, v in enumerate(adt["variants"]) if v["name"] == "Commit"][0]
    for p, f in sorted(P.fns.items()):
        if not p.startswith("searchlite_core::index::wal::") or f.kind == "closure" or is_test_or_bench(f):
            continue
        sl = Slice(f, through_all_calls=True)
        rpos = [(b, t) for b, t in f.calls() if callee_of(t).endswith(("::rposition", "Iterator::rposition"))]
        splits = [(b, t) for b, t in f.calls() if callee_of(t).endswith("Vec::<T, A>::split_off") and WALENTRY in f.local_ty(op_local(t["args"][0]) or 0)]
        if not rpos or not splits:
            continue
        ctx.saw(f)
        rb, rt = rpos[0]
        # the predicate is `is Commit`
        is_commit = False
        for x in sl.sources(rt["args"][1]):
            if x[0] == "agg" and x[3].get("closure") and P.fn(x[3]["closure"]) is not None:
                h = P.fn(x[3]["closure"])
                for hb in h.reachable():
                    ht = h.blocks[hb]["term"]
                    if ht["k"] != "switch":
                        continue
                    for y in Slice(h).sources(ht["on"]):
                        if y[0] == "discr":
                            vals = dict(zip(ht["values"], ht["targets"]))
                            tg = vals.get(commit_idx)
                            if tg is not None:
                                # the Commit arm yields true, every other arm false
                                tv = {(op_const(d["rv"]["a"]) or {}).get("int") for d in h.defs().get(0, []) if d["k"] == "assign" and
                                      d["rv"]["k"] == "use" and h.dominates_block(tg, d["b"])}
                                ov = {(op_const(d["rv"]["a"]) or {}).get("int") for d in h.defs().get(0, []) if d["k"] == "assign" and
                                      d["rv"]["k"] == "use" and not h.dominates_block(tg, d["b"])}
                                is_commit = tv == {1} and ov == {0}
        sb, st = splits[0]
        src = Slice(f).sources(st["args"][1])
        plus_one = any(x[0] == "binop" and x[1].startswith("Add") for x in src) and any(x[0] == "const" and x[1].get("int") == 1 for x in src) and \
            any(x[0] == "call" and x[1] == rb for x in sl.sources(st["args"][1]))
        same_list = bool(Slice(f).locals(st["args"][0]) & Slice(f).locals(rt["args"][0])) or \
            bool({l for l in sl.locals(st["args"][0]) if f.locals[l].get("name")} & {l for l in sl.locals(rt["args"][0]) if f.locals[l].get("name")})
        from sa.prog import outcome_arms as _oa
        arms = _oa(f, Site(f, rb))
        in_some = any(f.dominates_block(a, sb) for a in arms["ok"])
        okf = is_commit and plus_one and same_list and in_some
        ctx.ob(rid, "%s:%s:commit-clears" % (rid, f.short), okf,
               "the pending list is what follows the last Commit record (rposition + split_off(i + 1))" if okf else
               "the pending list is not `everything after the LAST Commit record` (%s)" % (
                   "predicate is not `is Commit`" if not is_commit else "split point is not last commit + 1" if not plus_one else
                   "another list is split" if not same_list else "split is not on the found arm"), Site(f, sb).loc())
        return True
    return False


def r02c(ctx, P):
    rid = "R02.c"
    ctx.rule(rid, "ORDER: IndexWriter::new restores the queue from the log under the writer lock and handles every WalEntry "
                  "variant; the pending-op fold clears on a Commit marker; rollback clears the queue and truncates the log on "
                  "every success path; Drop syncs the log whenever the queue is non-empty")
    new = P.inlined(N.W + "::new")
    if ctx.anchor(rid, new, "IndexWriter::new"):
        ctx.saw(new)
        acq = lock_acquisitions(new, field="writer_lock")
        ctx.floor(rid + ".lock", len(acq), 1, "writer_lock acquisition in IndexWriter::new")
        rec = [Site(new, b) for b, t in new.calls() if P.call_reaches(t, lambda c: c == N.S_READ_TO_END)
               and callee_of(t).startswith("searchlite_core::index::wal::")]
        ctx.floor(rid + ".recover", len(rec), 1, "log recovery call in IndexWriter::new")
        for (asite, g, _c) in acq[:1]:
            st = lock_states(new, asite, g)
            for r in rec:
                ok = st(r) == {"L"}
                ctx.ob(rid, "%s:IndexWriter::new:recover-under-lock" % rid, ok,
                       "the log is read at %s while the writer lock is held" % r.loc() if ok else
                       "the log is read at %s without the writer lock held on every path" % r.loc(), r.loc())
        for r in rec:
            good = all(new.dominates(r, o) for o in ok_sites(new))
            ctx.ob(rid, "%s:IndexWriter::new:recover-before-construct" % rid, good,
                   "every successful construction is preceded by log recovery" if good else
                   "IndexWriter::new can succeed without reading the log", r.loc())
        # all variants handled: the switch on discr of a WalEntry covers every variant index
        adt = P.adts.get(WALENTRY)
        nvar = len(adt["variants"]) if adt else 0
        covered = None
        for b in sorted(new.reachable()):
            t = new.blocks[b]["term"]
            if t["k"] == "switch":
                l = op_local(t["on"])
                for df in new.defs().get(l, []):
                    if df["k"] == "assign" and df["rv"]["k"] == "discr" and new.local_ty(df["rv"]["place"]["l"]) == WALENTRY:
                        covered = (b, t)
        if ctx.anchor(rid, covered is not None, "match on WalEntry in IndexWriter::new"):
            b, t = covered
            push_arms = 0
            # an arm "queues an operation" if it pushes onto a Vec<PendingOp> itself, or builds a PendingOp value that flows
            # into such a push behind the match (`let op = match entry {..}; ops.push(op)`)
            sl_new = Slice(new, through_all_calls=True)
            op_pushes = [(pb, pt) for pb, pt in new.calls() if callee_of(pt).endswith("Vec::<T, A>::push") and pt["args"] and
                         "PendingOp" in new.local_ty(op_local(pt["args"][0]) or 0)]
            for v, tg in zip(t["values"], t["targets"]):
                region = new.dominated_region(tg) | {tg}
                direct = any(pb in region for pb, pt in op_pushes)
                built = False
                for pb, pt in op_pushes:
                    for x in sl_new.sources(pt["args"][1]):
                        if x[0] == "agg" and (x[3].get("adt") or "").endswith("writer::PendingOp") and x[1] in region:
                            built = True
                if direct or built:
                    push_arms += 1
            okv = len(t["values"]) == nvar and push_arms == nvar - 1
            ctx.ob(rid, "%s:IndexWriter::new:variants-handled" % rid, okv,
                   "all %d WalEntry variants are matched; %d of them queue an operation (Commit queues nothing)" % (nvar, push_arms)
                   if okv else "IndexWriter::new matches %d of %d WalEntry variants / %d queue an operation"
                   % (len(t["values"]), nvar, push_arms), Site(new, b).loc())
    # fold clears on Commit
    fold = None
    for p, f in P.fns.items():
        if p.startswith("searchlite_core::index::wal::") and f.kind != "closure" and not is_test_or_bench(f):
            matches_entry = any(s["k"] == "assign" and s["rv"]["k"] == "discr" and f.local_ty(s["rv"]["place"]["l"]) == WALENTRY
                                for b, i, s in f.stmts())
            pushes_entry = any(callee_of(t).endswith("Vec::<T, A>::push") and WALENTRY in f.local_ty(op_local(t["args"][1]) or 0)
                               for b, t in f.calls())
            builds = any(s["k"] == "assign" and s["rv"]["k"] == "agg" and s["rv"].get("adt") == WALENTRY for b, i, s in f.stmts())
            if matches_entry and pushes_entry and not builds:
                fold = f
    if fold is None and _r02c_split_form(ctx, P, rid):
        pass
    elif ctx.anchor(rid, fold, "pending-op fold in index::wal"):
        ctx.saw(fold)
        okf = False
        where = None
        adt = P.adts.get(WALENTRY)
        commit_idx = [i for i, v in enumerate(adt["variants"]) if v["name"] == "Commit"][0]
        for b in sorted(fold.reachable()):
            t = fold.blocks[b]["term"]
            if t["k"] != "switch":
                continue
            l = op_local(t["on"])
            for df in fold.defs().get(l, []):
                if df["k"] == "assign" and df["rv"]["k"] == "discr" and fold.local_ty(df["rv"]["place"]["l"]) == WALENTRY:
                    vals = dict(zip(t["values"], t["targets"]))
                    tg = vals.get(commit_idx, t["otherwise"])
                    region = fold.dominated_region(tg)
                    clears = any(fold.blocks[rb]["term"]["k"] == "call" and callee_of(fold.blocks[rb]["term"]).endswith("Vec::<T, A>::clear") for rb in region)
                    pushes = any(fold.blocks[rb]["term"]["k"] == "call" and callee_of(fold.blocks[rb]["term"]).endswith("Vec::<T, A>::push") for rb in region)
                    okf = clears and not pushes
                    where = Site(fold, b).loc()
        ctx.ob(rid, "%s:%s:commit-clears" % (rid, fold.short), okf,
               "a Commit record clears the pending list (and is not queued itself)" if okf else
               "the Commit arm of the pending-op fold does not clear the list", where or "%s:%s" % (fold.file, fold.line))
    # rollback
    rb = P.fn(N.W + "::rollback")
    if ctx.anchor(rid, rb, "IndexWriter::rollback"):
        ctx.saw(rb)
        sl = Slice(rb)
        clears = [Site(rb, b) for b, t in rb.calls() if callee_of(t).endswith("Vec::<T, A>::clear") and "pending_ops" in sl.fields(t["args"][0])]
        truncs = [Site(rb, b) for b, t in rb.calls() if site_must_perform(P, rb, b, t, N.is_(N.F_SET_LEN))]
        oks = ok_sites(rb)
        g1 = bool(clears) and all(any(rb.dominates(c, o) for c in clears) for o in oks)
        g2 = bool(truncs) and all(any(rb.dominates(c, o) and in_arm(rb, o, outcome_arms(rb, c)["ok"]) for c in truncs) for o in oks)
        ctx.ob(rid, "%s:IndexWriter::rollback:clears-queue" % rid, g1, "rollback clears the queue on every success path" if g1 else
               "rollback can return Ok without clearing the queue", "%s:%s" % (rb.file, rb.line))
        ctx.ob(rid, "%s:IndexWriter::rollback:truncates-log" % rid, g2, "rollback truncates the log (and checks its result) on every success path" if g2 else
               "rollback can return Ok without a successful log truncation", "%s:%s" % (rb.file, rb.line))
    # Drop
    dr = P.fn("<searchlite_core::api::writer::IndexWriter as core::ops::drop::Drop>::drop")
    if ctx.anchor(rid, dr, "<IndexWriter as Drop>::drop"):
        ctx.saw(dr)
        sl = Slice(dr)
        # the call must fsync on every success path of its callee chain (a helper that syncs only under some flag does not count)
        syncs = [Site(dr, b) for b, t in dr.calls() if site_must_perform(P, dr, b, t, N.is_(N.F_SYNC_ALL))]
        okd = False
        for s in syncs:
            deps = dr.control_deps_transitive(s.b)
            conds = []
            for (a, succ) in deps:
                t = dr.blocks[a]["term"]
                if t["k"] != "switch":
                    continue
                cs = sl.calls(t["on"])
                is_empty_test = any(callee_of(x[1]).endswith("::is_empty") and "pending_ops" in sl.fields(x[1]["args"][0]) for x in cs)
                conds.append((a, succ, is_empty_test))
            # the sync may only be guarded by `pending_ops.is_empty()` tests
            okd = all(c[2] for c in conds)
        ctx.ob(rid, "%s:IndexWriter::drop:syncs-when-queued" % rid, bool(syncs) and okd,
               "Drop syncs the log whenever pending_ops is non-empty" if syncs and okd else
               "Drop does not sync the log on every path with a non-empty queue", "%s:%s" % (dr.file, dr.line))


def r02d(ctx, P):
    rid = "R02.d"
    ctx.rule(rid, "FLOW: on every success path of IndexWriter::new the log is cut back (StorageFile::set_len) to a length that "
                  "derives from the replay scan of that log, before the writer is returned; the cut may be skipped only on a "
                  "comparison of the log length with that same valid length. Necessary because the log is opened in append "
                  "mode: records appended behind a torn tail are cut off by stop-at-first-bad-record on the next replay")
    new = P.fn(N.W + "::new")
    if not ctx.anchor(rid, new, "IndexWriter::new"):
        return
    sl = Slice(new)
    scan_calls = [(b, t) for b, t in new.calls() if callee_of(t).startswith("searchlite_core::index::wal::")
                  and P.call_reaches(t, lambda c: c == N.S_READ_TO_END)]
    cuts = []
    for b, t in new.calls():
        if not P.call_reaches(t, N.is_(N.F_SET_LEN)):
            continue
        # some argument derives from the scan result
        for a in t["args"][1:]:
            if any(sb == b2 for (b2, _t2) in sl.calls(a) for (sb, _st) in scan_calls):
                cuts.append((b, t, a))
    key = "%s:IndexWriter::new:truncate-to-valid-prefix" % rid
    if not cuts:
        ctx.ob(rid, key, False,
               "IndexWriter::new never cuts the log back to the intact prefix found by replay: records appended after a torn "
               "tail are lost on the next replay", "%s:%s" % (new.file, new.line),
               {"scan_calls": [Site(new, b).loc() for b, _ in scan_calls]})
        return
    for b, t, lenarg in cuts:
        cut = Site(new, b)
        len_sources = {id(x[2]) for x in sl.sources(lenarg) if x[0] == "call"}
        bad = []
        for o in ok_sites(new):
            if new.dominates(cut, o) and in_arm(new, o, outcome_arms(new, cut)["ok"]):
                continue
            # conditions under which the cut is skipped
            skip = new.control_deps_transitive(cut.b) - new.control_deps_transitive(o.b)
            for (a, succ) in skip:
                tt = new.blocks[a]["term"]
                if tt["k"] != "switch":
                    continue
                okc = False
                for s in sl.sources(tt["on"]):
                    if s[0] == "binop" and s[1] in ("Gt", "Ge", "Lt", "Le", "Ne", "Eq"):
                        srcs = sl.sources(tt["on"])
                        has_len = any(x[0] == "call" and callee_of(x[2]) == N.WAL + "::len" for x in srcs)
                        has_valid = any(x[0] == "call" and any(x[2] is st for (_sb, st) in scan_calls) for x in srcs)
                        okc = has_len and has_valid
                    if s[0] == "call" and "try_trait" in callee_of(s[2]):
                        okc = True  # `?` residual tests are error exits, not skips
                if not okc:
                    bad.append((o, a))
        ctx.ob(rid, key, not bad,
               "the log is cut to the valid prefix at %s before every successful return (skipped only when len <= valid_len)" % cut.loc()
               if not bad else "IndexWriter::new can return Ok at %s without cutting the log: skip condition at %s is not a "
                               "length-vs-valid-prefix comparison" % (bad[0][0].loc(), Site(new, bad[0][1]).loc()), cut.loc())
    # the cut happens under the writer lock
    acq = lock_acquisitions(new, field="writer_lock")
    for (asite, g, _c) in acq[:1]:
        st = lock_states(new, asite, g)
        for b, t, _ in cuts:
            ok = st(Site(new, b)) == {"L"}
            ctx.ob(rid, "%s:IndexWriter::new:truncate-under-lock" % rid, ok,
                   "the cut runs under the writer lock" if ok else "the cut at %s is not under the writer lock" % Site(new, b).loc(),
                   Site(new, b).loc())
    # the scan's valid length is updated only after the checksum test passed
    rep = find_replay(P)
    if rep is not None:
        vl = [i for i, l in enumerate(rep.locals) if l.get("user") and l["ty"] in ("usize", "u64")]
        # locals returned in the Ok tuple together with the entries
        ret_locals = set()
        for s in ok_sites(rep):
            st = rep.blocks[s.b]["stmts"][s.i]
            for src in Slice(rep).sources(st["rv"]["ops"][0]):
                if src[0] == "agg" and src[3].get("ak") == "tuple":
                    for o in src[3]["ops"]:
                        for s2 in Slice(rep).sources(o):
                            if s2[0] == "field":
                                pass
                        l = op_local(o)
                        if l is not None:
                            ret_locals |= _roots(rep, l)
        cand = [l for l in ret_locals if rep.locals[l]["ty"] in ("usize", "u64") and rep.locals[l].get("name")]
        for l in cand:
            for df in rep.defs().get(l, []):
                if df["k"] != "assign":
                    continue
                c = op_const(df["rv"].get("a", {})) if df["rv"]["k"] == "use" else None
                if c is not None and c.get("int") == 0:
                    continue
                site = Site(rep, df["b"], df["i"])
                # must be dominated by the not-equal=false arm of the checksum compare
                okd = False
                for b2 in rep.reachable():
                    t2 = rep.blocks[b2]["term"]
                    if t2["k"] != "switch":
                        continue
                    dl = op_local(t2["on"])
                    for d2 in rep.defs().get(dl, []):
                        if d2["k"] == "call" and callee_of(d2["t"]).endswith(("::ne", "::eq")):
                            srcs = []
                            for a in d2["t"]["args"]:
                                srcs += Slice(rep, through_all_calls=True).sources(a)
                            if any(x[0] == "call" and callee_of(x[2]) == "crc32fast::Hasher::finalize" for x in srcs):
                                vals = dict(zip(t2["values"], t2["targets"]))
                                pass_val = 0 if callee_of(d2["t"]).endswith("::ne") else 1
                                tg = vals.get(pass_val, t2["otherwise"]) if pass_val == 0 else t2["otherwise"] if 1 not in vals else vals[1]
                                if rep.dominates_block(tg, site.b):
                                    okd = True
                ctx.ob(rid, "%s:%s:valid-len-after-checksum" % (rid, rep.short), okd,
                       "the valid-prefix length advances only after a record's checksum verified" if okd else
                       "the valid-prefix length is advanced at %s without a verified checksum" % site.loc(), site.loc())


def _roots(fn, l):
    out = set()
    seen = set()
    work = [l]
    while work:
        x = work.pop()
        if x in seen or x is None:
            continue
        seen.add(x)
        if fn.locals[x].get("name"):
            out.add(x)
            continue
        for df in fn.defs().get(x, []):
            if df["k"] == "assign" and df["rv"]["k"] in ("use", "cast"):
                work.append(op_local(df["rv"]["a"]))
    return out


def r02e(ctx, P, rid="R02.e"):
    ctx.rule(rid, "PAIR (a shortened log is made durable): in every function of the crate that shortens a storage file "
                  "(StorageFile::set_len), every path from the set_len call to a success return passes a sync_all call. Otherwise a "
                  "rollback (or a batch rewind, or the torn-tail cut) that returned Ok can be undone by a power loss: the discarded "
                  "records, already durable from an earlier Drop / commit attempt, come back and are replayed into the next commit")
    from sa.prog import ok_sites, return_sites
    n = 0
    for q, f in sorted(P.fns.items()):
        if f.crate != "searchlite_core" or is_test_or_bench(f):
            continue
        cuts = [b for b, t in f.calls() if callee_of(t) == "searchlite_core::storage::StorageFile::set_len"]
        if not cuts:
            continue
        ctx.saw(f)
        syncs = [b for b, t in f.calls() if callee_of(t).endswith(("StorageFile::sync_all", "File::sync_all", "File::sync_data"))]
        rets = [s_ for s_, k in return_sites(f) if k in ("ok", "other", "tail")] or \
            [Site(f, b, -1) for b in f.reachable() if f.blocks[b]["term"]["k"] == "return"]
        for cb in cuts:
            n += 1
            leak = None
            for r in rets:
                if r.b in f.reachable_from(cb) and f.cfg_path(cb, r.b, avoid=syncs) is not None and r.b not in syncs:
                    leak = r
            ctx.ob(rid, "%s:%s:set_len-then-sync" % (rid, f.short), leak is None,
                   "the cut at %s is followed by sync_all on every path to a success return" % Site(f, cb).loc() if leak is None else
                   "%s shortens the file at %s and can return success at %s without sync_all: the shorter length is not durable"
                   % (f.short, Site(f, cb).loc(), leak.loc()), Site(f, cb).loc())
    ctx.floor(rid, n, 1, "set_len calls in the log (Wal::truncate / Wal::truncate_to)")


THOROUGH_FEATURES = ['r02e']


def r02f(ctx, P, rid="R02.f"):
    ctx.rule(rid, "MEASURE THE FILE (rollback points are log lengths): Wal::len returns a value that derives from seeking to the END of "
                  "the file (a Seek::seek whose argument is SeekFrom::End) — not from the handle's cursor alone (stream_position): a "
                  "handle opened for append has cursor 0 until its first write, and commit / add_documents use len() as the length to "
                  "cut the log back to when they fail, so a `length` of 0 erases every operation acknowledged earlier")
    f = P.fn(N.WAL + "::len")
    if not ctx.anchor(rid, f, "Wal::len"):
        return
    ctx.saw(f)
    sl = Slice(f, through_all_calls=True)
    ok = False
    for d in f.defs().get(0, []):
        ops = d["t"]["args"] if d["k"] == "call" else (d["rv"].get("ops") or [d["rv"].get("a")])
        for o in ops:
            if not isinstance(o, dict):
                continue
            for x in sl.sources(o):
                if x[0] == "call" and callee_of(x[2]).endswith("Seek>::seek") or (x[0] == "call" and callee_of(x[2]).endswith("::seek")):
                    for a in x[2]["args"][1:]:
                        if any(y[0] == "agg" and y[3].get("variant") == "End" and "SeekFrom" in (y[3].get("adt") or "") for y in sl.sources(a)):
                            ok = True
    users = sorted({g.short for q, g in P.fns.items() if g.crate == "searchlite_core" and not is_test_or_bench(g) and
                    any(callee_of(t) == f.path for b, t in g.calls())})
    ctx.ob(rid, "%s:Wal::len:seeks-to-end" % rid, ok,
           "Wal::len reports the position of the end of the file (used as rollback point by %s)" % ", ".join(u.rsplit("::", 1)[-1] for u in users) if ok else
           "Wal::len does not derive its result from a seek to SeekFrom::End: on a handle that has not written yet it reports the cursor "
           "(0), and the error paths of %s cut the log back to that `length`" % ", ".join(u.rsplit("::", 1)[-1] for u in users),
           "%s:%s" % (f.file, f.line))


def run(ctx, progs):
    P = progs.get("default")
    r02f(ctx, P)
    r02e(ctx, P)
    rep = r02a(ctx, P)
    if rep is not None:
        r02b(ctx, P, rep)
    r02c(ctx, P)
    r02d(ctx, P)
    ctx.assumptions += ["CRC32 detects a torn or garbage record (checked per record; strength of CRC32 is not decided)",
                        "the valid-prefix cut relies on replay's stop-at-first-bad-record (R02.b): nothing behind the cut is recoverable"]
