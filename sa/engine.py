"""Rule engine: obligations with stable keys, floors (fail closed), known findings, evidence."""
import json
import os
import re
import shutil
import time

VERIF = os.path.dirname(os.path.dirname(os.path.abspath(__file__)))
KNOWN_FILE = os.path.join(VERIF, "KNOWN_FINDINGS.txt")
EVID_DIR = os.environ.get("SL_EVIDENCE_DIR") or os.path.join(VERIF, "evidence")


class Ob:
    """One obligation = one rule instance bound to a real construct of the program.

    key     stable identifier `rule:function:role[:detail]`, never a line number
    ok      discharged?
    what    one-line statement of the instance (and of what fails, if it does)
    where   file:line of the construct (diagnosis only)
    detail  dict with the dominating / guarding site, paths, counter-example...
    """

    def __init__(self, rule, key, ok, what, where=None, detail=None, config="default"):
        self.rule = rule
        self.key = key.replace(" ", "")
        self.ok = bool(ok)
        self.what = what
        self.where = where
        self.detail = detail or {}
        self.config = config

    def to_json(self):
        d = {"rule": self.rule, "key": self.key, "ok": self.ok, "what": self.what, "where": self.where,
             "config": self.config}
        if self.detail:
            d["detail"] = self.detail
        return d


class Ctx:
    """Collects obligations of one property run."""

    def __init__(self, pid, tier):
        self.pid = pid
        self.tier = tier
        self.obs = []
        self.rules = {}      # rule id -> text
        self.floors = {}     # rule id -> (minimum, counted)
        self.notes = []
        self.config = "default"
        self.fn_seen = set()
        self.call_sites = 0
        self.assumptions = []

    def rule(self, rid, text):
        self.rules[rid] = text

    def ob(self, rule, key, ok, what, where=None, detail=None):
        o = Ob(rule, key, ok, what, where, detail, self.config)
        self.obs.append(o)
        return o

    def floor(self, rid, counted, minimum, what):
        """Fail closed when a rule bound fewer instances than were counted by hand on the pinned tree."""
        self.floors[rid + "@" + self.config] = {"minimum": minimum, "counted": counted, "what": what}
        if counted < minimum:
            self.ob(rid, "%s:floor" % rid, False,
                    "anchor-missing: rule bound %d instance(s) of '%s', expected at least %d — the rule would pass vacuously"
                    % (counted, what, minimum))

    def anchor(self, rid, obj, what):
        """Fail closed if an anchor (function / type) was not found."""
        if obj is None or obj == [] or obj is False:
            self.ob(rid, "%s:anchor:%s" % (rid, what), False, "anchor-missing: %s not found in the fact base" % what)
            return False
        return True

    def saw(self, fn, calls=0):
        if fn is not None:
            self.fn_seen.add(fn.path)
            if calls == 0:
                calls = len(fn.calls())
        self.call_sites += calls

    def note(self, s):
        self.notes.append(s)


def load_known():
    """KNOWN_FINDINGS.txt lines:
       finding: property=<id> key=<obligation key> :: <what fails>
       fixed: property=<id> <commit> <what failed>          (informational, suppresses nothing)"""
    known = {}
    fixed = []
    if not os.path.exists(KNOWN_FILE):
        return known, fixed
    for line in open(KNOWN_FILE):
        line = line.strip()
        if not line or line.startswith("#"):
            continue
        if line.startswith("fixed:"):
            fixed.append(line)
            continue
        m = re.match(r"finding:\s+property=(\S+)\s+key=(\S+)\s+::\s+(.*)$", line)
        if m:
            known[(m.group(1), m.group(2))] = m.group(3)
    return known, fixed


def finish(ctx, wall_s, seed=0, extra_cov=None, explanation=""):
    """Write evidence, print the contract lines, return the exit code."""
    pid = ctx.pid
    known, _fixed = load_known()
    failed = [o for o in ctx.obs if not o.ok]
    violations = []
    known_hits = []
    seen_keys = set()
    for o in failed:
        if (pid, o.key) in known:
            if o.key not in seen_keys:
                known_hits.append(o)
        else:
            violations.append(o)
        seen_keys.add(o.key)

    os.makedirs(EVID_DIR, exist_ok=True)
    vdir = os.path.join(EVID_DIR, "%s.violations" % pid)
    shutil.rmtree(vdir, ignore_errors=True)
    for o in known_hits:
        print("KNOWN-FINDING: property=%s %s %s" % (pid, o.key, known[(pid, o.key)]))
    replay_paths = []
    if violations:
        os.makedirs(vdir, exist_ok=True)
        for n, o in enumerate(violations):
            p = os.path.join(vdir, "%d.json" % n)
            with open(p, "w") as fh:
                json.dump({"property": pid, **o.to_json()}, fh, indent=1)
            replay_paths.append(p)
            print("VIOLATION property=%s replay=%s" % (pid, p))
            print("  rule=%s key=%s" % (o.rule, o.key))
            print("  at %s: %s" % (o.where, o.what))

    distinct = {o.key for o in ctx.obs if o.where or o.detail}
    discharged = [o for o in ctx.obs if o.ok]
    samples = []
    per_rule = {}
    for o in ctx.obs:
        per_rule.setdefault(o.rule, []).append(o)
    for rid, lst in sorted(per_rule.items()):
        for o in lst[:2]:
            samples.append(o.to_json())
    cov = {
        "explanation": explanation or "repository-specific static rules evaluated over the type-checked program (MIR facts); "
                                      "decides the named structural clauses, not the behaviour",
        "evaluations": len(ctx.obs),
        "distinct_nontrivial": len(distinct),
        "rule": "one evaluation = one obligation (rule instance bound to a construct of /repo's current source); "
                "distinct+non-trivial = distinct obligation keys bound to a real site (file:line or detail), "
                "floors/anchors excluded",
        "obligations": len(ctx.obs),
        "discharged": len(discharged),
        "known_findings": [o.key for o in known_hits],
        "rules": ctx.rules,
        "floors": ctx.floors,
        "functions_analysed": len(ctx.fn_seen),
        "call_sites_examined": ctx.call_sites,
        "samples": samples[:40],
        "all_obligations": [{"key": o.key, "ok": o.ok, "where": o.where, "config": o.config} for o in ctx.obs],
        "notes": ctx.notes,
    }
    if extra_cov:
        cov.update(extra_cov)
    ev = {
        "property_id": pid,
        "tier": ctx.tier,
        "seed": seed,
        "level": "other",
        "coverage": cov,
        "assumptions": ctx.assumptions,
        "wall_s": round(wall_s, 2),
        "violations": len(violations),
    }
    tmp = os.path.join(EVID_DIR, "%s.json.tmp%d" % (pid, os.getpid()))
    with open(tmp, "w") as fh:
        json.dump(ev, fh, indent=1)
    os.replace(tmp, os.path.join(EVID_DIR, "%s.json" % pid))
    print("%s: %d obligations, %d discharged, %d known finding(s), %d violation(s) [%s, %.1fs]"
          % (pid, len(ctx.obs), len(discharged), len(known_hits), len(violations), ctx.tier, wall_s))
    return 1 if violations else 0
