#!/usr/bin/env python3
"""Pretty-print one function's facts (debug aid): dump.py <facts-dir> <path-substring>"""
import json, sys, glob

def pl(p):
    s = f"_{p['l']}"
    for e in p['p']:
        if e == 'deref': s = f"(*{s})"
        elif isinstance(e, dict) and 'f' in e: s += f".{e['f']}"
        elif isinstance(e, dict) and 'downcast' in e: s += f" as {e['downcast']}"
        elif isinstance(e, dict) and 'index' in e: s += f"[_{e['index']}]"
        else: s += f".{e}"
    return s

def op(o):
    if 'cp' in o: return pl(o['cp'])
    if 'mv' in o: return 'move ' + pl(o['mv'])
    if 'c' in o:
        c = o['c']
        if 'fn' in c: return 'fn:' + c.get('resolved', c['fn'])
        if 'closure' in c: return 'closure:' + c['closure']
        if 'int' in c: return f"const {c['int']}"
        return 'const ' + c['txt']
    return str(o)

def rv(r):
    k = r['k']
    if k == 'use': return op(r['a'])
    if k == 'ref': return ('&mut ' if r['mut'] else '&') + pl(r['place'])
    if k == 'rawptr': return '&raw ' + pl(r['place'])
    if k == 'cast': return f"{op(r['a'])} as {r['ty']} ({r['ck']})"
    if k == 'binop': return f"{r['op']}({op(r['a'])}, {op(r['b'])})"
    if k == 'unop': return f"{r['op']}({op(r['a'])})"
    if k == 'discr': return f"discr({pl(r['place'])})"
    if k == 'agg':
        nm = r.get('adt', r.get('closure', r['ak']))
        if 'variant' in r: nm += '::' + r['variant']
        return f"{nm}{{{', '.join(op(o) for o in r['ops'])}}}"
    return r.get('txt', k)

def show(f):
    print(f"fn {f['path']}  [{f['kind']}] {f['file']}:{f['line']} args={f['arg_count']}")
    for i, l in enumerate(f['locals']):
        n = l.get('name')
        if n or i <= f['arg_count']:
            print(f"   _{i}: {l['ty'][:100]} {n or ''}")
    for i, b in enumerate(f['blocks']):
        if b.get('cleanup'): continue
        print(f" bb{i}:")
        for s in b['stmts']:
            if s['k'] == 'assign': print(f"    {pl(s['dst'])} = {rv(s['rv'])}")
            elif s['k'] == 'dead': pass
            else: print('   ', s)
        t = b['term']; k = t['k']; m = (' !' + ','.join(t['macros'])) if t.get('macros') else ''
        if k == 'call':
            print(f"    {pl(t['dst'])} = CALL {t.get('resolved', t['callee'])}({', '.join(op(a) for a in t['args'])}) -> bb{t['target']}  @{t['line']}{m} [{t.get('ik')}]")
        elif k == 'switch':
            print(f"    SWITCH {op(t['on'])} {list(zip(t['values'], t['targets']))} else bb{t['otherwise']} @{t['line']}{m}")
        elif k == 'drop': print(f"    DROP {pl(t['place'])} -> bb{t['target']}")
        elif k == 'assert': print(f"    ASSERT {op(t['cond'])}=={t['expected']} {t['msg'][:50]} -> bb{t['target']} @{t['line']}{m}")
        elif k in ('goto', 'yield'): print(f"    {k.upper()} bb{t['target']}")
        else: print(f"    {k.upper()} @{t['line']}{m}")

if __name__ == '__main__':
    d, pat = sys.argv[1], sys.argv[2]
    for fn in glob.glob(d + '/*.json'):
        doc = json.load(open(fn))
        for f in doc['fns']:
            if pat in f['path']:
                show(f); print()
