"""Decision-table extraction: enumerate the acyclic paths of a MIR region whose branching depends only on boolean / enum
atoms (flag fields, discriminants, `is_empty()` of a field) and constants, keeping a symbolic store for locals.  Nothing is
executed and no solver is involved: every switch operand is resolved to a constant (one successor), to an atom (one successor per
value, recorded as a constraint and checked for consistency along the path) or is unknown (all successors, path marked opaque).

paths(f, start_block, end_kind, atom_of_place, ...) -> [Path]     Path.cons: {atom: value}, Path.end: (kind, block), Path.opaque
table(paths, domains) -> {assignment tuple: set(end kinds)}"""
import itertools
from sa.prog import callee_of, op_const, op_local, op_place, place_fields


class Path:
    def __init__(self, cons, end, opaque, ret=None):
        self.cons, self.end, self.opaque, self.ret = cons, end, opaque, ret

    def __repr__(self):
        return "Path(%s -> %s%s%s)" % (self.cons, self.end, " opaque" if self.opaque else "", " ret=%s" % (self.ret,) if self.ret is not None else "")


def default_atom_of_place(place):
    """A read of `<base>.<f1>.<f2>` is the atom ('flag', 'f1.f2'); reads without a field projection are not atoms."""
    fl = place_fields(place)
    if not fl:
        return None
    return ("flag", ".".join(x.replace("upvar:", "") for x in fl))


def paths(f, start, end_kind, atom_of_place=default_atom_of_place, discr_variants=None, max_paths=5000, max_len=400,
          pure_calls=("::is_empty",), track_return=False, env0=None, call_atom=None, track_local=0):
    """end_kind(block) -> None (keep going) | str (stop, path ends with that kind; evaluated BEFORE the block's statements for
    blocks other than the start).  discr_variants: callable(atom) -> [variant names] for ('discr', ..) atoms.
    track_return: record the value assigned to _0 (const int / atom) in Path.ret."""
    out = []

    def val_of_operand(env, o):
        c = op_const(o) if isinstance(o, dict) else None
        if c is not None:
            if c.get("int") is not None:
                return ("const", c["int"])
            t = c.get("txt", "")
            if t in ("true", "const true"):
                return ("const", 1)
            if t in ("false", "const false"):
                return ("const", 0)
            return None
        pl = op_place(o)
        if pl is None:
            return None
        return val_of_place(env, pl)

    def resolve(env, pl):
        """Substitute bound tuples / references: returns (effective place or None, value or None)."""
        base, proj = pl["l"], list(pl["p"])
        for _ in range(8):
            v = env.get(base)
            if v is None:
                break
            if v[0] == "tuple" and proj and isinstance(proj[0], dict) and "i" in proj[0] and proj[0]["i"] < len(v[1]):
                v = v[1][proj[0]["i"]]
                proj = proj[1:]
                if v is None:
                    return None, None
                if not proj:
                    return None, v
                if v[0] == "ref" and proj[0] == "deref":
                    base, proj = v[1]["l"], list(v[1]["p"]) + proj[1:]
                    continue
                return None, None
            if v[0] == "ref" and proj and proj[0] == "deref":
                base, proj = v[1]["l"], list(v[1]["p"]) + proj[1:]
                continue
            if not proj:
                return None, v
            break
        return {"l": base, "p": proj}, None

    def val_of_place(env, pl):
        eff, v = resolve(env, pl)
        if v is not None:
            return v
        if eff is None:
            return None
        if not eff["p"]:
            return env.get(eff["l"])
        a = atom_of_place(eff)
        return ("atom", a, False) if a is not None else None

    def step(b, i, env, cons, opaque, seen, ret):
        if len(out) >= max_paths:
            return
        blk = f.blocks[b]
        stmts = blk["stmts"]
        env = dict(env)
        while i < len(stmts):
            s = stmts[i]
            i += 1
            if s["k"] != "assign":
                continue
            dst = s["dst"]
            rv = s["rv"]
            v = None
            k = rv["k"]
            if k in ("use", "cast"):
                v = val_of_operand(env, rv["a"])
            elif k == "unop" and rv.get("op") == "Not":
                x = val_of_operand(env, rv["a"])
                if x is not None and x[0] == "const":
                    v = ("const", 0 if x[1] else 1)
                elif x is not None and x[0] == "atom":
                    v = ("atom", x[1], not x[2])
            elif k == "discr":
                eff, bound = resolve(env, rv["place"])
                if bound is not None and bound[0] == "atom":
                    v = ("discr", ("discr",) + tuple(bound[1][1:]))
                elif eff is not None:
                    if not eff["p"]:
                        a0 = env.get(eff["l"])
                        if a0 is not None and a0[0] == "atom":
                            v = ("discr", ("discr",) + tuple(a0[1][1:]))
                    else:
                        at = atom_of_place(eff)
                        if at is not None:
                            v = ("discr", ("discr",) + tuple(at[1:]))
            elif k == "agg":
                if rv.get("ak") == "tuple":
                    v = ("tuple", [val_of_operand(env, o) for o in rv["ops"]])
                elif rv.get("ak") == "adt" and not rv["ops"] and rv.get("variant"):
                    v = ("const", rv["variant"])
            elif k == "ref":
                eff, bound = resolve(env, rv["place"])
                if eff is not None:
                    v = ("ref", eff)
                elif bound is not None and bound[0] == "ref":
                    v = bound
            elif k == "binop" and rv["op"] in ("Eq", "Ne", "Gt", "Ge", "Lt", "Le") and \
                    any((z or (None,))[0] == "len" for z in (val_of_operand(env, rv["a"]), val_of_operand(env, rv["b"]))):
                # `xs.len() > 0` and friends are the is_empty atom of the same container
                x, y = val_of_operand(env, rv["a"]), val_of_operand(env, rv["b"])
                op_ = rv["op"]
                if y is not None and y[0] == "len" and x is not None and x[0] == "const":
                    x, y = y, x
                    op_ = {"Gt": "Lt", "Lt": "Gt", "Ge": "Le", "Le": "Ge"}.get(op_, op_)
                if x is not None and x[0] == "len" and y is not None and y[0] == "const" and y[1] == 0:
                    if op_ in ("Gt", "Ne"):
                        v = ("atom", ("is_empty",) + tuple(x[1]), True)
                    elif op_ in ("Eq", "Le"):
                        v = ("atom", ("is_empty",) + tuple(x[1]), False)
                    elif op_ == "Ge":
                        v = ("const", 1)
                    elif op_ == "Lt":
                        v = ("const", 0)
                elif x is not None and x[0] == "len" and y is not None and y[0] == "const" and y[1] == 1 and op_ in ("Ge", "Lt"):
                    v = ("atom", ("is_empty",) + tuple(x[1]), op_ == "Ge")
            elif k == "binop" and rv["op"] in ("Eq", "Ne", "BitAnd", "BitOr"):
                x, y = val_of_operand(env, rv["a"]), val_of_operand(env, rv["b"])
                if x is not None and y is not None and x[0] == "const" and y[0] == "const":
                    r = {"Eq": x[1] == y[1], "Ne": x[1] != y[1], "BitAnd": bool(x[1] and y[1]), "BitOr": bool(x[1] or y[1])}[rv["op"]]
                    v = ("const", 1 if r else 0)
            if not dst["p"]:
                if v is None:
                    env.pop(dst["l"], None)
                else:
                    env[dst["l"]] = v
                if track_return and dst["l"] == track_local:
                    ret = v
        t = blk["term"]
        k = t["k"]
        if k == "return":
            out.append(Path(dict(cons), ("return", b), opaque, ret))
            return
        succs = []
        if k == "call":
            cal = callee_of(t)
            v = None
            if cal.endswith(tuple(pure_calls)) and t["args"]:
                a = val_of_operand(env, t["args"][0])
                if a is not None and a[0] == "ref":
                    at = atom_of_place(a[1])
                    if at is not None:
                        v = ("atom", (cal.rsplit("::", 1)[1],) + tuple(at[1:]), False)
                elif a is not None and a[0] == "atom":
                    v = ("atom", (cal.rsplit("::", 1)[1],) + tuple(a[1][1:]), False)
            elif cal.endswith("::len") and t["args"] and len(t["args"]) == 1:
                a = val_of_operand(env, t["args"][0])
                if a is not None and a[0] == "ref":
                    at = atom_of_place(a[1])
                    if at is not None:
                        v = ("len", tuple(at[1:]))
                elif a is not None and a[0] == "atom":
                    v = ("len", tuple(a[1][1:]))
            elif call_atom is not None and call_atom(t, lambda o: val_of_operand(env, o)) is not None:
                v = call_atom(t, lambda o: val_of_operand(env, o))
            elif cal.endswith(("Deref>::deref", "::as_ref", "::as_slice", "::as_str", "::iter", "::borrow")) and t["args"]:
                a = val_of_operand(env, t["args"][0])
                if a is not None and a[0] in ("ref", "atom"):
                    v = a
            if not t["dst"]["p"]:
                if v is None:
                    env.pop(t["dst"]["l"], None)
                else:
                    env[t["dst"]["l"]] = v
                if track_return and t["dst"]["l"] == track_local:
                    ret = v if v is not None else ("call", cal, [val_of_operand(env, a_) for a_ in t["args"]])
            nxt = t.get("target")
            if nxt is None:
                out.append(Path(dict(cons), ("diverge", b), opaque, ret))
                return
            succs = [(nxt, None)]
        elif k == "switch":
            v = val_of_operand(env, t["on"])
            vals = list(zip(t["values"], t["targets"]))
            oth = t.get("otherwise")
            if v is not None and v[0] == "const":
                tgt = dict(vals).get(v[1], oth)
                succs = [(tgt, None)] if tgt is not None else []
            elif v is not None and v[0] == "atom":
                atom, neg = v[1], v[2]
                for val, tgt in vals:
                    truth = bool(val) != neg
                    succs.append((tgt, (atom, truth)))
                if oth is not None and len(vals) == 1:
                    truth = (not bool(vals[0][0])) != neg
                    succs.append((oth, (atom, truth)))
            elif v is not None and v[0] == "discr":
                atom = v[1]
                names = discr_variants(atom) if discr_variants else None
                used = set()
                if isinstance(names, dict):
                    all_names = list(names.values())
                    name_of = lambda v_: names.get(v_, v_)
                else:
                    all_names = list(names or [])
                    name_of = lambda v_: names[v_] if names and v_ < len(names) else v_
                for val, tgt in vals:
                    nm = name_of(val)
                    used.add(nm)
                    succs.append((tgt, (atom, nm)))
                if oth is not None and names:
                    for nm in all_names:
                        if nm not in used:
                            succs.append((oth, (atom, nm)))
                elif oth is not None and not _is_unreachable(f, oth):
                    succs.append((oth, (atom, "__other__")))
            else:
                opaque = True
                succs = [(x, None) for x in f.succ(b)]
        else:
            succs = [(x, None) for x in f.succ(b)]
        for tgt, con in succs:
            if tgt is None or _is_unreachable(f, tgt):
                continue
            c2 = cons
            if con is not None:
                if con[0] in cons:
                    if cons[con[0]] != con[1]:
                        continue
                else:
                    c2 = dict(cons)
                    c2[con[0]] = con[1]
            ek = end_kind(tgt)
            if ek is not None:
                out.append(Path(dict(c2), (ek, tgt), opaque, ret))
                continue
            if tgt in seen or len(seen) > max_len:
                out.append(Path(dict(c2), ("cycle", tgt), opaque, ret))
                continue
            step(tgt, 0, env, c2, opaque, seen | {tgt}, ret)

    step(start, 0, dict(env0 or {}), {}, False, {start}, None)
    return out


def _is_unreachable(f, b):
    blk = f.blocks[b]
    return blk["term"]["k"] == "unreachable" and not blk["stmts"]


def table(ps, domains):
    """domains: {atom: [values]}.  Returns {assignment (tuple in the order of sorted(domains)): set of end kinds}, plus the list of
    atoms that occur in paths but not in domains."""
    atoms = sorted(domains, key=str)
    extra = sorted({a for p in ps for a in p.cons if a not in domains}, key=str)
    tab = {}
    for combo in itertools.product(*[domains[a] for a in atoms]):
        asg = dict(zip(atoms, combo))
        ends = set()
        for p in ps:
            if all(asg.get(a, v) == v for a, v in p.cons.items() if a in asg):
                ends.add((p.end[0], p.ret if p.ret is None or p.ret[0] == "const" else ("sym",)) if p.ret is not None else p.end[0])
        tab[combo] = ends
    return atoms, tab, extra
