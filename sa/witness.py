"""Type-level remainder: compile_fail witnesses (rustdoc doctests with error codes, nightly) with compiling twins.
Nothing is executed: `compile_fail` tests only type-check, the twins are `no_run`."""
import os
import re
import shutil
import subprocess

from sa import facts

WDIR = os.path.join(facts.VERIF, "witness")


def run(ctx, rid="W04"):
    ctx.rule(rid, "TYPE: compile_fail witnesses (cargo +nightly test --doc, error codes E0616/E0603/E0624) show that external code "
                  "cannot reach Index.inner, InnerIndex, IndexWriter.pending_ops, IndexWriter.wal, IndexWriter::new or "
                  "cleanup_segments; each has a compiling twin that differs only in the offending access")
    try:
        shutil.copy(os.path.join(facts.REPO, "Cargo.lock"), os.path.join(WDIR, "Cargo.lock"))
    except OSError:
        pass
    env = dict(os.environ)
    env["CARGO_NET_OFFLINE"] = "true"
    env["CARGO_TARGET_DIR"] = os.path.join(facts.CACHE, "target-witness")
    # the path dependency follows SL_REPO through a patched manifest when a scratch copy is analysed
    manifest = open(os.path.join(WDIR, "Cargo.toml")).read()
    want = 'searchlite-core = { path = "%s/searchlite-core" }' % facts.REPO
    cur = re.search(r'searchlite-core = \{ path = "[^"]+" \}', manifest).group(0)
    tmp_manifest = None
    if cur != want:
        tmp_manifest = manifest
        open(os.path.join(WDIR, "Cargo.toml"), "w").write(manifest.replace(cur, want))
    try:
        r = subprocess.run(["cargo", "+nightly", "test", "--doc", "--offline"], cwd=WDIR, env=env, stdout=subprocess.PIPE,
                           stderr=subprocess.STDOUT, text=True)
    finally:
        if tmp_manifest is not None:
            open(os.path.join(WDIR, "Cargo.toml"), "w").write(tmp_manifest)
    res = re.findall(r"^test src/lib\.rs - (\w+) \(line \d+\) - (compile fail|compile) \.\.\. (\w+)", r.stdout, re.M)
    ctx.floor(rid, len(res), 12, "witness doctests (6 compile_fail + 6 twins)")
    by = {}
    for name, kind, verdict in res:
        by.setdefault(name, {})[kind] = verdict
    for name, d in sorted(by.items()):
        ok = d.get("compile fail") == "ok" and d.get("compile") == "ok"
        ctx.ob(rid, "%s:%s" % (rid, name), ok,
               "witness %s: the offending access fails with the expected error code and its twin compiles" % name if ok else
               "witness %s: compile_fail=%s twin=%s — the visibility fact no longer holds (or the witness path is stale)" % (name, d.get("compile fail"), d.get("compile")),
               "witness/src/lib.rs")
    if not res:
        ctx.ob(rid, rid + ":run", False, "witness crate did not run: %s" % r.stdout[-600:], "witness/src/lib.rs")
