"""Anchor names (def paths) the rules bind to.  Public API names and the Storage trait are treated as
stable anchors; when one disappears the rule fails closed (anchor-missing)."""
CORE = "searchlite_core"
W = CORE + "::api::writer::IndexWriter"
WAL = CORE + "::index::wal::Wal"
MAN = CORE + "::index::manifest::Manifest"
STOR = CORE + "::storage::Storage"
SFILE = CORE + "::storage::StorageFile"
INDEX = CORE + "::index::Index"
INNER = CORE + "::index::InnerIndex"
READER = CORE + "::api::reader::IndexReader"
SEGR = CORE + "::index::segment::SegmentReader"
SEGW = CORE + "::index::segment::SegmentWriter"

WAL_SYNC = WAL + "::sync"
WAL_APPEND_COMMIT = WAL + "::append_commit"
WAL_TRUNCATE = WAL + "::truncate"
WAL_TRUNCATE_TO = WAL + "::truncate_to"
WAL_OPEN = WAL + "::open"
WAL_REPLAY = WAL + "::replay"
WAL_PENDING = WAL + "::last_pending_ops"
MAN_STORE = MAN + "::store"
MAN_LOAD = MAN + "::load"
CLEANUP = CORE + "::index::cleanup_segments"

S_OPEN_WRITE = STOR + "::open_write"
S_OPEN_APPEND = STOR + "::open_append"
S_OPEN_READ = STOR + "::open_read"
S_READ_TO_END = STOR + "::read_to_end"
S_EXISTS = STOR + "::exists"
S_WRITE_ALL = STOR + "::write_all"
S_ATOMIC_WRITE = STOR + "::atomic_write"
S_REMOVE = STOR + "::remove"
S_REMOVE_DIR = STOR + "::remove_dir_all"
S_ENSURE_DIR = STOR + "::ensure_dir"
F_SYNC_ALL = SFILE + "::sync_all"
F_SET_LEN = SFILE + "::set_len"

STORAGE_WRITE_EFFECTS = {S_OPEN_WRITE, S_OPEN_APPEND, S_WRITE_ALL, S_ATOMIC_WRITE, S_REMOVE, S_REMOVE_DIR, F_SET_LEN}
STORAGE_READ_EFFECTS = {S_OPEN_READ, S_READ_TO_END, S_EXISTS}
STORAGE_EFFECTS = STORAGE_WRITE_EFFECTS | STORAGE_READ_EFFECTS | {F_SYNC_ALL, S_ENSURE_DIR}

RW_WRITE = "lock_api::rwlock::RwLock::<R, T>::write"
RW_READ = "lock_api::rwlock::RwLock::<R, T>::read"
MUTEX_LOCK = "lock_api::mutex::Mutex::<R, T>::lock"
LOCK_NAMES = {RW_WRITE, RW_READ, MUTEX_LOCK}


def is_(name):
    return lambda c: c == name


def any_of(names):
    s = set(names)
    return lambda c: c in s


def impl_of(trait_method, self_ty):
    """path of `<self_ty as Trait>::method`"""
    tr, m = trait_method.rsplit("::", 1)
    return "<%s as %s>::%s" % (self_ty, tr, m)


IO_METHODS = ("::write_all", "::flush", "::seek", "::stream_position", "::write", "::read_exact", "::read_to_end", "::read")
FS_FUNCS = {"std::fs::File::sync_all", "std::fs::File::set_len", "std::fs::rename", "std::fs::File::create", "std::fs::File::open",
            "std::fs::remove_file", "std::fs::remove_dir_all", "std::fs::create_dir_all", "std::fs::read", "std::fs::write",
            "std::fs::OpenOptions::open"}


def is_io(c):
    """std::io Read/Write/Seek methods (trait paths and the Box<W> forwarding impls) and std::fs functions."""
    if c in FS_FUNCS:
        return True
    return ("std::io::" in c) and c.endswith(IO_METHODS)


def is_storage_or_io(c):
    return c in STORAGE_EFFECTS or is_io(c)


PATH_ADDRESSED_FS = {"std::fs::rename", "std::fs::File::create", "std::fs::File::open", "std::fs::remove_file",
                     "std::fs::remove_dir_all", "std::fs::create_dir_all", "std::fs::read", "std::fs::write",
                     "std::fs::OpenOptions::open", "std::fs::read_to_string", "std::fs::metadata", "std::path::Path::exists",
                     "std::fs::File::options", "std::fs::read_dir", "std::fs::copy"}


def path_addressed_pred(P):
    """Callee is a path-addressed storage access: a Storage trait method (trait path or any impl of it) or a std::fs
    function taking a path."""
    storage_methods = {m for m in STORAGE_EFFECTS if m.startswith(STOR + "::")}

    def pred(c):
        if c in storage_methods or c in PATH_ADDRESSED_FS:
            return True
        f = P.fns.get(c)
        return f is not None and f.impl_trait == STOR and not c.endswith("::root")
    return pred
