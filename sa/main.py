#!/usr/bin/env python3
"""check <Cnn> [--tier quick|thorough] [--explain <violation.json>] | --warm | --all

Builds the fact base of /repo's CURRENT working tree (slfacts driver under cargo +nightly check),
evaluates the static rules of one property, writes /verif/evidence/<Cnn>.json, prints
KNOWN-FINDING / VIOLATION lines and exits 0/1."""
import importlib
import json
import os
import sys
import time
import traceback

sys.path.insert(0, os.path.dirname(os.path.dirname(os.path.abspath(__file__))))
from sa import engine, facts, prog  # noqa: E402

ALL = ["C01", "C02", "C03", "C04", "C05", "C06", "C07", "C08", "C09", "C10", "C11", "C12", "C13", "C14", "C15", "C16", "C17", "C18", "C19",
       "C20", "C21", "C22", "C23", "C24", "C25", "C26", "C27", "C28", "C29", "C30"]


class Progs:
    """Lazily built fact bases per configuration."""

    def __init__(self):
        self.cache = {}
        self.info = {}

    def get(self, config="default"):
        if config not in self.cache:
            d, info = facts.build(config)
            self.info[config] = info
            self.cache[config] = prog.Program(facts.load_raw(d))
        return self.cache[config]


def explain(path):
    v = json.load(open(path))
    print(json.dumps(v, indent=1))
    where = v.get("where")
    if where and ":" in where:
        f, ln = where.rsplit(":", 1)
        p = os.path.join(facts.REPO, f)
        try:
            ln = int(ln)
            lines = open(p).read().split("\n")
            print("---- %s" % where)
            for i in range(max(0, ln - 6), min(len(lines), ln + 5)):
                print("%s%5d  %s" % (">" if i + 1 == ln else " ", i + 1, lines[i]))
        except Exception:
            pass
    return 0


def run_one(pid, tier, progs):
    t0 = time.time()
    ctx = engine.Ctx(pid, tier)
    try:
        mod = importlib.import_module("sa.rules." + pid)
    except ModuleNotFoundError:
        print("no rules for %s" % pid)
        return 2
    try:
        mod.run(ctx, progs)
        # thorough tier: rules that read code the `vectors` / `zstd` features change are repeated on that configuration
        if tier == "thorough" and getattr(mod, "THOROUGH_FEATURES", None):
            ctx.config = "features"
            Pf = progs.get("features")
            for name in mod.THOROUGH_FEATURES:
                getattr(mod, name)(ctx, Pf)
            ctx.config = "default"
    except Exception as e:  # fail closed: an analysis crash is not a pass
        traceback.print_exc()
        ctx.ob("engine", "engine:exception", False, "analysis raised %s: %s" % (type(e).__name__, e))
    for cfg, info in progs.info.items():
        ctx.note("facts[%s]: %s" % (cfg, info))
    for cfg, p in progs.cache.items():
        if p.stolen:
            ctx.ob("engine", "engine:stolen-bodies:" + cfg, False,
                   "bodies whose MIR could not be read (stolen): %s" % p.stolen[:5])
    seed = int(os.environ.get("VERIF_SEED", "0") or 0)
    return engine.finish(ctx, time.time() - t0, seed=seed,
                         extra_cov={"configs": sorted(progs.cache.keys())},
                         explanation=getattr(mod, "EXPLANATION", ""))


def main(argv):
    if not argv:
        print(__doc__)
        return 2
    tier = os.environ.get("VERIF_TIER") or "quick"
    if "--tier" in argv:
        i = argv.index("--tier")
        tier = argv[i + 1]
        del argv[i:i + 2]
    if tier not in ("quick", "thorough"):
        tier = "quick"
    if "--explain" in argv:
        return explain(argv[argv.index("--explain") + 1])
    if argv[0] == "--warm":
        for cfg in (["default", "features", "wasmhost"] + (["release"] if tier == "thorough" else [])):
            d, info = facts.build(cfg)
            print("warm", cfg, d, info)
        return 0
    progs = Progs()
    if argv[0] == "--all":
        rc = 0
        for pid in ALL:
            rc |= run_one(pid, tier, progs)
        return rc
    return run_one(argv[0], tier, progs)


if __name__ == "__main__":
    sys.exit(main(sys.argv[1:]))
