"""Program model over slfacts output: functions, CFG, dominators, post-dominators, control
dependence, call graph with closure edges, transitive effect summaries, local value slices,
lock regions.  Everything here is a static computation over the dumped MIR; nothing executes
searchlite code."""
import sys
from collections import defaultdict

sys.setrecursionlimit(20000)

TERM = 10 ** 6  # statement index used for "the terminator of the block"


def place_local(p):
    return p["l"]


def op_place(o):
    """The place read by an operand (copy/move), else None."""
    if "cp" in o:
        return o["cp"]
    if "mv" in o:
        return o["mv"]
    return None


def op_local(o):
    p = op_place(o)
    return None if p is None else p["l"]


def op_const(o):
    return o.get("c")


def place_fields(p):
    return [e["f"] for e in p["p"] if isinstance(e, dict) and "f" in e]


def place_str(p):
    s = "_%d" % p["l"]
    for e in p["p"]:
        if e == "deref":
            s = "(*%s)" % s
        elif isinstance(e, dict) and "f" in e:
            s += "." + e["f"]
        elif isinstance(e, dict) and "downcast" in e:
            s += " as " + e["downcast"]
        elif isinstance(e, dict) and "index" in e:
            s += "[_%d]" % e["index"]
        else:
            s += ".<%s>" % (e if isinstance(e, str) else "ci")
    return s


def short_path(p):
    for c in ("searchlite_core::", "searchlite_http::", "searchlite_ffi::", "searchlite_cli::", "searchlite_wasm::"):
        p = p.replace(c, "")
    return p


class Site:
    """A program point: (function, block, statement index | TERM)."""
    __slots__ = ("fn", "b", "i")

    def __init__(self, fn, b, i=TERM):
        self.fn, self.b, self.i = fn, b, i

    def key(self):
        return (self.b, self.i)

    @property
    def line(self):
        blk = self.fn.blocks[self.b]
        if self.i == TERM:
            return blk["term"].get("line")
        return blk["stmts"][self.i].get("line")

    def loc(self):
        return "%s:%s" % (self.fn.file, self.line)

    def __repr__(self):
        return "<%s bb%d%s @%s>" % (self.fn.short, self.b, "" if self.i == TERM else ".%d" % self.i, self.line)


class Fn:
    def __init__(self, d, crate):
        self.d = d
        self.crate = crate
        self.path = d["path"]
        self.kind = d["kind"]
        self.file = d["file"]
        self.line = d["line"]
        self.parent = d.get("parent")
        self.blocks = d["blocks"]
        self.locals = d["locals"]
        self.arg_count = d["arg_count"]
        self.vis = d.get("vis")
        self.abi = d.get("abi")
        self.impl_trait = d.get("impl_trait")
        self.impl_self = d.get("impl_self")
        self.coroutine = d.get("coroutine")
        self.macros = d.get("macros", [])
        self._dom = None
        self._pdom = None
        self._cd = None
        self._defs = None
        self._reach = None
        # `unreachable` blocks (the `otherwise` of exhaustive matches) are infeasible: drop the edges into them
        self._dead = {i for i, b in enumerate(self.blocks) if b["term"]["k"] == "unreachable" and not b["stmts"]}

    @property
    def short(self):
        return short_path(self.path)

    @property
    def ret_ty(self):
        return self.locals[0]["ty"]

    def arg_ty(self, i):
        return self.locals[i]["ty"]

    def local_name(self, l):
        return self.locals[l].get("name")

    def local_ty(self, l):
        return self.locals[l]["ty"]

    def locals_named(self, name):
        return [i for i, l in enumerate(self.locals) if l.get("name") == name]

    # ---- CFG -------------------------------------------------------------------------------
    def succ(self, b):
        t = self.blocks[b]["term"]
        k = t["k"]
        if k in ("goto", "drop", "assert", "yield"):
            return [t["target"]]
        if k == "call":
            return [] if t["target"] is None else [t["target"]]
        if k == "switch":
            out = []
            for x in t["targets"] + [t["otherwise"]]:
                if x not in out and x not in self._dead:
                    out.append(x)
            return out
        return []

    def dominated_region(self, b):
        """Blocks dominated by block b (the body of a match/if arm whose entry is b)."""
        return {x for x in self.reachable() if self.dominates_block(b, x)}

    def reachable(self):
        if self._reach is None:
            seen = {0}
            st = [0]
            while st:
                b = st.pop()
                for s in self.succ(b):
                    if s not in seen:
                        seen.add(s)
                        st.append(s)
            self._reach = seen
        return self._reach

    def preds(self):
        pr = defaultdict(list)
        for b in self.reachable():
            for s in self.succ(b):
                pr[s].append(b)
        return pr

    def term(self, b):
        return self.blocks[b]["term"]

    def calls(self):
        """[(block, term)] for every reachable call terminator."""
        out = []
        for b in sorted(self.reachable()):
            t = self.blocks[b]["term"]
            if t["k"] == "call":
                out.append((b, t))
        return out

    def stmts(self):
        for b in sorted(self.reachable()):
            for i, s in enumerate(self.blocks[b]["stmts"]):
                yield b, i, s

    # ---- dominators (Cooper-Harvey-Kennedy) --------------------------------------------------
    @staticmethod
    def _idoms(nodes_rpo, preds, entry):
        order = {n: i for i, n in enumerate(nodes_rpo)}
        idom = {entry: entry}
        changed = True
        while changed:
            changed = False
            for n in nodes_rpo:
                if n == entry:
                    continue
                new = None
                for p in preds.get(n, ()):
                    if p in idom:
                        if new is None:
                            new = p
                        else:
                            a, b = p, new
                            while a != b:
                                while order[a] > order[b]:
                                    a = idom[a]
                                while order[b] > order[a]:
                                    b = idom[b]
                            new = a
                if new is not None and idom.get(n) != new:
                    idom[n] = new
                    changed = True
        return idom

    def _rpo(self, entry, succ):
        seen = set()
        post = []
        st = [(entry, iter(succ(entry)))]
        seen.add(entry)
        while st:
            n, it = st[-1]
            adv = False
            for s in it:
                if s not in seen:
                    seen.add(s)
                    st.append((s, iter(succ(s))))
                    adv = True
                    break
            if not adv:
                post.append(n)
                st.pop()
        post.reverse()
        return post

    def idom(self):
        if self._dom is None:
            rpo = self._rpo(0, self.succ)
            self._dom = self._idoms(rpo, self.preds(), 0)
        return self._dom

    def dominates_block(self, a, b):
        """block a dominates block b (reflexive)."""
        idom = self.idom()
        if b not in idom or a not in idom:
            return False
        while True:
            if a == b:
                return True
            nb = idom[b]
            if nb == b:
                return False
            b = nb

    def dominates(self, s1, s2):
        """site s1 dominates site s2 (strict inside a block by statement order)."""
        if s1.b == s2.b:
            return s1.i < s2.i and s1.b in self.idom()
        return self.dominates_block(s1.b, s2.b)

    # post-dominators over the reversed CFG with a virtual exit -1
    def ipdom(self):
        if self._pdom is None:
            reach = self.reachable()
            rs = defaultdict(list)  # reversed successors = predecessors in the original
            exits = []
            for b in reach:
                ss = self.succ(b)
                if not ss:
                    exits.append(b)
                for s in ss:
                    rs[s].append(b)
            rs[-1] = exits
            rpreds = defaultdict(list)
            for n, lst in rs.items():
                for m in lst:
                    rpreds[m].append(n)
            rpo = self._rpo(-1, lambda n: rs.get(n, []))
            self._pdom = self._idoms(rpo, rpreds, -1)
        return self._pdom

    def postdominates_block(self, a, b):
        ip = self.ipdom()
        if b not in ip or a not in ip:
            return False
        while True:
            if a == b:
                return True
            nb = ip[b]
            if nb == b:
                return False
            b = nb

    def control_deps(self):
        """block -> set of (branch block, successor taken) it is directly control dependent on."""
        if self._cd is None:
            ip = self.ipdom()
            cd = defaultdict(set)
            for a in self.reachable():
                ss = self.succ(a)
                if len(ss) < 2:
                    continue
                for s in ss:
                    # walk from s up the post-dominator tree until ipdom(a)
                    stop = ip.get(a)
                    n = s
                    guard = 0
                    while n is not None and n != stop and n != -1 and guard < 100000:
                        cd[n].add((a, s))
                        nn = ip.get(n)
                        if nn == n:
                            break
                        n = nn
                        guard += 1
            self._cd = cd
        return self._cd

    def control_deps_transitive(self, b):
        """All (branch block, successor) pairs b is transitively control dependent on."""
        cd = self.control_deps()
        out = set()
        st = [b]
        seen = {b}
        while st:
            n = st.pop()
            for (a, s) in cd.get(n, ()):
                if (a, s) not in out:
                    out.add((a, s))
                if a not in seen:
                    seen.add(a)
                    st.append(a)
        return out

    def reachable_from(self, b, stop=()):
        """Blocks reachable from block b (inclusive) without entering any block in `stop`."""
        stop = set(stop)
        seen = set()
        st = [b]
        while st:
            n = st.pop()
            if n in seen or n in stop:
                continue
            seen.add(n)
            st.extend(self.succ(n))
        return seen

    # ---- boolean-flag sensitive reachability -------------------------------------------------------
    def flag_locals(self):
        """bool locals all of whose definitions are `const true/false` assignments."""
        out = {}
        for l, dfs in self.defs().items():
            if self.locals[l]["ty"] != "bool" or not dfs:
                continue
            vals = []
            for df in dfs:
                if df["k"] == "assign" and not df["partial"] and df["rv"]["k"] == "use":
                    c = op_const(df["rv"]["a"])
                    if c is not None and "int" in c:
                        vals.append(c["int"])
                        continue
                vals = None
                break
            if vals:
                out[l] = True
        return out

    def _flag_of(self, operand, flags):
        """Resolve a switch operand to a flag local through single-definition copies."""
        l = op_local(operand)
        seen = set()
        while l is not None and l not in seen:
            seen.add(l)
            if l in flags:
                return l
            dfs = self.defs().get(l, [])
            if len(dfs) == 1 and dfs[0]["k"] == "assign" and dfs[0]["rv"]["k"] == "use":
                l = op_local(dfs[0]["rv"]["a"])
            else:
                return None
        return None

    def reachable_flag_sensitive(self, start, env=None, avoid=(), avoid_edges=()):
        """Blocks reachable from `start`, pruning switch edges that contradict the known value of a boolean flag
        local (a local only ever assigned literal true/false)."""
        flags = self.flag_locals()
        init = frozenset((env or {}).items())
        seen = set()
        out = set()
        st = [(start, init)]
        while st:
            b, e = st.pop()
            if (b, e) in seen or b in avoid:
                continue
            seen.add((b, e))
            out.add(b)
            env_d = dict(e)
            for s in self.blocks[b]["stmts"]:
                if s["k"] == "assign" and not s["dst"]["p"] and s["dst"]["l"] in flags and s["rv"]["k"] == "use":
                    c = op_const(s["rv"]["a"])
                    if c is not None and "int" in c:
                        env_d[s["dst"]["l"]] = c["int"]
            t = self.blocks[b]["term"]
            if t["k"] == "switch":
                f = self._flag_of(t["on"], flags)
                if f is not None and f in env_d:
                    v = env_d[f]
                    tgt = dict(zip(t["values"], t["targets"])).get(v, t["otherwise"])
                    if (b, tgt) not in avoid_edges:
                        st.append((tgt, frozenset(env_d.items())))
                    continue
                if f is not None:
                    for v, tg in zip(t["values"], t["targets"]):
                        e2 = dict(env_d)
                        e2[f] = v
                        st.append((tg, frozenset(e2.items())))
                    e2 = dict(env_d)
                    if t["values"] == [0]:
                        e2[f] = 1
                    st.append((t["otherwise"], frozenset(e2.items())))
                    continue
            for sx in self.succ(b):
                if (b, sx) not in avoid_edges:
                    st.append((sx, frozenset(env_d.items())))
        return out

    def cfg_path(self, src, dst, avoid=()):
        """Shortest block path src->dst avoiding blocks in `avoid` (None if there is none)."""
        avoid = set(avoid)
        if src in avoid:
            return None
        prev = {src: None}
        q = [src]
        for n in q:
            if n == dst:
                out = []
                while n is not None:
                    out.append(n)
                    n = prev[n]
                return out[::-1]
            for s in self.succ(n):
                if s not in prev and s not in avoid:
                    prev[s] = n
                    q.append(s)
        return None

    # ---- definitions ---------------------------------------------------------------------------
    def defs(self):
        """local -> list of definition records.
        {'k':'assign','b','i','rv','dst'} | {'k':'call','b','t'} ; partial writes (field stores) are
        recorded with 'partial': True."""
        if self._defs is None:
            d = defaultdict(list)
            for b in self.reachable():
                blk = self.blocks[b]
                for i, s in enumerate(blk["stmts"]):
                    if s["k"] == "assign":
                        dst = s["dst"]
                        d[dst["l"]].append({"k": "assign", "b": b, "i": i, "rv": s["rv"], "dst": dst,
                                            "partial": bool(dst["p"])})
                t = blk["term"]
                if t["k"] == "call":
                    dst = t["dst"]
                    d[dst["l"]].append({"k": "call", "b": b, "i": TERM, "t": t, "dst": dst, "partial": bool(dst["p"])})
            self._defs = d
        return self._defs

    def site_of_def(self, df):
        return Site(self, df["b"], df["i"])

    def closure_fills(self):
        """local -> [adapter call terminator]: iterator adapter calls (for_each, map, fold, ...) one of whose closure arguments captures
        `&mut local`."""
        if getattr(self, "_cfills", None) is None:
            m = defaultdict(list)
            defs = self.defs()
            cl = {}     # closure value local -> set of locals it captures by &mut
            for b, i, st in self.stmts():
                if st["k"] == "assign" and st["rv"]["k"] == "agg" and st["rv"].get("closure") and not st["dst"]["p"]:
                    caps = set()
                    for o in st["rv"]["ops"]:
                        l = op_local(o)
                        for d in defs.get(l, ()) if l is not None else ():
                            if d["k"] == "assign" and d["rv"]["k"] == "ref" and d["rv"].get("mut") and not d["rv"]["place"]["p"]:
                                caps.add(d["rv"]["place"]["l"])
                    if caps:
                        cl[st["dst"]["l"]] = caps
            for b, t in self.calls():
                cal = callee_of(t)
                if "iter" not in cal.lower() or len(t["args"]) < 2:
                    continue
                for a in t["args"][1:]:
                    l = op_local(a)
                    seen = set()
                    while l is not None and l not in seen:
                        seen.add(l)
                        if l in cl:
                            for c in cl[l]:
                                m[c].append((b, t))
                            break
                        dd = defs.get(l, ())
                        if len(dd) == 1 and dd[0]["k"] == "assign" and dd[0]["rv"]["k"] == "use":
                            l = op_local(dd[0]["rv"]["a"])
                        else:
                            break
            self._cfills = m
        return self._cfills

    def mut_writes(self):
        """local -> [call terminator]: calls that receive (as their receiver) a `&mut` reference rooted in that local, directly or
        through a chain of methods returning `&mut` (entry(..).or_default().push(v)).  Used to follow values INTO containers."""
        if getattr(self, "_mutw", None) is None:
            defs = self.defs()

            def roots(l, depth=0, seen=None):
                seen = seen if seen is not None else set()
                if l is None or l in seen or depth > 12:
                    return set()
                seen.add(l)
                out = set()
                for d in defs.get(l, ()):
                    if d["k"] == "assign":
                        rv = d["rv"]
                        if rv["k"] == "ref" and rv.get("mut"):
                            pl = rv["place"]
                            if pl["p"] and pl["p"][0] == "deref":
                                out |= roots(pl["l"], depth + 1, seen)
                            else:
                                out.add(pl["l"])
                        elif rv["k"] in ("use", "cast"):
                            out |= roots(op_local(rv["a"]), depth + 1, seen)
                    elif d["k"] == "call" and d["t"]["args"] and "&mut" in self.local_ty(l):
                        out |= roots(op_local(d["t"]["args"][0]), depth + 1, seen)
                return out
            m = defaultdict(list)
            for b, t in self.calls():
                if len(t["args"]) < 2:
                    continue
                r = op_local(t["args"][0])
                if r is None or "&mut" not in self.local_ty(r):
                    continue
                for root in roots(r):
                    m[root].append((b, t))
            self._mutw = m
        return self._mutw


def callee_of(t):
    return t.get("resolved") or t["callee"]


# Calls through which a value is considered to flow unchanged (receiver/first argument -> result)
TRANSPARENT_SUFFIXES = (
    "::deref", "::deref_mut", "::clone", "::as_ref", "::as_mut", "::borrow", "::borrow_mut",
    "::as_deref", "::as_deref_mut", "::into", "::from", "::to_owned", "::as_str", "::as_slice", "::as_path",
    "::into_iter", "::iter", "::iter_mut", "::as_bytes", "::to_string", "::to_path_buf", "::unwrap_or_default",
    "::as_mut_slice", "::copied", "::cloned", "::by_ref", "::into_inner", "::get_mut", "::as_ptr", "::as_mut_ptr",
    "Try>::branch", "::unwrap", "::expect", "::map_err", "::with_context", "::context", "::unwrap_or", "::unwrap_or_else",
    "::ok_or_else", "::ok_or", "::ok", "::to_vec", "::new_unchecked", "::get_unchecked_mut", "::as_os_str",
)


def is_transparent(callee):
    base = callee.split("<")[0] if callee.startswith("<") is False else callee
    return callee.endswith(TRANSPARENT_SUFFIXES)


class Slice:
    """Backward value slice inside one body (flow-insensitive over definitions of each local)."""

    def __init__(self, fn, transparent=is_transparent, through_binops=True, through_all_calls=False,
                 through_aggregates=True, opaque=None, into_containers=False):
        self.fn = fn
        self.into_containers = into_containers   # also treat `c.push(v)` / `c.entry(k).or_default().push(v)` as definitions of c
        self.opaque = opaque  # predicate on callee: never look through these calls
        self.transparent = transparent
        self.through_binops = through_binops
        self.through_all_calls = through_all_calls
        self.through_aggregates = through_aggregates

    def sources(self, operand_or_local, max_nodes=4000):
        """Return a list of source records reached from the operand/local:
        ('arg', local) | ('call', b, term) | ('const', c) | ('agg', b, i, rv) | ('upvar', name) |
        ('field', local, [fields]) for reads through a projection (also continued to the base) |
        ('binop', op, b, i) | ('other', desc)"""
        out = []
        seen = set()
        work = []
        defs = self.fn.defs()

        def push_op(o):
            c = op_const(o) if isinstance(o, dict) else None
            if c is not None:
                out.append(("const", c))
                return
            p = op_place(o)
            if p is not None:
                push_place(p)

        def push_place(p):
            fl = place_fields(p)
            if fl:
                out.append(("field", p["l"], tuple(fl), p))
                # `_t.i` where _t is defined once, as a tuple literal: continue with that element only
                first = next((e for e in p["p"] if isinstance(e, dict) and "f" in e), None)
                dfs = defs.get(p["l"], ())
                if first is not None and len(dfs) == 1 and dfs[0]["k"] == "assign" and not dfs[0]["partial"] and \
                        dfs[0]["rv"]["k"] == "agg" and dfs[0]["rv"].get("ak") == "tuple" and first.get("i", -1) < len(dfs[0]["rv"]["ops"]) and \
                        first.get("i", -1) >= 0:
                    push_op(dfs[0]["rv"]["ops"][first["i"]])
                    return
            for e in p["p"]:
                if isinstance(e, dict) and "index" in e:
                    work.append((e["index"], None))
            work.append((p["l"], tuple(fl) if fl else None))

        if isinstance(operand_or_local, int):
            work.append((operand_or_local, None))
        else:
            push_op(operand_or_local)
        defs = self.fn.defs()
        n = 0
        while work and n < max_nodes:
            l, read_fields = work.pop()
            if (l, read_fields) in seen:
                continue
            seen.add((l, read_fields))
            n += 1
            if 1 <= l <= self.fn.arg_count:
                out.append(("arg", l))
            if self.into_containers:
                for (wb, wt) in self.fn.mut_writes().get(l, ()):
                    out.append(("call", wb, wt))
                    for a in wt["args"][1:]:
                        push_op(a)
                # filled inside a closure that captures it mutably and is driven by an iterator adapter
                # (`xs.iter().enumerate().for_each(|(i, x)| map.entry(..).or_default().push(i))`): what the closure stores comes from
                # the elements it is called with, i.e. from the adapter's receiver
                for (wb, wt) in self.fn.closure_fills().get(l, ()):
                    out.append(("call", wb, wt))
                    push_op(wt["args"][0])
            for df in defs.get(l, ()):
                if df["partial"] and read_fields:
                    # field-sensitive: a store to `x.a` is irrelevant for a read of `x.b`
                    wf = tuple(place_fields(df["dst"]))
                    k = min(len(wf), len(read_fields))
                    if wf[:k] != read_fields[:k]:
                        continue
                if df["k"] == "call":
                    t = df["t"]
                    cal = callee_of(t)
                    out.append(("call", df["b"], t))
                    if self.opaque is not None and self.opaque(cal):
                        continue
                    if self.through_all_calls or self.transparent(cal):
                        for a in (t["args"] if self.through_all_calls else t["args"][:1]):
                            push_op(a)
                    continue
                rv = df["rv"]
                k = rv["k"]
                if k in ("use", "cast", "unop", "repeat"):
                    push_op(rv["a"])
                elif k in ("ref", "rawptr", "discr"):
                    if k == "discr":
                        out.append(("discr", df["b"], df["i"], rv["place"]))
                    push_place(rv["place"])
                elif k == "binop":
                    out.append(("binop", rv["op"], df["b"], df["i"]))
                    if self.through_binops:
                        push_op(rv["a"])
                        push_op(rv["b"])
                elif k == "agg":
                    out.append(("agg", df["b"], df["i"], rv))
                    if self.through_aggregates:
                        for o in rv["ops"]:
                            push_op(o)
                else:
                    out.append(("other", rv.get("txt", k)))
        self.last_locals = {l for l, _ in seen}
        return out

    def locals(self, x):
        """Locals whose definitions lie in the backward slice of x."""
        self.sources(x)
        return set(self.last_locals)

    def calls(self, x):
        return [(s[1], s[2]) for s in self.sources(x) if s[0] == "call"]

    def callees(self, x):
        return {callee_of(s[2]) for s in self.sources(x) if s[0] == "call"}

    def args(self, x):
        return {s[1] for s in self.sources(x) if s[0] == "arg"}

    def consts(self, x):
        return [s[1] for s in self.sources(x) if s[0] == "const"]

    def fields(self, x):
        out = set()
        for s in self.sources(x):
            if s[0] == "field":
                out.update(s[2])
        return out


def influence(f, operand, exclude_test=None, max_rounds=50):
    """Everything that can influence the value of `operand` in body f: the data slice (through all calls and aggregates, hence
    closure captures) plus, for every definition visited, the operands of the tests it is control-dependent on (transitively),
    except tests for which exclude_test(block) holds (loop-iteration tests, error / early exits).
    Returns {'fields': set, 'calls': set of callees, 'args': set, 'tests': set of blocks}."""
    sl = Slice(f, through_all_calls=True)
    fields, calls, args, tests = set(), set(), set(), set()
    seen_ops = []
    work = [operand]
    seen_locals = set()
    seen_blocks = set()
    defs = f.defs()
    rounds = 0
    while work and rounds < max_rounds * 50:
        rounds += 1
        o = work.pop()
        for x in sl.sources(o):
            if x[0] == "field":
                fields.update(x[2])
            elif x[0] == "call":
                calls.add(callee_of(x[2]))
            elif x[0] == "arg":
                args.add(x[1])
            elif x[0] == "agg" and x[3].get("closure"):
                calls.add(x[3]["closure"])
        new_locals = set(sl.last_locals) - seen_locals
        seen_locals |= new_locals
        for l in new_locals:
            for d in defs.get(l, ()):
                b = d["b"]
                if b in seen_blocks:
                    continue
                seen_blocks.add(b)
                for (a, succ) in f.control_deps_transitive(b):
                    if a in tests:
                        continue
                    t = f.blocks[a]["term"]
                    if t["k"] != "switch":
                        continue
                    if exclude_test is not None and exclude_test(a):
                        continue
                    tests.add(a)
                    work.append(t["on"])
    return {"fields": fields, "calls": calls, "args": args, "tests": tests}


def _remap(x, lmap, bmap):
    """Deep copy of a MIR fact fragment with locals and block ids renumbered."""
    if isinstance(x, list):
        return [_remap(y, lmap, bmap) for y in x]
    if isinstance(x, dict):
        if "l" in x and "p" in x and isinstance(x["p"], list):
            return {"l": lmap(x["l"]), "p": [({**e, "index": lmap(e["index"])} if isinstance(e, dict) and "index" in e else e) for e in x["p"]]}
        out = {}
        for k, v in x.items():
            if k in ("target", "otherwise", "cleanup", "unwind", "real_target", "imaginary_target") and isinstance(v, int):
                out[k] = bmap(v)
            elif k == "targets" and isinstance(v, list):
                out[k] = [bmap(y) for y in v]
            else:
                out[k] = _remap(v, lmap, bmap)
        return out
    return x


def inline_calls(P, f, depth=2, max_blocks=600, _stack=(), max_callee_blocks=None, keep=()):
    """A view of f with the bodies of PRIVATE helper functions of the same file spliced in at their call sites (arguments copied
    into fresh locals, `return` replaced by an assignment to the call's destination and a jump to its successor), recursively up
    to `depth`.  Rules that look at the order / dominance / data flow inside one function stay valid when code is extracted into
    such helpers.  The view keeps f's path and line information; statements of a helper carry the helper's own lines."""
    import copy
    d = copy.deepcopy(f.d)
    blocks = d["blocks"]
    locals_ = d["locals"]
    changed = False
    for cb in range(len(f.blocks)):
        t = blocks[cb]["term"]
        if t["k"] != "call":
            continue
        cal = t.get("resolved") or t.get("callee")
        g = P.fns.get(cal)
        if g is None or g.kind == "closure" or g.file != f.file or g.vis == "Public" or g.path == f.path or cal in _stack or \
                len(g.blocks) > max_blocks or g.coroutine or len(t["args"]) != g.arg_count:
            continue
        if max_callee_blocks is not None and len(g.blocks) > max_callee_blocks:
            continue
        if cal in keep:
            continue
        if depth <= 0:
            continue
        gi = inline_calls(P, g, depth - 1, max_blocks, _stack + (f.path,), max_callee_blocks, keep) if depth > 1 else g
        base = len(locals_)
        boff = len(blocks) + 1
        lmap = lambda l, base=base: l + base
        bmap = lambda b, boff=boff: b + boff
        for lj in gi.locals:
            locals_.append(dict(lj, inlined=g.path))
        entry = {"stmts": [], "term": {"k": "goto", "target": boff, "line": t.get("line")}}
        for i, a in enumerate(t["args"]):
            entry["stmts"].append({"k": "assign", "dst": {"l": base + i + 1, "p": []}, "rv": {"k": "use", "a": copy.deepcopy(a)}, "line": t.get("line"),
                                   "inlined_arg": True})
        blocks.append(entry)
        entry_id = len(blocks) - 1
        assert entry_id + 1 == boff
        tgt = t.get("target")
        for gb in gi.blocks:
            nb = _remap(gb, lmap, bmap)
            if nb["term"]["k"] == "return":
                nb["stmts"].append({"k": "assign", "dst": copy.deepcopy(t["dst"]), "rv": {"k": "use", "a": {"mv": {"l": base, "p": []}}},
                                    "line": nb["term"].get("line"), "inlined_ret": g.path})
                nb["term"] = {"k": "goto", "target": tgt, "line": nb["term"].get("line")} if tgt is not None else {"k": "unreachable"}
            blocks.append(nb)
        blocks[cb]["term"] = {"k": "goto", "target": entry_id, "line": t.get("line"), "inlined_call": g.path}
        d.setdefault("inlined", []).append(g.path)
        changed = True
        # ---- jump threading: a spliced return whose Result / Option variant is known goes straight to the matching arm of
        # the caller's test on the call's destination (otherwise the correlation "callee failed <=> Err arm" is lost)
        if tgt is not None and not t["dst"]["p"]:
            _thread_returns(blocks, boff, len(gi.blocks), base, t["dst"]["l"], tgt)
    if not changed:
        return f
    nf = Fn(d, f.crate)
    nf.inlined = d.get("inlined", [])
    return nf


_VARIANT_VALUE = {"Ok": 0, "Err": 1, "None": 0, "Some": 1, "Continue": 0, "Break": 1}


def _known_variant(blk, ret_local):
    """Variant name assigned to ret_local by the last definition in this block, if it is an Ok/Err/Some/None literal (or `?`)."""
    v = None
    for st in blk["stmts"]:
        if st["k"] == "assign" and st["dst"]["l"] == ret_local and not st["dst"]["p"]:
            rv = st["rv"]
            if rv["k"] == "agg" and rv.get("adt") in ("core::result::Result", "core::option::Option"):
                v = rv.get("variant")
            else:
                v = None
    return v


def _thread_returns(blocks, boff, n, base, dst_local, tgt):
    import copy
    T = blocks[tgt]

    def arm_of(variant):
        """(extra blocks to append, entry) specialising the caller's test on dst_local for this variant, or None."""
        val = _VARIANT_VALUE.get(variant)
        if val is None:
            return None
        tt = T["term"]
        # pattern 1:  x = discr(dst); switch x
        if tt["k"] == "switch":
            on = tt["on"].get("mv") or tt["on"].get("cp")
            if on and not on["p"]:
                ds = [s for s in T["stmts"] if s["k"] == "assign" and s["dst"]["l"] == on["l"]]
                if len(ds) == 1 and ds[0]["rv"]["k"] == "discr" and ds[0]["rv"]["place"] == {"l": dst_local, "p": []}:
                    vals = dict(zip(tt["values"], tt["targets"]))
                    to = vals.get(val, tt.get("otherwise"))
                    if to is not None:
                        return [{"stmts": copy.deepcopy(T["stmts"]), "term": {"k": "goto", "target": to, "line": tt.get("line"), "threaded": variant}}]
        # pattern 2:  y = Try::branch(move dst) -> T2 ;  T2: x = discr(y); switch x
        if tt["k"] == "call" and (tt.get("callee") or "").endswith("Try::branch") and tt["args"] and \
                (tt["args"][0].get("mv") or tt["args"][0].get("cp")) == {"l": dst_local, "p": []} and tt.get("target") is not None:
            T2 = blocks[tt["target"]]
            t2 = T2["term"]
            y = tt["dst"]["l"]
            if t2["k"] == "switch":
                on = t2["on"].get("mv") or t2["on"].get("cp")
                if on and not on["p"]:
                    ds = [s for s in T2["stmts"] if s["k"] == "assign" and s["dst"]["l"] == on["l"]]
                    if len(ds) == 1 and ds[0]["rv"]["k"] == "discr" and ds[0]["rv"]["place"] == {"l": y, "p": []}:
                        vals = dict(zip(t2["values"], t2["targets"]))
                        cf = 0 if variant in ("Ok", "Some") else 1
                        to = vals.get(cf, t2.get("otherwise"))
                        if to is not None:
                            b2 = {"stmts": copy.deepcopy(T2["stmts"]), "term": {"k": "goto", "target": to, "line": t2.get("line"), "threaded": variant}}
                            b1 = {"stmts": copy.deepcopy(T["stmts"]), "term": dict(copy.deepcopy(tt), target=None)}
                            return [b1, b2]
        return None
    ret_ty = None
    # the spliced return blocks: goto tgt with the copy into dst as last statement
    ret_blocks = {k for k in range(boff, boff + n) if blocks[k]["term"]["k"] == "goto" and blocks[k]["term"].get("target") == tgt and
                  blocks[k]["stmts"] and blocks[k]["stmts"][-1].get("inlined_ret")}
    if not ret_blocks:
        return

    def single_succ(k):
        t = blocks[k]["term"]
        if t["k"] in ("goto", "drop") and t.get("target") is not None:
            return t["target"]
        return None

    def defines_ret(k, upto=None):
        return any(s["k"] == "assign" and s["dst"]["l"] == base and not s["dst"]["p"] for s in (blocks[k]["stmts"] if upto is None else blocks[k]["stmts"][:upto]))
    for k in range(boff, boff + n):
        blk = blocks[k]
        variant = None
        if k in ret_blocks:
            variant = _known_variant({"stmts": blk["stmts"][:-1]}, base)
            start = None
        else:
            variant = _known_variant(blk, base)
            t = blk["term"]
            if variant is None and t["k"] == "call" and "from_residual" in (t.get("callee") or "") and t["dst"] == {"l": base, "p": []}:
                variant = "Err" if "Result<" in (t.get("dst_ty") or "") or (t.get("dst_ty") or "").startswith("core::result::Result") else \
                    ("None" if (t.get("dst_ty") or "").startswith("core::option::Option") else None)
            start = t.get("target") if t["k"] in ("goto", "drop", "call") else None
        if variant is None:
            continue
        arm = arm_of(variant)
        if arm is None:
            continue
        if k in ret_blocks:
            first = len(blocks)
            if len(arm) == 2:
                arm[0]["term"]["target"] = first + 1
            blocks.extend(arm)
            blk["term"] = dict(blk["term"], target=first)
            continue
        # follow the straight-line tail (drops / gotos) from the assignment to the spliced return, cloning it for this variant
        chain = []
        cur = start
        ok = False
        steps = 0
        while cur is not None and boff <= cur < boff + n and steps < 64:
            steps += 1
            if cur in ret_blocks:
                if defines_ret(cur, upto=len(blocks[cur]["stmts"]) - 1):
                    break
                chain.append(cur)
                ok = True
                break
            if defines_ret(cur) or single_succ(cur) is None:
                break
            chain.append(cur)
            cur = single_succ(cur)
        if not ok:
            continue
        first_arm = len(blocks) + len(chain)
        clones = []
        for idx_, c in enumerate(chain):
            nb = copy.deepcopy(blocks[c])
            nxt = (len(blocks) + idx_ + 1) if idx_ + 1 < len(chain) else first_arm
            nb["term"] = dict(nb["term"], target=nxt)
            clones.append(nb)
        blocks.extend(clones)
        if len(arm) == 2:
            arm[0]["term"]["target"] = first_arm + 1
        blocks.extend(arm)
        entry = first_arm - len(chain)
        blk["term"] = dict(blk["term"], target=entry)


class Program:
    def __init__(self, docs):
        self.docs = docs
        self.fns = {}
        self.adts = {}
        self.by_crate = defaultdict(list)
        self.configs = []
        self.stolen = []
        for d in docs:
            crate = d["crate"]
            self.configs.append({"crate": crate, "crate_types": d["crate_types"], "cfgs": d["cfgs"],
                                 "debug_assertions": d["debug_assertions"], "overflow_checks": d["overflow_checks"],
                                 "file": d.get("_file")})
            self.stolen.extend(d.get("stolen", []))
            is_bin = "Executable" in " ".join(d["crate_types"])
            for f in d["fns"]:
                fn = Fn(f, crate)
                key = fn.path
                if key in self.fns and is_bin:
                    # lib and bin targets of one package share a crate name; keep both
                    key = "bin:" + key
                    fn.path = key
                self.fns[key] = fn
                self.by_crate[crate].append(fn)
            for a in d["adts"]:
                self.adts.setdefault(a["path"], a)
        self._edges = None
        self._trans = {}
        self._impls = None
        self._callers = None

    # ---- lookup ---------------------------------------------------------------------------------
    def inlined(self, path, depth=2, small=None, keep=()):
        """fn(path) with private same-file helpers spliced in (see inline_calls); `small` = only helpers of at most that many
        blocks (for very large functions); memoised."""
        if not hasattr(self, "_inl"):
            self._inl = {}
        key = (path, depth, small, tuple(sorted(keep)))
        if key not in self._inl:
            f = self.fns.get(path)
            self._inl[key] = inline_calls(self, f, depth, max_callee_blocks=small, keep=tuple(keep)) if f is not None else None
        return self._inl[key]

    def fn(self, path):
        return self.fns.get(path)

    def find(self, suffix, crate=None):
        """Functions whose path ends with `suffix` at a `::` boundary."""
        out = []
        for p, f in self.fns.items():
            if (p == suffix or p.endswith("::" + suffix)) and (crate is None or f.crate == crate):
                out.append(f)
        return out

    def one(self, suffix, crate=None):
        r = self.find(suffix, crate)
        return r[0] if len(r) == 1 else None

    def closures_of(self, fn, recursive=True):
        out = []
        for p, f in self.fns.items():
            if f.parent == fn.path:
                out.append(f)
                if recursive:
                    out.extend(self.closures_of(f, True))
        return out

    def adt(self, suffix):
        r = [a for p, a in self.adts.items() if p == suffix or p.endswith("::" + suffix)]
        return r[0] if len(r) == 1 else None

    # ---- call graph -------------------------------------------------------------------------------
    def impls(self):
        """trait method path -> [impl fn paths] (for fan-out of dyn / generic trait calls)."""
        if self._impls is None:
            m = defaultdict(list)
            for p, f in self.fns.items():
                if f.impl_trait:
                    name = p.rsplit("::", 1)[1]
                    m[f.impl_trait + "::" + name].append(p)
            self._impls = m
        return self._impls

    def edges(self):
        """fn path -> list of (callee path, block, kind) ; kind in call|closure|fnref|dyn"""
        if self._edges is None:
            e = defaultdict(list)
            impls = self.impls()
            for p, f in self.fns.items():
                lst = e[p]
                for b in f.reachable():
                    blk = f.blocks[b]
                    for i, s in enumerate(blk["stmts"]):
                        if s["k"] != "assign":
                            continue
                        rv = s["rv"]
                        if rv["k"] == "agg" and rv.get("ak") == "closure":
                            lst.append((rv["closure"], b, "closure"))
                        for o in _rv_operands(rv):
                            c = op_const(o)
                            if c and "fn" in c:
                                lst.append((c.get("resolved", c["fn"]), b, "fnref"))
                            elif c and "closure" in c:
                                lst.append((c["closure"], b, "closure"))
                    t = blk["term"]
                    if t["k"] == "call":
                        cal = callee_of(t)
                        lst.append((cal, b, "call"))
                        if "resolved" not in t and t["callee"] in impls:
                            for ip in impls[t["callee"]]:
                                lst.append((ip, b, "dyn"))
                        for o in t["args"]:
                            c = op_const(o)
                            if c and "fn" in c:
                                lst.append((c.get("resolved", c["fn"]), b, "fnref"))
                            elif c and "closure" in c:
                                lst.append((c["closure"], b, "closure"))
            self._edges = e
        return self._edges

    def callers(self):
        if self._callers is None:
            c = defaultdict(list)
            for p, lst in self.edges().items():
                for (q, b, k) in lst:
                    c[q].append((p, b, k))
            self._callers = c
        return self._callers

    def reach(self, path, kinds=("call", "closure", "fnref", "dyn")):
        """All callee paths (local fns and external names) transitively reachable from `path`
        (not including `path` itself unless recursive)."""
        key = (path, kinds)
        if key in self._trans:
            return self._trans[key]
        edges = self.edges()
        seen = set()
        st = [path]
        while st:
            n = st.pop()
            for (q, b, k) in edges.get(n, ()):
                if k in kinds and q not in seen:
                    seen.add(q)
                    st.append(q)
        self._trans[key] = seen
        return seen

    def call_reaches(self, t, pred, kinds=("call", "closure", "fnref", "dyn")):
        """Does call terminator `t` perform (directly or transitively) a callee satisfying pred?"""
        cal = callee_of(t)
        if pred(cal):
            return True
        if "resolved" not in t:
            for ip in self.impls().get(t["callee"], ()):
                if pred(ip) or any(pred(x) for x in self.reach(ip, kinds)):
                    return True
        # closures / fn items passed as arguments are assumed to be invoked by the callee
        for o in t["args"]:
            c = op_const(o)
            tgt = None
            if c and "fn" in c:
                tgt = c.get("resolved", c["fn"])
            elif c and "closure" in c:
                tgt = c["closure"]
            if tgt and (pred(tgt) or any(pred(x) for x in self.reach(tgt, kinds))):
                return True
        return any(pred(x) for x in self.reach(cal, kinds))

    def sites_calling(self, fn, pred, transitive=True, include_closure_construction=True):
        """Sites in `fn` (call terminators; closure constructions) that perform an effect matching pred."""
        out = []
        for b in sorted(fn.reachable()):
            blk = fn.blocks[b]
            if include_closure_construction:
                for i, s in enumerate(blk["stmts"]):
                    if s["k"] == "assign" and s["rv"]["k"] == "agg" and s["rv"].get("ak") == "closure":
                        c = s["rv"]["closure"]
                        if transitive and (pred(c) or any(pred(x) for x in self.reach(c))):
                            out.append(Site(fn, b, i))
            t = blk["term"]
            if t["k"] == "call":
                if transitive:
                    if self.call_reaches(t, pred):
                        out.append(Site(fn, b, TERM))
                elif pred(callee_of(t)) or pred(t["callee"]):
                    out.append(Site(fn, b, TERM))
        return out

    def paths_to(self, src, pred, limit=1):
        """Shortest call-graph path from fn `src` to a callee satisfying pred (list of paths)."""
        edges = self.edges()
        prev = {src: None}
        q = [src]
        for n in q:
            for (c, b, k) in edges.get(n, ()):
                if c in prev:
                    continue
                prev[c] = (n, b)
                if pred(c):
                    out = [c]
                    x = n
                    while x is not None:
                        out.append(x)
                        x = prev[x][0] if prev[x] else None
                    return out[::-1]
                q.append(c)
        return None


def _rv_operands(rv):
    k = rv["k"]
    if k in ("use", "cast", "unop", "repeat"):
        return [rv["a"]]
    if k == "binop":
        return [rv["a"], rv["b"]]
    if k == "agg":
        return rv["ops"]
    return []


# ---- return classification (A3) ------------------------------------------------------------------

def return_sites(fn):
    """Classify every definition of the return place `_0`:
    -> list of (Site, kind) with kind in ok | err | tail | other.
    `_0 = move _x` is followed back to the definitions of _x."""
    out = []
    seen = set()

    def visit(local):
        if local in seen:
            return
        seen.add(local)
        for df in fn.defs().get(local, ()):
            if df["partial"]:
                continue
            site = Site(fn, df["b"], df["i"])
            if df["k"] == "call":
                cal = callee_of(df["t"])
                if cal.endswith("FromResidual<core::result::Result<core::convert::Infallible, E>>>::from_residual") or \
                        "::from_residual" in cal:
                    out.append((site, "err"))
                elif cal.endswith("core::ops::function::FnOnce::call_once") and False:
                    out.append((site, "tail"))
                else:
                    out.append((site, "tail"))
                continue
            rv = df["rv"]
            if rv["k"] == "agg" and rv.get("adt") == "core::result::Result":
                out.append((site, "ok" if rv["variant"] == "Ok" else "err"))
            elif rv["k"] == "agg" and rv.get("adt") == "core::option::Option":
                out.append((site, "ok" if rv["variant"] == "Some" else "err"))
            elif rv["k"] == "use" and op_local(rv["a"]) is not None and not op_place(rv["a"])["p"]:
                visit(op_local(rv["a"]))
            else:
                out.append((site, "other"))

    visit(0)
    return out


def ok_sites(fn):
    return [s for s, k in return_sites(fn) if k == "ok"]


def err_sites(fn):
    return [s for s, k in return_sites(fn) if k == "err"]


# ---- lock regions (A6) ------------------------------------------------------------------------------

LOCK_ACQUIRE = (
    "lock_api::mutex::Mutex::<R, T>::lock", "lock_api::rwlock::RwLock::<R, T>::read",
    "lock_api::rwlock::RwLock::<R, T>::write", "tokio::sync::mutex::Mutex::<T>::blocking_lock",
    "tokio::sync::mutex::Mutex::<T>::lock", "tokio::sync::mutex::Mutex::<T>::blocking_lock_owned",
    "std::sync::poison::mutex::Mutex::<T>::lock", "std::sync::poison::rwlock::RwLock::<T>::read",
    "std::sync::poison::rwlock::RwLock::<T>::write",
)


def lock_acquisitions(fn, field=None, kinds=LOCK_ACQUIRE):
    """Call sites acquiring a lock; if `field` is given the receiver must slice to a place ending
    in that field.  Returns [(Site, guard local, callee)]."""
    out = []
    sl = Slice(fn)
    for b, t in fn.calls():
        cal = callee_of(t)
        if cal not in kinds:
            continue
        if field is not None:
            if field not in sl.fields(t["args"][0]):
                continue
        out.append((Site(fn, b, TERM), t["dst"]["l"], cal))
    return out


def guard_aliases(fn, guard_local):
    """Locals that (by plain move/use) hold the same guard value."""
    al = {guard_local}
    changed = True
    while changed:
        changed = False
        for l, dfs in fn.defs().items():
            if l in al:
                continue
            for df in dfs:
                if df["k"] == "assign" and not df["partial"] and df["rv"]["k"] == "use":
                    p = op_place(df["rv"]["a"])
                    if p and not p["p"] and p["l"] in al:
                        al.add(l)
                        changed = True
                # `?` on a Result<Guard>/ unwrap etc. are not aliases here
    return al


def lock_states(fn, acq_site, guard_local, extra_release_blocks=()):
    """Must-analysis: for every block, the set of lock states possible at block ENTRY, and a function
    giving the state set at a site.  States: 'L' (held) / 'U' (not held).  Release points: Drop of the
    guard local, a move of the guard into a call (mem::drop, passing it away), StorageDead."""
    aliases = guard_aliases(fn, guard_local)

    def releases_in_block(b):
        """list of statement indexes at which the guard is released in block b"""
        out = []
        blk = fn.blocks[b]
        for i, s in enumerate(blk["stmts"]):
            if s["k"] == "dead" and s["l"] in aliases and s["l"] == guard_local:
                out.append(i)
        t = blk["term"]
        if t["k"] == "drop" and t["place"]["l"] in aliases and not t["place"]["p"]:
            out.append(TERM)
        if t["k"] == "call" and not (b == acq_site.b):
            for a in t["args"]:
                if "mv" in a and a["mv"]["l"] in aliases and not a["mv"]["p"]:
                    out.append(TERM)
        if b in extra_release_blocks:
            out.append(TERM)
        return out

    rel = {b: releases_in_block(b) for b in fn.reachable()}
    state_in = defaultdict(set)
    state_in[0].add("U")
    work = [0]
    out_state = {}

    def transfer(b, ins):
        st = set(ins)
        events = []
        if b == acq_site.b:
            events.append((acq_site.i, "L"))
        for i in rel[b]:
            events.append((i, "U"))
        events.sort(key=lambda e: (e[0], 0 if e[1] == "U" else 1))
        # an acquisition in the terminator happens "after" everything else in its block
        for _, ev in events:
            st = {ev}
        return st

    while work:
        b = work.pop()
        o = transfer(b, state_in[b])
        if out_state.get(b) == o:
            continue
        out_state[b] = o
        for s in fn.succ(b):
            if not o <= state_in[s]:
                state_in[s] |= o
                work.append(s)
            elif s not in out_state:
                work.append(s)

    def at(site):
        st = set(state_in[site.b])
        events = []
        if site.b == acq_site.b:
            events.append((acq_site.i, "L"))
        for i in rel.get(site.b, ()):
            events.append((i, "U"))
        events.sort()
        for i, ev in events:
            if i < site.i:
                st = {ev}
        return st

    return at


# ---- outcome arms of a fallible call ----------------------------------------------------------------

# calls that hand the outcome of their receiver on (possibly changing Result <-> Option, which the arm detection reads off the type)
OUTCOME_ADAPTERS = ("core::ops::try_trait::Try>::branch", "Result::<T, E>::ok", "Result::<T, E>::map", "Result::<T, E>::map_err",
                    "Option::<T>::ok_or", "Option::<T>::ok_or_else", "Option::<T>::map", "Context<T, E> for core::result::Result<T, E>>::context",
                    "Context<T, E> for core::result::Result<T, E>>::with_context", "Context<T, core::convert::Infallible> for core::option::Option<T>>::context",
                    "Context<T, core::convert::Infallible> for core::option::Option<T>>::with_context", "Result::<T, E>::and_then",
                    "Option::<T>::and_then", "Option::<T>::copied", "Option::<T>::cloned", "Option::<&T>::copied", "Option::<&T>::cloned")


def outcome_arms(fn, call_site):
    """For a call site whose destination is a Result (or Option), find how the body branches on it.
    Returns {'ok': [blocks], 'err': [blocks], 'switch': [blocks]}: `ok` blocks are entered only when
    the call succeeded, `err` blocks only when it failed.  Recognised: `?` (Try::branch + switch on
    the ControlFlow discriminant), `if let Err/Ok`, `match`, on the destination local or a plain
    move of it."""
    t = fn.blocks[call_site.b]["term"]
    if t["k"] != "call":
        return {"ok": [], "err": [], "switch": [], "ok_edges": [], "err_edges": []}
    carriers = {t["dst"]["l"]}
    # follow Try::branch(move dst) and plain moves
    changed = True
    while changed:
        changed = False
        for l, dfs in fn.defs().items():
            if l in carriers:
                continue
            for df in dfs:
                if df["k"] == "call" and callee_of(df["t"]).endswith(OUTCOME_ADAPTERS) and df["t"]["args"]:
                    a = df["t"]["args"][0]
                    if op_local(a) in carriers and not op_place(a)["p"]:
                        carriers.add(l)
                        changed = True
                elif df["k"] == "assign" and not df["partial"] and df["rv"]["k"] == "use":
                    p = op_place(df["rv"]["a"])
                    if p and not p["p"] and p["l"] in carriers:
                        carriers.add(l)
                        changed = True
    # shared references to a carrier (`if let Err(e) = &res`, `res.is_ok()`)
    refs = set()
    changed = True
    while changed:
        changed = False
        for b, i, s in fn.stmts():
            if s["k"] != "assign" or s["dst"]["p"] or s["dst"]["l"] in refs:
                continue
            rv = s["rv"]
            if rv["k"] == "ref" and not rv.get("mut"):
                pl = rv["place"]
                if (pl["l"] in carriers and not pl["p"]) or (pl["l"] in refs and pl["p"] == ["deref"]):
                    refs.add(s["dst"]["l"])
                    changed = True
            elif rv["k"] == "use":
                pl = op_place(rv["a"])
                if pl and not pl["p"] and pl["l"] in refs:
                    refs.add(s["dst"]["l"])
                    changed = True
    discr_locals = {}
    for b, i, s in fn.stmts():
        if s["k"] == "assign" and s["rv"]["k"] == "discr":
            pl = s["rv"]["place"]
            if (pl["l"] in carriers and not pl["p"]) or (pl["l"] in refs and pl["p"] == ["deref"]):
                # which discriminant value means "succeeded": Result Ok = 0, ControlFlow Continue = 0, Option Some = 1
                ty = fn.local_ty(pl["l"]).lstrip("&")
                discr_locals[s["dst"]["l"]] = 1 if ty.startswith("core::option::Option<") else 0
    # boolean outcome tests: is_ok / is_some (true = succeeded), is_err / is_none (false = succeeded); `!x` flips
    for b, t in fn.calls():
        cal = callee_of(t)
        if cal.endswith(("Result::<T, E>::is_ok", "Option::<T>::is_some", "Result::<T, E>::is_err", "Option::<T>::is_none")) and t["args"] and \
                op_local(t["args"][0]) in refs and not t["dst"]["p"]:
            discr_locals[t["dst"]["l"]] = 1 if cal.endswith(("is_ok", "is_some")) else 0
    changed = True
    while changed:
        changed = False
        for b, i, s in fn.stmts():
            if s["k"] != "assign" or s["dst"]["p"] or s["dst"]["l"] in discr_locals:
                continue
            rv = s["rv"]
            if rv["k"] == "use" and op_local(rv["a"]) in discr_locals and not op_place(rv["a"])["p"] and \
                    fn.local_ty(op_local(rv["a"])) == "bool":
                discr_locals[s["dst"]["l"]] = discr_locals[op_local(rv["a"])]
                changed = True
            elif rv["k"] == "unop" and rv.get("op") == "Not" and op_local(rv["a"]) in discr_locals and fn.local_ty(op_local(rv["a"])) == "bool":
                discr_locals[s["dst"]["l"]] = 1 - discr_locals[op_local(rv["a"])]
                changed = True
    out = {"ok": [], "err": [], "switch": [], "ok_edges": [], "err_edges": []}
    preds = fn.preds()
    for b in fn.reachable():
        tt = fn.blocks[b]["term"]
        if tt["k"] != "switch":
            continue
        l = op_local(tt["on"])
        if l not in discr_locals:
            continue
        out["switch"].append(b)
        vals = dict(zip(tt["values"], tt["targets"]))
        okv = discr_locals[l]
        okb = vals.get(okv)
        errb = vals.get(1 - okv)
        if okb is None and (1 - okv) in vals:
            okb = tt["otherwise"]
        if errb is None and okv in vals:
            errb = tt["otherwise"]
        for blk, name in ((okb, "ok"), (errb, "err")):
            if blk is not None:
                out[name + "_edges"].append((b, blk))
            if blk is not None and set(preds.get(blk, [])) == {b}:
                out[name].append(blk)
    return out


def in_arm(fn, site, arm_blocks):
    return any(fn.dominates_block(a, site.b) for a in arm_blocks)


# ---- ordered must-pass-through (A5) -------------------------------------------------------------------

class Effect:
    def __init__(self, name, pred, optional=False, no_early=True, sites=None):
        self.name = name
        self.pred = pred
        self.optional = optional
        self.no_early = no_early
        self.sites = sites  # explicit site provider: fn -> [Site]


def effect_sites(P, fn, eff):
    """Sites of fn that perform the effect on every success path through the callee (must), not merely somewhere (may)."""
    if eff.sites is not None:
        return eff.sites(fn)
    out = []
    for s in P.sites_calling(fn, eff.pred, transitive=True, include_closure_construction=False):
        t = fn.blocks[s.b]["term"]
        if site_must_perform(P, fn, s.b, t, eff.pred):
            out.append(s)
    return out


def site_callee_fn(P, site):
    """The local function invoked at a call site (resolved callee or closure), if it is in the fact base."""
    t = site.fn.blocks[site.b]["term"]
    if site.i != TERM or t["k"] != "call":
        return None
    return P.fn(callee_of(t))


def must_perform(P, fn, pred, depth=0, _memo=None):
    """Every normal return of `fn` that is not an error exit is preceded, on every path, by a call that must perform `pred`
    (the primitive itself, or a local callee for which this holds recursively).  dyn / external callees satisfying
    call_reaches are accepted as performing it (their bodies are not visible)."""
    _memo = _memo if _memo is not None else {}
    if fn.path in _memo:
        return _memo[fn.path]
    _memo[fn.path] = False
    if depth > 6:
        return False
    sites = []
    for b, t in fn.calls():
        if site_must_perform(P, fn, b, t, pred, depth, _memo):
            sites.append(Site(fn, b))
    rets = return_sites(fn)
    targets = [s for s, k in rets if k in ("ok", "other", "tail")]
    if not rets:
        # unit functions: the return block itself
        targets = [Site(fn, b, -1) for b in fn.reachable() if fn.blocks[b]["term"]["k"] == "return"]
    if not targets:
        targets = [Site(fn, b, -1) for b in fn.reachable() if fn.blocks[b]["term"]["k"] == "return"]
    ok = bool(targets) and all(any(fn.dominates_block(s.b, t.b) for s in sites) for t in targets)
    _memo[fn.path] = ok
    return ok


def site_must_perform(P, fn, b, t, pred, depth=0, _memo=None):
    cal = callee_of(t)
    if pred(cal) or pred(t["callee"]):
        return True
    g = P.fn(cal)
    if g is not None:
        return must_perform(P, g, pred, depth + 1, _memo)
    # closure passed and invoked by an external combinator, dyn call, ...: fall back to may-reach
    return P.call_reaches(t, pred) and "resolved" not in t


def must_order(P, fn, effects, targets, depth=0, trace=None):
    """Every path from entry to each target site passes, in order, through sites performing the
    effects.  Returns (ok, chain|counter-example).  One site may provide several consecutive effects
    if its callee's own body orders them on all paths to its Ok-returns (checked recursively)."""
    trace = trace if trace is not None else []
    if depth > 6:
        return False, {"reason": "recursion bound (6 call levels) exceeded", "fn": fn.path}
    req = [e for e in effects]
    per_eff_sites = [effect_sites(P, fn, e) for e in req]
    results = []
    all_ok = True
    for t in targets:
        ok, chain = _chain(P, fn, req, per_eff_sites, len(req) - 1, t, depth)
        if not ok:
            all_ok = False
            results.append({"target": repr(t), "failed": chain})
        else:
            results.append({"target": repr(t), "chain": chain})
            # no-early check relative to this chain
            chain_sites = {c["effect"]: c["_site"] for c in chain}
            for j, e in enumerate(req):
                if j == 0 or not e.no_early or e.optional:
                    continue
                # previous non-optional effect in chain
                prev = None
                for jj in range(j - 1, -1, -1):
                    if req[jj].name in chain_sites:
                        prev = chain_sites[req[jj].name]
                        break
                if prev is None:
                    continue
                for s in per_eff_sites[j]:
                    if s.key() == chain_sites.get(e.name, s).key() or s.key() == prev.key():
                        continue
                    if not fn.dominates(prev, s):
                        all_ok = False
                        results.append({"early": "%s performed at %s is not preceded by %s at %s on every path"
                                                 % (e.name, s.loc(), req[jj].name, prev.loc())})
    for r in results:
        for c in r.get("chain", []):
            c.pop("_site", None)
    return all_ok, results


def _chain(P, fn, req, per_sites, idx, target, depth):
    """Find sites for effects req[0..idx] dominating `target` in order (greedy, latest first)."""
    # skip optional effects in the chain (checked separately by the caller)
    while idx >= 0 and req[idx].optional:
        idx -= 1
    if idx < 0:
        return True, []
    e = req[idx]
    cands = [s for s in per_sites[idx] if fn.dominates(s, target)]
    # latest dominating first
    cands.sort(key=lambda s: sum(1 for o in cands if fn.dominates(o, s)), reverse=True)
    if not cands:
        p = fn.cfg_path(0, target.b, avoid=[s.b for s in per_sites[idx]])
        return False, {"missing": e.name, "fn": fn.path, "target": target.loc(),
                       "path_avoiding_effect": ["bb%d@%s" % (b, fn.blocks[b]["term"].get("line")) for b in (p or [])][:40],
                       "sites_of_effect": [s.loc() for s in per_sites[idx]]}
    last_fail = None
    for s in cands:
        # how many preceding (contiguous, non-optional) effects does the same site also perform?
        group = [idx]
        j = idx - 1
        while j >= 0:
            if req[j].optional:
                j -= 1
                continue
            if any(x.key() == s.key() for x in per_sites[j]):
                group.append(j)
                j -= 1
            else:
                break
        # try the smallest grouping first (just this effect), then larger ones
        for take in range(1, len(group) + 1):
            g = sorted(group[:take])
            rest_idx = g[0] - 1
            ok_inner = True
            inner = None
            if take > 1:
                callee = site_callee_fn(P, s)
                if callee is None:
                    ok_inner = False
                    inner = {"reason": "cannot look inside %s" % s.loc()}
                else:
                    tg = ok_sites(callee) or [x for x, k in return_sites(callee) if k in ("tail", "other")]
                    ok_inner, inner = must_order(P, callee, [req[k] for k in g], tg, depth + 1)
            if not ok_inner:
                last_fail = {"effects": [req[k].name for k in g], "site": s.loc(), "inner": inner}
                continue
            ok_rest, rest = _chain(P, fn, req, per_sites, rest_idx, s, depth)
            if ok_rest:
                link = [{"effect": req[k].name, "site": s.loc(), "fn": fn.short, "_site": s} for k in g]
                if inner is not None:
                    link[0]["inner"] = inner
                return True, rest + link
            last_fail = rest
    return False, last_fail
