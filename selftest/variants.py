"""Seeded variants for the checker self-test.  Each: name, property whose check must fire, file, old, new,
substring expected in a VIOLATION key ('' = any).  kind 'break' must fire; kind 'keep' (behaviour-preserving
refactor) must stay silent."""
W = "searchlite-core/src/api/writer.rs"
IDX = "searchlite-core/src/index/mod.rs"
ST = "searchlite-core/src/storage/mod.rs"
MAN = "searchlite-core/src/index/manifest.rs"
WAL = "searchlite-core/src/index/wal.rs"

V = [
    # ---- C01
    dict(name="c01-drop-terms-fsync", pid="C01", kind="break", file="searchlite-core/src/index/terms.rs",
         old="  file.sync_all()?;\n", new="", key="R01.b"),
    dict(name="c01-marker-before-store", pid="C01", kind="break", file=W,
         old="      new_manifest.store(self.inner.storage.as_ref(), &manifest_path)?;\n      self.wal.append_commit()?;\n",
         new="      self.wal.append_commit()?;\n      new_manifest.store(self.inner.storage.as_ref(), &manifest_path)?;\n", key="R01.a"),
    dict(name="c01-cleanup-before-store", pid="C01", kind="break", file=IDX,
         old="    manifest_guard.store(\n      inner.storage.as_ref(),\n      &Manifest::manifest_path(&inner.path),\n    )?;\n    drop(manifest_guard);\n    cleanup_segments(inner.storage.as_ref(), &old_segments)?;\n",
         new="    cleanup_segments(inner.storage.as_ref(), &old_segments)?;\n    manifest_guard.store(\n      inner.storage.as_ref(),\n      &Manifest::manifest_path(&inner.path),\n    )?;\n    drop(manifest_guard);\n", key="R01.d"),
    dict(name="c01-manifest-write_all", pid="C01", kind="break", file=MAN,
         old="      .atomic_write(path, &data)", new="      .write_all(path, &data)", key="R01.e"),
    dict(name="c01-no-dir-fsync", pid="C01", kind="break", file=ST,
         old="    fs::rename(&tmp, path)?;\n    sync_dir(path)?;\n", new="    fs::rename(&tmp, path)?;\n", key="R01.c"),
    dict(name="c01-publish-before-persist", pid="C01", kind="break", file=W,
         old="    let wal_len = self.wal.len()?;\n", new="    let wal_len = self.wal.len()?;\n    *self.inner.manifest.write() = new_manifest.clone();\n", key="R01.a"),
    dict(name="c01-no-first-sync", pid="C01", kind="break", file=W,
         old="    self.wal.sync()?;\n    let manifest_snapshot", new="    let manifest_snapshot", key="R01.a"),
    dict(name="c01-cleanup-published", pid="C01", kind="break", file=W,
         old="      new_segments.push(segment.clone());\n", new="      new_segments.push(segment.clone());\n      new_segments.extend(manifest_snapshot.segments.iter().cloned());\n", key="R01.f"),
    # ---- C02
    dict(name="c02-swap-type-codes", pid="C02", kind="break", file=WAL,
         old="    self.append_entry(2, &[])", new="    self.append_entry(3, &[])", key="R02.a",
         extra=[(WAL, "    self.append_entry(3, doc_id.as_bytes())", "    self.append_entry(2, doc_id.as_bytes())")]),
    dict(name="c02-continue-on-bad-crc", pid="C02", kind="break", file=WAL,
         old="      if checksum.to_le_bytes() != checksum_bytes {\n        break;\n      }",
         new="      if checksum.to_le_bytes() != checksum_bytes {\n        continue;\n      }", key="R02.b"),
    dict(name="c02-rollback-keeps-log", pid="C02", kind="break", file=W,
         old="    self.pending_ops.clear();\n    self.wal.truncate()?;\n    Ok(())", new="    self.pending_ops.clear();\n    Ok(())", key="R02.c"),
    dict(name="c02-drop-no-sync", pid="C02", kind="break", file=W,
         old="      if let Err(e) = self.wal.sync() {", new="      if let Err(e) = self.wal.len().map(|_| ()) {", key="R02.c"),
    dict(name="c02-revert-tail-truncation", pid="C02", kind="break", revert="db3bd73", key="R02.d"),
    dict(name="c02-crc-payload-only", pid="C02", kind="break", file=WAL,
         old="    hasher.update(&buf[buf.len() - payload.len() - 1..]);", new="    hasher.update(&buf[buf.len() - payload.len()..]);", key="R02.a"),
    dict(name="c02-valid-len-before-crc", pid="C02", kind="break", file=WAL,
         old="      cursor = checksum_end;\n", new="      cursor = checksum_end;\n      valid_len = cursor;\n", key="R02.d"),
    dict(name="c02-commit-not-clearing", pid="C02", kind="break", file=WAL,
         old="        WalEntry::Commit => pending.clear(),", new="        WalEntry::Commit => {}", key="R02.c"),
    # ---- C03
    dict(name="c03-revert-post-publish", pid="C03", kind="break", revert="3ccb9e3", key="R03.a"),
    dict(name="c03-revert-cleanup-guard", pid="C03", kind="break", revert="0e3dc1f", key="R03.c"),
    dict(name="c03-discard-store", pid="C03", kind="break", file=W,
         old="      new_manifest.store(self.inner.storage.as_ref(), &manifest_path)?;", new="      let _ = new_manifest.store(self.inner.storage.as_ref(), &manifest_path);", key="R03.d"),
    dict(name="c03-ok-on-segment-write", pid="C03", kind="break", file="searchlite-core/src/index/segment.rs",
         old="    postings_file.sync_all()?;", new="    postings_file.sync_all().ok();", key="R03.d"),
    dict(name="c03-push-before-append", pid="C03", kind="break", file=W,
         old="    self.wal.append_add_doc(doc)?;\n    self.pending_ops.push(PendingOp::Add {\n      doc_id: doc_id.clone(),\n      doc: doc.clone(),\n    });",
         new="    self.pending_ops.push(PendingOp::Add {\n      doc_id: doc_id.clone(),\n      doc: doc.clone(),\n    });\n    self.wal.append_add_doc(doc)?;", key="R03.e"),
    dict(name="keep-c03-cleanup-in-ok-arm", pid="C03", kind="keep", file=W,
         old="      if manifest_restored && !new_segments.is_empty() {", new="      if !new_segments.is_empty() && manifest_restored {", key=""),
    # ---- C04
    dict(name="c04-no-deleted-test-in-scan", pid="C04", kind="break", file="searchlite-core/src/api/reader.rs",
         old="      let doc_id = raw as DocId;\n      if seg.is_deleted(doc_id) {\n        continue;\n      }\n", new="      let doc_id = raw as DocId;\n", key="R04.c"),
    dict(name="c04-publish-from-delete", pid="C04", kind="break", file=W,
         old="    let _guard = self.inner.writer_lock.lock();\n    for id in doc_ids {",
         new="    let _guard = self.inner.writer_lock.lock();\n    self.inner.manifest.write().committed_at.clear();\n    for id in doc_ids {", key="R04.a"),
    dict(name="c04-compact-copies-deleted", pid="C04", kind="break", file=IDX,
         old="        if seg.is_deleted(doc_id) {\n          return None;\n        }\n", new="", key="R04.c"),
    # ---- C05
    dict(name="c05-rollback-unlocked", pid="C05", kind="break", file=W,
         old="  pub fn rollback(&mut self) -> Result<()> {\n    let _guard = self.inner.writer_lock.lock();\n", new="  pub fn rollback(&mut self) -> Result<()> {\n", key="R05.a"),
    dict(name="c05-snapshot-before-lock", pid="C05", kind="break", file=W,
         old="    let inner = self.inner.clone();\n    let _guard = inner.writer_lock.lock();\n    if self.pending_ops.is_empty() {\n      return Ok(());\n    }\n    self.wal.sync()?;\n    let manifest_snapshot = inner.manifest.read().clone();\n",
         new="    let inner = self.inner.clone();\n    let manifest_snapshot = inner.manifest.read().clone();\n    let _guard = inner.writer_lock.lock();\n    if self.pending_ops.is_empty() {\n      return Ok(());\n    }\n    self.wal.sync()?;\n", key="R05.a"),
    dict(name="c05-guard-dropped-early", pid="C05", kind="break", file=W,
         old="    self.pending_ops.clear();\n    self.wal.truncate()?;\n    Ok(())", new="    self.pending_ops.clear();\n    drop(_guard);\n    self.wal.truncate()?;\n    Ok(())", key="R05.a"),
    dict(name="c05-cache-without-generation-test", pid="C05", kind="break", file=W,
         old="    let mut live_docs = if manifest_generation == self.live_generation {", new="    let mut live_docs = if manifest_generation == self.live_generation || !self.live_docs.is_empty() {", key="R05.b"),
    # ---- C06
    dict(name="c06-revert-lock-fix", pid="C06", kind="break", revert="a7e0b2e", key="R06.a"),
    dict(name="c06-reader-rereads-storage", pid="C06", kind="break", file="searchlite-core/src/index/segment.rs",
         old="  pub fn postings(&self, term: &str) -> Option<PostingsReader> {\n",
         new="  pub fn postings(&self, term: &str) -> Option<PostingsReader> {\n    let _ = crate::storage::FsStorage::new(std::path::PathBuf::from(&self.meta.paths.postings)).exists(Path::new(&self.meta.paths.postings));\n", key="R06.b"),
    # behaviour-preserving
    dict(name="keep-c01-extract-persist", pid="C01", kind="keep", file=W,
         old="    if let Err(e) = (|| -> Result<()> {\n      new_manifest.store(self.inner.storage.as_ref(), &manifest_path)?;\n      self.wal.append_commit()?;\n      self.wal.sync()?;\n      Ok(())\n    })() {",
         new="    if let Err(e) = persist_commit(&new_manifest, &self.inner, &mut self.wal, &manifest_path) {",
         extra=[(W, "fn doc_id_from_document(", "fn persist_commit(m: &Manifest, inner: &InnerIndex, wal: &mut Wal, p: &std::path::Path) -> Result<()> {\n  m.store(inner.storage.as_ref(), p)?;\n  wal.append_commit()?;\n  wal.sync()?;\n  Ok(())\n}\n\nfn doc_id_from_document(")],
         key=""),
]
