"""Seeded variants for the checker self-test.  Each: name, property whose check must fire, file, old, new,
substring expected in a VIOLATION key ('' = any).  kind 'break' must fire; kind 'keep' (behaviour-preserving
refactor) must stay silent."""
W = "searchlite-core/src/api/writer.rs"
IDX = "searchlite-core/src/index/mod.rs"
ST = "searchlite-core/src/storage/mod.rs"
MAN = "searchlite-core/src/index/manifest.rs"
WAL = "searchlite-core/src/index/wal.rs"

V = [
    # ---- C01
    dict(name="c01-drop-terms-fsync", pid="C01", kind="break", file="searchlite-core/src/index/terms.rs",
         old="  file.sync_all()?;\n", new="", key="R01.b"),
    dict(name="c01-marker-before-store", pid="C01", kind="break", file=W,
         old="      new_manifest.store(self.inner.storage.as_ref(), &manifest_path)?;\n      self.wal.append_commit()?;\n",
         new="      self.wal.append_commit()?;\n      new_manifest.store(self.inner.storage.as_ref(), &manifest_path)?;\n", key="R01.a"),
    dict(name="c01-cleanup-before-store", pid="C01", kind="break", file=IDX,
         old="    manifest_guard.store(\n      inner.storage.as_ref(),\n      &Manifest::manifest_path(&inner.path),\n    )?;\n    drop(manifest_guard);\n    cleanup_segments(inner.storage.as_ref(), &old_segments)?;\n",
         new="    cleanup_segments(inner.storage.as_ref(), &old_segments)?;\n    manifest_guard.store(\n      inner.storage.as_ref(),\n      &Manifest::manifest_path(&inner.path),\n    )?;\n    drop(manifest_guard);\n", key="R01.d"),
    dict(name="c01-manifest-write_all", pid="C01", kind="break", file=MAN,
         old="      .atomic_write(path, &data)", new="      .write_all(path, &data)", key="R01.e"),
    dict(name="c01-no-dir-fsync", pid="C01", kind="break", file=ST,
         old="    fs::rename(&tmp, path)?;\n    sync_dir(path)?;\n", new="    fs::rename(&tmp, path)?;\n", key="R01.c"),
    dict(name="c01-publish-before-persist", pid="C01", kind="break", file=W,
         old="    let wal_len = self.wal.len()?;\n", new="    let wal_len = self.wal.len()?;\n    *self.inner.manifest.write() = new_manifest.clone();\n", key="R01.a"),
    dict(name="c01-no-first-sync", pid="C01", kind="break", file=W,
         old="    self.wal.sync()?;\n    let manifest_snapshot", new="    let manifest_snapshot", key="R01.a"),
    dict(name="c01-cleanup-published", pid="C01", kind="break", file=W,
         old="      new_segments.push(segment.clone());\n", new="      new_segments.push(segment.clone());\n      new_segments.extend(manifest_snapshot.segments.iter().cloned());\n", key="R01.f"),
    # behaviour-preserving
    dict(name="keep-c01-extract-persist", pid="C01", kind="keep", file=W,
         old="    if let Err(e) = (|| -> Result<()> {\n      new_manifest.store(self.inner.storage.as_ref(), &manifest_path)?;\n      self.wal.append_commit()?;\n      self.wal.sync()?;\n      Ok(())\n    })() {",
         new="    if let Err(e) = persist_commit(&new_manifest, &self.inner, &mut self.wal, &manifest_path) {",
         extra=[(W, "fn doc_id_from_document(", "fn persist_commit(m: &Manifest, inner: &InnerIndex, wal: &mut Wal, p: &std::path::Path) -> Result<()> {\n  m.store(inner.storage.as_ref(), p)?;\n  wal.append_commit()?;\n  wal.sync()?;\n  Ok(())\n}\n\nfn doc_id_from_document(")],
         key=""),
]
