#!/usr/bin/env python3
"""seeded.py check <seed-dir> [Cnn ...]   : apply <seed-dir>/patch.diff to a scratch copy of /repo and run the checks on it
   seeded.py confirm <seed-dir>          : in a scratch copy: (1) demo passes without the patch, (2) with the patch the suite
                                           still passes and (3) the demo fails.  Prints a JSON summary.
Scratch copies live under /var/tmp/slmut and are removed afterwards."""
import json, os, re, shutil, subprocess, sys
sys.path.insert(0, os.path.dirname(os.path.abspath(__file__)))
import mutate

ALL = ["C01", "C02", "C03", "C04", "C05", "C06", "C07", "C08", "C09", "C10", "C11", "C12", "C13", "C14", "C15", "C16", "C17", "C18", "C19", "C20", "C21", "C22",
       "C23", "C24", "C25", "C26", "C27", "C28", "C29", "C30"]


def sh(cmd, cwd, timeout=3600):
    r = subprocess.run(cmd, cwd=cwd, shell=True, stdout=subprocess.PIPE, stderr=subprocess.STDOUT, text=True, timeout=timeout)
    return r.returncode, r.stdout


def check(seed, pids):
    d = mutate.scratch_copy()
    try:
        subprocess.check_call(["patch", "-p1", "-s", "-i", os.path.join(os.path.abspath(seed), "patch.diff")], cwd=d)
        res = mutate.run_checks(d, pids or ALL)
    finally:
        shutil.rmtree(d, ignore_errors=True)
    fired = {}
    for pid, (rc, out) in res.items():
        keys = re.findall(r"rule=\S+ key=(\S+)", out)
        if rc != 0:
            fired[pid] = keys
        if "cargo check under the slfacts wrapper failed" in out:
            fired[pid] = ["<does not compile>"]
    print(json.dumps({"seed": seed, "fired": fired}, indent=1))
    return fired


def confirm(seed):
    meta = json.load(open(os.path.join(seed, "meta.json")))
    d = mutate.scratch_copy()
    env_target = "CARGO_TARGET_DIR=/var/tmp/slmut/target-confirm CARGO_NET_OFFLINE=true "
    out = {"seed": seed}
    try:
        demo_src = None
        for f in os.listdir(seed):
            if f.endswith(".rs"):
                demo_src = os.path.join(seed, f)
        demo_path = meta.get("demo_path")
        os.makedirs(os.path.dirname(os.path.join(d, demo_path)), exist_ok=True)
        shutil.copy(demo_src, os.path.join(d, demo_path))
        crate = demo_path.split("/")[0]
        stem = os.path.splitext(os.path.basename(demo_path))[0]
        cmd = "cargo test -p %s --test %s --offline" % (crate, stem)
        rc0, o0 = sh(env_target + cmd, d)
        out["demo_passes_without_change"] = rc0 == 0
        subprocess.check_call(["patch", "-p1", "-s", "-i", os.path.join(os.path.abspath(seed), "patch.diff")], cwd=d)
        rc1, o1 = sh(env_target + cmd, d)
        out["demo_fails_with_change"] = rc1 != 0 and ("test result: FAILED" in o1 or "panicked" in o1)
        os.remove(os.path.join(d, demo_path))
        rc2, o2 = sh(env_target + "cargo test --workspace --no-fail-fast --offline", d)
        passed = sum(int(x) for x in re.findall(r"test result: \w+\. (\d+) passed", o2))
        failed = sum(int(x) for x in re.findall(r"test result: \w+\. \d+ passed; (\d+) failed", o2))
        out["suite"] = {"rc": rc2, "passed": passed, "failed": failed}
        out["suite_passed"] = rc2 == 0 and failed == 0 and passed >= 199
        if not out["demo_fails_with_change"]:
            out["demo_output_tail"] = o1[-800:]
        if not out["demo_passes_without_change"]:
            out["demo0_output_tail"] = o0[-800:]
    finally:
        shutil.rmtree(d, ignore_errors=True)
    print(json.dumps(out, indent=1))
    return out


if __name__ == "__main__":
    if sys.argv[1] == "check":
        check(sys.argv[2], sys.argv[3:])
    else:
        confirm(sys.argv[2])
