#!/usr/bin/env python3
"""Self-test of the checker: apply one textual mutation to a scratch copy of /repo and run checks on it.

usage: mutate.py <name> <file> <old> <new> -- <Cnn> [<Cnn>...]      (ad-hoc)
       mutate.py --patch <patch.diff> -- <Cnn> ...                     (a seeded patch)
Scratch copies live under $SL_SCRATCH (default /var/tmp/slmut) and are removed afterwards."""
import os, shutil, subprocess, sys, tempfile

VERIF = os.path.dirname(os.path.dirname(os.path.abspath(__file__)))
SCRATCH = os.environ.get("SL_SCRATCH", "/var/tmp/slmut")


def scratch_copy():
    os.makedirs(SCRATCH, exist_ok=True)
    d = tempfile.mkdtemp(prefix="m", dir=SCRATCH)
    subprocess.check_call(["rsync", "-a", "--exclude", "target", "--exclude", ".git", "/repo/", d + "/"])
    return d


def run_checks(d, pids, tier="quick"):
    env = dict(os.environ)
    env["SL_REPO"] = d
    ev = tempfile.mkdtemp(prefix="ev", dir=SCRATCH)
    env["SL_EVIDENCE_DIR"] = ev
    out = {}
    for pid in pids:
        r = subprocess.run([os.path.join(VERIF, "check"), pid, "--tier", tier], env=env, stdout=subprocess.PIPE,
                           stderr=subprocess.STDOUT, text=True)
        out[pid] = (r.returncode, r.stdout)
    shutil.rmtree(ev, ignore_errors=True)
    return out


def main(a):
    sep = a.index("--")
    pids = a[sep + 1:]
    a = a[:sep]
    d = scratch_copy()
    try:
        if a[0] == "--patch":
            subprocess.check_call(["patch", "-p1", "-s", "-i", os.path.abspath(a[1])], cwd=d)
        else:
            name, f, old, new = a
            p = os.path.join(d, f)
            s = open(p).read()
            if s.count(old) != 1:
                print("mutation anchor found %d times" % s.count(old)); return 2
            open(p, "w").write(s.replace(old, new))
        res = run_checks(d, pids)
        for pid, (rc, out) in res.items():
            print("== %s rc=%d" % (pid, rc))
            print("\n".join(l[:300] for l in out.strip().split("\n")[-12:]))
    finally:
        shutil.rmtree(d, ignore_errors=True)


if __name__ == "__main__":
    sys.exit(main(sys.argv[1:]))
