#!/usr/bin/env python3
"""run.py [name-substring ...] : apply each seeded variant to a scratch copy and check the verdicts."""
import os, re, shutil, sys, json, time
sys.path.insert(0, os.path.dirname(os.path.abspath(__file__)))
import mutate, variants

def apply(d, f, old, new, nth=None):
    p = os.path.join(d, f)
    s = open(p).read()
    if nth is not None:
        parts = s.split(old)
        if len(parts) <= nth:
            raise ValueError("variant anchor found %d times in %s, need occurrence %d" % (len(parts) - 1, f, nth))
        s = old.join(parts[:nth]) + new + old.join(parts[nth:])
        open(p, "w").write(s)
        return
    if s.count(old) != 1:
        raise ValueError("variant anchor found %d times in %s: %r" % (s.count(old), f, old[:60]))
    open(p, "w").write(s.replace(old, new))

def main(a):
    sel = [v for v in variants.V if not a or any(x in v["name"] for x in a)]
    if os.environ.get("SHARD"):           # SHARD=i/n: every n-th selected variant, starting at i (parallel runs)
        i_, n_ = (int(x) for x in os.environ["SHARD"].split("/"))
        sel = sel[i_::n_]
    rep = []
    for v in sel:
        t0 = time.time()
        d = mutate.scratch_copy()
        res = None
        try:
            if "revert" in v:
                import subprocess
                diff = subprocess.check_output(["git", "-C", "/repo", "show", v["revert"]])
                subprocess.run(["patch", "-R", "-p1", "-s"], input=diff, cwd=d, check=True)
            elif "patch" in v:
                import subprocess
                subprocess.run(["patch", "-p1", "-s", "-i", os.path.join(mutate.VERIF, v["patch"])], cwd=d, check=True)
            else:
                apply(d, v["file"], v["old"], v["new"], v.get("nth"))
            for (f, o, n) in v.get("extra", []):
                apply(d, f, o, n)
            also = v.get("also", [])
            if also == "ALL":
                import seeded
                also = [x for x in seeded.ALL if x != v["pid"]]
                v = dict(v, also=also)
            pids = [v["pid"]] + also
            res = mutate.run_checks(d, pids)
        except (ValueError, Exception) as e:
            print("%-34s %-5s FAIL (variant could not be applied: %s)" % (v["name"], v["kind"], e), flush=True)
            rep.append((v["name"], v["kind"], False, -1, [], 0))
            continue
        finally:
            shutil.rmtree(d, ignore_errors=True)
        rc, out = res[v["pid"]]
        keys = re.findall(r"rule=\S+ key=(\S+)", out)
        compiled = "cargo check under the slfacts wrapper failed" not in out
        if v["kind"] == "break":
            ok = compiled and rc == 1 and any(v["key"] in k for k in keys)
        else:
            # a keep variant must leave every check it names silent
            for extra_pid in v.get("also", []):
                rc2, out2 = res[extra_pid]
                if rc2 != 0:
                    rc = rc2
                    keys = keys + re.findall(r"rule=\S+ key=(\S+)", out2)
                    out = out + "\n" + out2
            ok = compiled and rc == 0
        rep.append((v["name"], v["kind"], ok, rc, keys[:3], round(time.time() - t0, 1)))
        print("%-34s %-5s %s rc=%d keys=%s %.0fs" % (v["name"], v["kind"], "OK " if ok else "FAIL", rc, keys[:3], time.time() - t0), flush=True)
        if not ok:
            print("\n".join(out.strip().split("\n")[-15:]))
    bad = [r for r in rep if not r[2]]
    print("%d variants, %d as expected, %d not" % (len(rep), len(rep) - len(bad), len(bad)))
    return 1 if bad else 0

if __name__ == "__main__":
    sys.exit(main(sys.argv[1:]))
