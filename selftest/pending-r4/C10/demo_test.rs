use std::collections::BTreeMap;

use searchlite_core::api::types::{
  Document, ExecutionStrategy, IndexOptions, Schema, SearchRequest, StorageType,
};
use searchlite_core::api::Index;
use serde_json::json;

const DOCS: usize = 600;
const TOKENS: usize = 12;

fn body(tf: usize) -> String {
  let mut words: Vec<&str> = Vec::with_capacity(TOKENS);
  for _ in 0..tf {
    words.push("rust");
  }
  while words.len() < TOKENS {
    words.push("pad");
  }
  words.join(" ")
}

fn request(execution: ExecutionStrategy, bmw_block_size: Option<usize>) -> SearchRequest {
  SearchRequest {
    query: "rust".into(),
    fields: None,
    filter: None,
    limit: 1,
    return_hits: true,
    candidate_size: None,
    sort: Vec::new(),
    cursor: None,
    execution,
    bmw_block_size,
    fuzzy: None,
    #[cfg(feature = "vectors")]
    vector_query: None,
    #[cfg(feature = "vectors")]
    vector_filter: None,
    return_stored: false,
    highlight_field: None,
    highlight: None,
    collapse: None,
    aggs: BTreeMap::new(),
    suggest: BTreeMap::new(),
    rescore: None,
    explain: false,
    profile: false,
  }
}

/// The best document sits far behind two fairly good ones, in a single
/// segment whose postings span several persisted blocks; the request asks for
/// block-max WAND with a block size larger than the persisted one. The top hit
/// must be the same as with exhaustive BM25 scoring.
#[test]
fn bmw_with_larger_block_size_keeps_best_hit() {
  let tmp = tempfile::tempdir().unwrap();
  let path = tmp.path().to_path_buf();
  let opts = IndexOptions {
    path: path.clone(),
    create_if_missing: true,
    enable_positions: true,
    bm25_k1: 0.9,
    bm25_b: 0.4,
    storage: StorageType::Filesystem,
    #[cfg(feature = "vectors")]
    vector_defaults: None,
  };
  let idx = Index::create(&path, Schema::default_text_body(), opts).unwrap();
  {
    let mut writer = idx.writer().unwrap();
    for i in 0..DOCS {
      let tf = match i {
        0 | 1 => 5,
        400 => 10,
        _ => 1,
      };
      let mut map = BTreeMap::new();
      map.insert("_id".to_string(), json!(format!("d{i}")));
      map.insert("body".to_string(), json!(body(tf)));
      writer.add_document(&Document { fields: map }).unwrap();
    }
    writer.commit().unwrap();
  }
  let reader = idx.reader().unwrap();

  let exhaustive = reader
    .search(&request(ExecutionStrategy::Bm25, None))
    .unwrap();
  assert_eq!(exhaustive.hits.len(), 1);
  assert_eq!(exhaustive.hits[0].doc_id, "d400");

  for block in [None, Some(64), Some(512)] {
    let pruned = reader
      .search(&request(ExecutionStrategy::Bmw, block))
      .unwrap();
    assert_eq!(pruned.hits.len(), 1, "block size {block:?}");
    assert_eq!(
      pruned.hits[0].doc_id, exhaustive.hits[0].doc_id,
      "block size {block:?}: top hit differs from exhaustive BM25"
    );
    assert_eq!(
      pruned.hits[0].score.to_bits(),
      exhaustive.hits[0].score.to_bits(),
      "block size {block:?}: top score differs from exhaustive BM25"
    );
  }
}
