use std::collections::BTreeMap;

use searchlite_core::api::types::{
  Document, ExecutionStrategy, FieldValueModifier, Filter, FunctionBoostMode, FunctionScoreMode,
  FunctionSpec, IndexOptions, KeywordField, NumericField, Query, QueryNode, RescoreMode,
  RescoreRequest, Schema, SearchRequest, StorageType,
};
use searchlite_core::api::Index;

fn doc(id: &str, body: &str, popularity: i64, lang: &str) -> Document {
  Document {
    fields: [
      ("_id".to_string(), serde_json::json!(id)),
      ("body".to_string(), serde_json::json!(body)),
      ("popularity".to_string(), serde_json::json!(popularity)),
      ("lang".to_string(), serde_json::json!(lang)),
    ]
    .into_iter()
    .collect(),
  }
}

fn setup_reader() -> searchlite_core::api::IndexReader {
  let path = tempfile::tempdir().unwrap().path().join("idx");
  let mut schema = Schema::default_text_body();
  schema.keyword_fields.push(KeywordField {
    name: "lang".into(),
    stored: true,
    indexed: true,
    fast: true,
    nullable: false,
  });
  schema.numeric_fields.push(NumericField {
    name: "popularity".into(),
    i64: true,
    fast: true,
    stored: true,
    nullable: false,
  });
  let opts = IndexOptions {
    path: path.clone(),
    create_if_missing: true,
    enable_positions: true,
    bm25_k1: 0.9,
    bm25_b: 0.4,
    storage: StorageType::Filesystem,
    #[cfg(feature = "vectors")]
    vector_defaults: None,
  };
  let idx = Index::create(&path, schema, opts).unwrap();
  let mut writer = idx.writer().unwrap();
  for d in [
    doc("doc-1", "rust fast", 10, "en"),
    doc("doc-2", "rust slow", 1, "en"),
    doc("doc-3", "boring", 5, "fr"),
  ] {
    writer.add_document(&d).unwrap();
  }
  writer.commit().unwrap();
  idx.reader().unwrap()
}

fn base_request(query: impl Into<Query>) -> SearchRequest {
  SearchRequest {
    query: query.into(),
    fields: None,
    filter: None,
    limit: 10,
    return_hits: true,
    candidate_size: None,
    sort: Vec::new(),
    cursor: None,
    execution: ExecutionStrategy::Wand,
    bmw_block_size: None,
    fuzzy: None,
    #[cfg(feature = "vectors")]
    vector_query: None,
    #[cfg(feature = "vectors")]
    vector_filter: None,
    return_stored: false,
    highlight_field: None,
    highlight: None,
    collapse: None,
    aggs: BTreeMap::new(),
    suggest: BTreeMap::new(),
    rescore: None,
    explain: false,
    profile: false,
  }
}

fn popularity_query() -> QueryNode {
  QueryNode::FunctionScore {
    query: Box::new(QueryNode::MatchAll { boost: None }),
    functions: vec![FunctionSpec::FieldValueFactor {
      field: "popularity".into(),
      factor: 1.0,
      modifier: Some(FieldValueModifier::None),
      missing: None,
      filter: None,
    }],
    score_mode: Some(FunctionScoreMode::Sum),
    boost_mode: Some(FunctionBoostMode::Replace),
    max_boost: None,
    min_score: None,
    boost: None,
  }
}

fn zero_for_english() -> QueryNode {
  QueryNode::ConstantScore {
    filter: Filter::KeywordEq {
      field: "lang".into(),
      value: "en".into(),
    },
    boost: Some(0.0),
  }
}

/// A rescore query that scores a window hit exactly 0 must still be combined
/// with the original score: Multiply gives 0, Min gives min(original, 0).
#[test]
fn zero_rescore_score_is_combined_in_multiply_and_min_modes() {
  let reader = setup_reader();

  // Baseline ranking: doc-1 (10), doc-3 (5), doc-2 (1).
  let plain = reader.search(&base_request(popularity_query())).unwrap();
  let base: Vec<(String, f32)> = plain
    .hits
    .iter()
    .map(|h| (h.doc_id.clone(), h.score))
    .collect();
  assert_eq!(
    base.iter().map(|(id, _)| id.as_str()).collect::<Vec<_>>(),
    vec!["doc-1", "doc-3", "doc-2"]
  );

  // The rescore query alone gives the English documents a score of exactly 0.
  let alone = reader.search(&base_request(zero_for_english())).unwrap();
  assert_eq!(alone.hits.len(), 2);
  for hit in alone.hits.iter() {
    assert_eq!(hit.score, 0.0);
  }

  for mode in [RescoreMode::Multiply, RescoreMode::Min] {
    let mut req = base_request(popularity_query());
    req.rescore = Some(RescoreRequest {
      window_size: 2,
      query: zero_for_english(),
      score_mode: mode,
    });
    let resp = reader.search(&req).unwrap();
    let got: Vec<(String, f32)> = resp
      .hits
      .iter()
      .map(|h| (h.doc_id.clone(), h.score))
      .collect();
    // Window = [doc-1, doc-3]. doc-1 matches the rescore query with score 0,
    // so its combined score is 0 in both modes; doc-3 does not match and keeps
    // 5. The window is re-sorted, doc-2 (outside the window) is untouched.
    assert_eq!(
      got,
      vec![
        ("doc-3".to_string(), 5.0),
        ("doc-1".to_string(), 0.0),
        ("doc-2".to_string(), 1.0),
      ],
      "unexpected rescored ranking"
    );
  }
}
