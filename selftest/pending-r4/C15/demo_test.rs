use std::collections::BTreeMap;

use searchlite_core::api::types::{Document, IndexOptions, Schema, StorageType};
use searchlite_core::api::Index;
use serde_json::json;

fn opts(path: &std::path::Path) -> IndexOptions {
  IndexOptions {
    path: path.to_path_buf(),
    create_if_missing: true,
    enable_positions: false,
    bm25_k1: 0.9,
    bm25_b: 0.4,
    storage: StorageType::Filesystem,
    #[cfg(feature = "vectors")]
    vector_defaults: None,
  }
}

fn doc(id: &str, body: &str) -> Document {
  let mut map = BTreeMap::new();
  map.insert("_id".to_string(), json!(id));
  map.insert("body".to_string(), json!(body));
  Document { fields: map }
}

/// A batch that is accepted by `add_documents` must be committable; a document
/// whose stored form exceeds the doc-store cap has to be refused when queued,
/// otherwise it blocks this and every later commit.
#[test]
fn batch_accepted_documents_can_always_be_committed() {
  let tmp = tempfile::tempdir().unwrap();
  let path = tmp.path().to_path_buf();
  let mut schema = Schema::default_text_body();
  for f in schema.text_fields.iter_mut() {
    f.stored = true;
    f.indexed = false;
  }
  let idx = Index::create(&path, schema, opts(&path)).unwrap();
  let mut writer = idx.writer().unwrap();

  // Single-document path refuses the oversized document at queue time.
  let huge_body = "a".repeat(33 * 1024 * 1024);
  let huge = doc("huge", &huge_body);
  assert!(writer.add_document(&huge).is_err());

  // Batch path: either refuse it too, or the commit has to go through.
  let batch = vec![doc("small-1", "hello"), huge];
  match writer.add_documents(&batch) {
    Err(_) => {}
    Ok(_) => writer
      .commit()
      .expect("a batch accepted by add_documents must be committable"),
  }

  // A later, perfectly valid document must never be blocked.
  writer.add_document(&doc("small-2", "world")).unwrap();
  writer
    .commit()
    .expect("commit of a valid document must not be blocked by an earlier one");
}
