use std::ffi::CString;
use std::os::raw::c_char;

use searchlite_ffi::{
  searchlite_add_json, searchlite_commit, searchlite_index_close, searchlite_index_open,
  searchlite_search,
};
use tempfile::tempdir;

const CANARY: u8 = 0xA5;
const MARGIN: usize = 16;

#[test]
fn search_never_writes_past_buf_cap_with_multibyte_content() {
  let dir = tempdir().unwrap();
  let path = CString::new(dir.path().to_string_lossy().to_string()).unwrap();
  let handle = unsafe { searchlite_index_open(path.as_ptr(), true) };
  assert!(!handle.is_null());

  let doc = CString::new(
    r#"{"_id":"日本語-1","body":"hello 日本語 wörld — 検索 €uro 😀 done"}"#,
  )
  .unwrap();
  let added = unsafe { searchlite_add_json(handle, doc.as_ptr(), doc.as_bytes().len()) };
  assert!(added >= 0);
  assert_eq!(unsafe { searchlite_commit(handle) }, 0);

  let query = CString::new("hello").unwrap();

  // Full response with a generous buffer.
  let mut big = vec![0u8; 1 << 16];
  let full_len = unsafe {
    searchlite_search(
      handle,
      query.as_ptr(),
      5,
      std::ptr::null(),
      std::ptr::null(),
      0,
      big.as_mut_ptr() as *mut c_char,
      big.len(),
    )
  };
  assert!(full_len > 0);
  let full = big[..full_len].to_vec();
  assert!(
    full.iter().any(|b| *b >= 0x80),
    "response must contain multi-byte UTF-8 for this demonstration: {}",
    String::from_utf8_lossy(&full)
  );

  for cap in 0..=full_len + MARGIN {
    // `cap` usable bytes followed by a canary region the callee must not touch.
    let mut buf = vec![CANARY; cap + MARGIN];
    let written = unsafe {
      searchlite_search(
        handle,
        query.as_ptr(),
        5,
        std::ptr::null(),
        std::ptr::null(),
        0,
        buf.as_mut_ptr() as *mut c_char,
        cap,
      )
    };
    assert!(
      buf[cap..].iter().all(|b| *b == CANARY),
      "cap={cap}: bytes beyond buf_cap were overwritten"
    );
    if cap == 0 {
      assert_eq!(written, 0);
      continue;
    }
    assert!(written < cap, "cap={cap}: written={written} leaves no room for NUL");
    assert_eq!(buf[written], 0, "cap={cap}: missing NUL terminator");
    assert_eq!(&buf[..written], &full[..written], "cap={cap}: not a prefix");
    assert_eq!(written, full_len.min(cap - 1), "cap={cap}: unexpected length");
  }

  unsafe { searchlite_index_close(handle) };
}
