//! Every request to /delete must be answered with a well-formed response:
//! invalid ids are a 400 with the {"error":{"type","reason"}} envelope, no
//! matter what bytes the id contains or how long it is.

use clap::Parser;
use searchlite_core::Schema;
use searchlite_http::{run, ServeArgs};
use std::net::TcpListener as StdListener;
use std::time::Duration;

fn free_port() -> u16 {
  let l = StdListener::bind("127.0.0.1:0").unwrap();
  l.local_addr().unwrap().port()
}

#[tokio::test(flavor = "multi_thread", worker_threads = 2)]
async fn delete_with_long_multibyte_control_id_gets_structured_400() {
  let dir = tempfile::tempdir().unwrap();
  let port = free_port();
  let bind = format!("127.0.0.1:{port}");
  let args = ServeArgs::parse_from([
    "searchlite-http",
    "--index",
    dir.path().join("idx").to_str().unwrap(),
    "--bind",
    &bind,
  ]);
  let server = tokio::spawn(run(args));
  let base = format!("http://{bind}");
  let client = reqwest::Client::new();

  // Wait for the server to come up.
  let mut up = false;
  for _ in 0..100 {
    if let Ok(r) = client.get(format!("{base}/healthz")).send().await {
      if r.status().is_success() {
        up = true;
        break;
      }
    }
    tokio::time::sleep(Duration::from_millis(50)).await;
  }
  assert!(up, "server did not start");

  let res = client
    .post(format!("{base}/init"))
    .json(&Schema::default_text_body())
    .send()
    .await
    .unwrap();
  assert!(res.status().is_success());

  // Ids with a control character: short ascii, long ascii, and long ids whose
  // multi-byte characters sit at various byte offsets.
  let mut ids: Vec<String> = vec!["bad\tid".to_string(), format!("{}\tz", "a".repeat(64))];
  for pad in 0..40 {
    ids.push(format!("{}\u{e9}\u{4e16}\u{1f600}\tz{}", "a".repeat(pad), "b".repeat(40)));
  }

  for id in ids {
    let res = client
      .post(format!("{base}/delete"))
      .json(&serde_json::json!({ "ids": ["ok", id] }))
      .send()
      .await;
    let res = match res {
      Ok(r) => r,
      Err(e) => panic!("no HTTP response for id {id:?}: {e}"),
    };
    assert_eq!(res.status().as_u16(), 400, "id {id:?}");
    let body: serde_json::Value = res.json().await.unwrap();
    assert_eq!(body["error"]["type"], "invalid_id", "id {id:?}");
    assert!(body["error"]["reason"].is_string(), "id {id:?}");

    let health = client.get(format!("{base}/healthz")).send().await.unwrap();
    assert!(health.status().is_success());
  }

  server.abort();
  let _ = server.await;
}
