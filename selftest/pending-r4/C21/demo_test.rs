use std::collections::BTreeMap;

use searchlite_core::api::types::{
  Document, ExecutionStrategy, HighlightField, HighlightRequest, IndexOptions, Schema,
  SearchRequest, StorageType,
};
use searchlite_core::api::Index;
use serde_json::json;

fn strip(s: &str, pre: &str, post: &str) -> String {
  s.replace(pre, "").replace(post, "")
}

/// An ASCII match surrounded by 3-byte CJK characters, with a fragment size
/// chosen so that the byte window's start lands in the middle of a character
/// while its end lands exactly on a boundary.
#[test]
fn fragment_never_exceeds_requested_size_on_multibyte_text() {
  let tmp = tempfile::tempdir().unwrap();
  let path = tmp.path().to_path_buf();
  let schema = Schema::default_text_body();
  let opts = IndexOptions {
    path: path.clone(),
    create_if_missing: true,
    enable_positions: true,
    bm25_k1: 0.9,
    bm25_b: 0.4,
    storage: StorageType::Filesystem,
    #[cfg(feature = "vectors")]
    vector_defaults: None,
  };
  let idx = Index::create(&path, schema, opts).unwrap();
  let cjk = "\u{65e5}\u{672c}\u{8a9e}\u{691c}\u{7d22}\u{65e5}\u{672c}\u{8a9e}\u{691c}\u{7d22}";
  let text = format!("{cjk} rust {cjk}");
  {
    let mut writer = idx.writer().unwrap();
    let mut map = BTreeMap::new();
    map.insert("_id".to_string(), json!("1"));
    map.insert("body".to_string(), json!(text.clone()));
    writer.add_document(&Document { fields: map }).unwrap();
    writer.commit().unwrap();
  }
  for fragment_size in [8usize, 9, 10, 11, 12, 16, 20, 21, 22, 23, 24, 25, 26, 40] {
    let mut fields = BTreeMap::new();
    fields.insert(
      "body".to_string(),
      HighlightField {
        pre_tag: "<em>".into(),
        post_tag: "</em>".into(),
        fragment_size,
        number_of_fragments: 2,
      },
    );
    let resp = idx
      .reader()
      .unwrap()
      .search(&SearchRequest {
        query: "rust".into(),
        fields: None,
        filter: None,
        limit: 5,
        return_hits: true,
        candidate_size: None,
        sort: Vec::new(),
        cursor: None,
        execution: ExecutionStrategy::Wand,
        bmw_block_size: None,
        fuzzy: None,
        #[cfg(feature = "vectors")]
        vector_query: None,
        #[cfg(feature = "vectors")]
        vector_filter: None,
        return_stored: true,
        highlight_field: None,
        highlight: Some(HighlightRequest { fields }),
        collapse: None,
        aggs: BTreeMap::new(),
        suggest: BTreeMap::new(),
        rescore: None,
        explain: false,
        profile: false,
      })
      .unwrap();
    assert_eq!(resp.hits.len(), 1);
    let frags = resp.hits[0]
      .highlights
      .as_ref()
      .and_then(|h| h.get("body"))
      .cloned()
      .unwrap_or_default();
    assert!(!frags.is_empty() && frags.len() <= 2);
    for frag in frags {
      let plain = strip(&frag, "<em>", "</em>");
      assert!(frag.contains("<em>rust</em>"), "no tagged match: {frag:?}");
      assert!(text.contains(&plain), "not a substring: {plain:?}");
      assert!(
        plain.len() <= fragment_size,
        "fragment of {} bytes exceeds fragment_size {}: {:?}",
        plain.len(),
        fragment_size,
        plain
      );
    }
  }
}
