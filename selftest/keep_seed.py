#!/usr/bin/env python3
"""keep_seed.py <id> <seed-dir> <confirm.json> <caught-by ...>: store a confirmed sub-agent mutant under /verif/seeded/<id>/."""
import json, os, shutil, sys
sid, src, conf = sys.argv[1], sys.argv[2], sys.argv[3]
caught = sys.argv[4:]
dst = os.path.join(os.path.dirname(os.path.dirname(os.path.abspath(__file__))), "seeded", sid)
os.makedirs(dst, exist_ok=True)
m = json.load(open(os.path.join(src, "meta.json")))
c = json.load(open(conf))
shutil.copy(os.path.join(src, "patch.diff"), os.path.join(dst, "patch.diff"))
demo = [f for f in os.listdir(src) if f.endswith(".rs")][0]
shutil.copy(os.path.join(src, demo), os.path.join(dst, "demo_test.rs"))
meta = {
    "property": m.get("property"),
    "origin": "independent sub-agent given only the property record and a scratch worktree of /repo at %s" % os.popen("git -C /repo log --format=%h -1").read().strip(),
    "summary": m.get("summary"),
    "needs_to_manifest": m.get("needs_to_manifest"),
    "demo_path": m.get("demo_path"),
    "demo_cmd": "cp demo_test.rs <repo>/%s && cargo test -p %s --test %s --offline" % (m.get("demo_path"), m.get("demo_path").split("/")[0], os.path.splitext(os.path.basename(m.get("demo_path")))[0]),
    "confirmed_in_scratch_copy": {"demo_passes_without_change": c.get("demo_passes_without_change"), "demo_fails_with_change": c.get("demo_fails_with_change"),
                                  "suite_with_change": c.get("suite"), "how": "python3 selftest/seeded.py confirm <dir> (scratch copy under /var/tmp/slmut: demo on the unchanged copy, patch applied, demo again, then the full workspace suite)"},
    "checks_run": "python3 selftest/seeded.py check <dir>  (all registered quick checks on a scratch copy with the patch applied)",
    "caught_by": caught,
}
json.dump(meta, open(os.path.join(dst, "meta.json"), "w"), indent=1)
print(dst, caught)
